#!/bin/bash
# confirm_phase1.sh <mutation dir with patch.diff, demo.py, meta.json>
# Own scratch worktree of /repo HEAD (safe to run several at once): demo passes clean, fails mutated; baseline
# tests with the mutation.  Writes <dir>/phase1.json.  /repo itself is not touched.
set -u
MD="$1"
WT=/tmp/confirm_wt_$$
git -C /repo worktree add -q --detach "$WT" HEAD || exit 9
cleanup() { git -C /repo worktree remove --force "$WT" 2>/dev/null; rm -rf "$WT"; }
trap cleanup EXIT
run_demo() { (cd /tmp && PYTHONPATH="$WT/src" NUMBA_DISABLE_JIT=1 timeout 900 /venv/bin/python "$MD/demo.py" > "$MD/demo_$1.out" 2>&1; echo $?); }
run_tests() { (cd "$WT" && PYTHONPATH="$WT/src" /venv/bin/python -m pytest -q -p no:cacheprovider --timeout=900 --continue-on-collection-errors 2>&1 | grep -E "passed|failed" | tail -1); }
D0=$(run_demo clean)
if ! git -C "$WT" apply --check "$MD/patch.diff" 2>/dev/null; then echo "{\"error\": \"patch-does-not-apply\"}" > "$MD/phase1.json"; echo "PHASE1 $MD patch-does-not-apply"; exit 8; fi
git -C "$WT" apply "$MD/patch.diff"
D1=$(run_demo mutated)
T1=$(run_tests)
python3 - "$MD/phase1.json" "$D0" "$D1" "$T1" <<'PY'
import json,sys
json.dump({"demo_exit_clean":int(sys.argv[2]),"demo_exit_mutated":int(sys.argv[3]),"tests_with_mutation":sys.argv[4]},open(sys.argv[1],"w"))
PY
echo "PHASE1 $MD demo=$D0/$D1 tests=[$T1]"
