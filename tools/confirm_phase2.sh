#!/bin/bash
# confirm_phase2.sh <mutation dir (with phase1.json)> <seeded id> <check ids...>
# apply to /repo, run the given checks (quick), revert; store under /verif/seeded/<seeded id>/.  Serial only.
set -u
MD="$1"; SID="$2"; shift 2; CHECKS="$@"
cd /verif
[ -f "$MD/phase1.json" ] || { echo "no phase1.json in $MD"; exit 9; }
rm -rf /tmp/evidence_backup_$$ && cp -r /verif/evidence /tmp/evidence_backup_$$
if ! git -C /repo apply --check "$MD/patch.diff" 2>/dev/null; then echo "RESULT $SID patch-does-not-apply-to-repo"; exit 8; fi
git -C /repo apply "$MD/patch.diff"
DET=""; FIRST=""
for c in $CHECKS; do
  ./check $c > /tmp/chk_$$.out 2>&1; ec=$?
  nv=$(grep -c "^VIOLATION" /tmp/chk_$$.out)
  first=$(grep "^VIOLATION" /tmp/chk_$$.out | head -1 | sed 's/.*obligation=//' | cut -c1-200)
  [ -z "$FIRST" ] && FIRST="$first"
  DET="$DET $c:exit=$ec:violations=$nv"
  echo "  check $c exit=$ec violations=$nv first=[$first]"
  tail -1 /tmp/chk_$$.out | cut -c1-200
done
git -C /repo checkout -- .
rm -rf /verif/evidence && mv /tmp/evidence_backup_$$ /verif/evidence
if [ -n "$(git -C /repo status --short)" ]; then echo "WARNING: /repo not clean"; git -C /repo status --short; fi
mkdir -p /verif/seeded/$SID
cp "$MD/patch.diff" "$MD/demo.py" /verif/seeded/$SID/
python3 - "$MD/meta.json" "/verif/seeded/$SID/meta.json" "$MD/phase1.json" "$DET" "$FIRST" <<'PY'
import json,sys
src,dst,p1,det,first=sys.argv[1:6]
try: m=json.load(open(src))
except Exception: m={}
ph=json.load(open(p1))
m["confirmed"]=dict(ph, baseline_expected="85 passed (+-1 flaky), 32 skipped, 5 collection errors", ran="tools/confirm_phase1.sh: scratch worktree of /repo HEAD; demo.py clean/mutated; full baseline suite with the mutation; tools/confirm_phase2.sh: git -C /repo apply, ./check <ids> --tier quick, git -C /repo checkout -- .")
m["checks"]=det.split()
if first: m["first_violated_obligation"]=first
json.dump(m,open(dst,"w"),indent=1)
PY
echo "RESULT $SID checks=[$DET]"
rm -f /tmp/chk_$$.out
