#!/usr/bin/env python3
"""Generate /verif/seeded/README.md from the meta.json files."""
import glob
import json
import os

rows = []
for d in sorted(glob.glob("/verif/seeded/*/")):
    sid = os.path.basename(d.rstrip("/"))
    try:
        m = json.load(open(os.path.join(d, "meta.json")))
    except Exception:
        continue
    c = m.get("confirmed", {})
    rows.append((sid, m.get("property", "?"), (m.get("summary", "") or "")[:160].replace("\n", " ").replace("|", "/"), (m.get("needs", "") or m.get("needs_to_manifest", "") or "")[:140].replace("\n", " ").replace("|", "/"), f"{c.get('demo_exit_clean')}/{c.get('demo_exit_mutated')}", (c.get("tests_with_mutation", "") or "").split(" in ")[0], ", ".join(m.get("checks", [])), m.get("history", "")))
with open("/verif/seeded/README.md", "w") as f:
    f.write("# Seeded changes\n\nProduced by sub-agents that saw only the property text; confirmed with `tools/confirm_mutation.sh`.\n`demo` = exit code of demo.py on the clean / mutated tree; `tests` = baseline suite with the mutation applied (baseline: 85-86 passed, 32 skipped, 5 collection errors; TestRunner::test_result, TestConfig::test_init, TestRunner::test_init are flaky).\n\n")
    f.write("| id | property | change | needs | demo | tests | checks (quick) | history |\n|---|---|---|---|---|---|---|---|\n")
    for r in rows:
        f.write("| " + " | ".join(str(x) for x in r) + " |\n")
print(len(rows), "rows")
