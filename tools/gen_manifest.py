#!/usr/bin/env python3
"""Regenerate /verif/MANIFEST.json from the table below (keeps the manifest valid at all times)."""
import json
import os

HERE = os.path.dirname(os.path.dirname(os.path.abspath(__file__)))

BASELINE = "cd /repo && /venv/bin/python -m pytest -ra -q -p no:cacheprovider --timeout=900 --continue-on-collection-errors"

COMMON_NOTE = (
    "Trusted: CPython semantics (the real function objects run on symbolic reals, JIT disabled), numpy object-dtype "
    "arithmetic as real arithmetic, machine floats read as exact rationals (A-real), the pvc engine itself modulo its "
    "canary/cross-check self-tests, hand-typed spec functions under /verif/spec. Per-property assumptions are listed in "
    "the evidence file."
)

# id -> (level category, level text, technique, design ref, extra note)
CLAIMED = {
    "C18": (
        "other",
        "Mixed, stated per part in the evidence. PROVED (contracts): for every RSL construction site (2736 class x order x nf sites, splitting labels, TMC kernels, distribution helpers) the largest index any part reads from its argument array -- recorded by a read-recording array while the real kernel runs symbolically on every path -- is below the length RSL.__init__ packs (the obligation compiled code needs, since it does no bounds checking); AST obligations on all 143 njit functions (explicit eager signature, no //, %, int**(-int), `is`, global, reflected containers). NOT provable by contracts and therefore only BOUNDED stand-ins, never counted as discharged: all 143 declared signatures compile with the JIT on (exhaustive), dispatcher-vs-py_func differential on N sampled arguments per kernel (quick N=4, thorough N=400), one NLO end-to-end run per process (NC, CC; TMC, scale variations) with the JIT on vs off.",
        "contract-based deductive verification for index bounds / semantic-fork lint; bounded differential JIT-vs-interpreter evaluation as labelled stand-in",
        "DESIGN 4 C18",
        "equality of generated machine code and Python semantics for all inputs is numba/LLVM correctness: outside the reach of contracts (bounded only).",
    ),
    "C08": (
        "proof",
        "PARTIAL, scope stated: for the REAL kernel generators heavy.kernels.generate / intrinsic.kernels.generate vs asy.kernels.generate_heavy_asy / generate_intrinsic_asy (same esf, nf, heavy flavour), per parton and per order, the weighted kernel sums denote the same distribution in the mechanical limit eps = m2/Q2 -> 0+ (normal form over atoms, log(eps) split off by z3-proved log expansion, radicals rationalised, dilogarithms canonicalised, every other atom evaluated at eps = 0; lemma L-lim gives the O(eps log^k eps) rate), for all z in (0,1): CC F2/FL/F3 quark+gluon at orders 0-1 (Gluck-Kretzer-Reya closed forms), NC F2/FL/g1 VV+AA at O(a_s) through the real LeProHQ.cg0 Python source (executed, not stubbed), NC F2/FL gluon+singlet at O(a_s^2) for Q2/m2 beyond LeProHQ's interpolation grids (> 1e5: LeProHQ then evaluates closed forms, also executed from source) against yadism's own asy/raw_nc.py, heavy-quark-initiated CC and NC kernels at orders 0-1, and -- for the 'missing' channel whose coefficient functions are numerical tables -- equality of the parton weights of every asymptotic kernel with the massive kernel it replaces. NOT covered (no contract can reach it): O(a_s^2) NC massive coefficients inside LeProHQ's grids and the Adler spline; only BOUNDED stand-ins (never counted): the delta coefficient of the heavy-quark-initiated NC F2/F3 kernels at O(a_s), and the coefficient functions of the 'missing' channel for NC F2/FL/g1 at Q2/m2 = 1e4, 1e6 (this stand-in found one defect that was repaired and reports two KNOWN-FINDING lines for g1, see KNOWN_FINDINGS.txt).",
        "contract-based deductive verification: symbolic execution of the real massive and asymptotic kernels + mechanical limit (pvc.limit, self-checked against the original term) + ratfun identity in Q(z, log eps, atoms)",
        "DESIGN 9.6",
        "L-lim and dominated convergence are textbook lemmas (stated, not machine-checked); native replay at Q2/m2 = 1e8.",
    ),
    "C19": (
        "proof",
        "PARTIAL, scope stated. The property has two halves. (1) 'x on a grid node = infinitesimally displaced x': a corollary of contracts within reach, discharged here -- Runner.__init__ builds InterpolatorDispatcher(XGrid(card grid, card log flag), card degree) and hands the same object to every consumer (3 grids x degree 1-4 x log/linear); the C01 contracts the statement rests on are re-discharged (conv.convolution equals the spec integral for EVERY x, the paths where x sits exactly on an area border included; the quadrature is split at every area border; convolve_vector / convolve_operator structure); continuity of the spec integral then needs continuous basis functions (A-eko) -- stand-ins labelled bounded: eko's real constructors and evaluate_x executed on SYMBOLIC nodes and a symbolic point (any node positions at least eko's comparison tolerance apart, degree 1-4, up to degree+3 nodes: partition of unity, p_j(t_k) = delta_jk, continuity at inner borders and zero at the borders of the support, as exact identities of rational functions), and on six concrete grids for every x (z3). (2) 'two adequate grids agree / convergence under refinement' is approximation theory about eko's polynomials and scipy's quadrature: NO contract decides it; only a BOUNDED stand-in (real LO+NLO runs on 15/30/60 nodes and degree 2 vs 4 with a smooth toy PDF; node vs 1e-9-displaced x on a real run), never counted as discharged.",
        "contract-based deductive verification for the wiring and the every-x convolution contracts (corollary: node continuity); bounded real runs as labelled stand-in for convergence",
        "DESIGN 9.9",
        "half (2) is not decided by contracts; A-eko bounded in the number of nodes and the degree (node positions and x unbounded).",
    ),
    "C04": (
        "proof",
        "NLO closed forms: the real NLO quark and gluon kernels of F2, FL, F3, g1 (through the real NC/CC classes, nf 3..6) are identical, as elements of Q(z, ln z, ln(1-z)) with z3-justified log expansion, to the published closed forms (regular part, plus distributions, delta coefficient) for all z in (0,1). Sum rules: the first moment int_0^1 reg + loc(0+) of the real non-singlet kernels (Adler: F2 nu-nubar at orders 1-3; GLS/Bjorken: F3 and g1 at the available orders, nf 3..6) is computed by exact term-wise reduction of the kernel's symbolic normal form to a table of definite integrals and equals the analytic value (exactly at NLO, within 1e-4 of the cancellation scale for the fitted parametrisations).",
        "contract-based deductive verification: symbolic normal form of the real kernels + exact reduction to a definite-integral table (moment lemmas) + ratfun identities",
        "DESIGN 4 C04",
        "literature values typed into spec/nlo.py, spec/sumrules.py; the integral table is trusted numerics (mpmath, 40 digits, spot-checked); only first moments are claimed.",
    ),
    "C14": (
        "proof",
        "Invariant-style contracts on every memo table: the cache key built by sf.get_esf (recorded with a probing dict, symbolic kinematics) contains x and Q2 by name at fixed positions whatever the order/extra entries of the kinematics dict, plus the TMC flag, and the object returned is the one a fresh request builds; ESF.get_result computes once and returns a deep copy; ScaleVariations.operators[(label,nf)] and heavy.n3lo.interpolators[file name] are functions of keys that determine all inputs; Runner.get_result places results by original index on every Q2 ordering of 0..3 elements (symbolic Q2, ties included); AST frame lemma over every module of the package (contracts/frame_ast.py): no function writes process-global state -- module-level objects, class objects, class-level mutables, memoising decorators, mutable defaults -- except the listed memo tables (a new site leaves the lemma undecided: exit 2, not a violation). History independence then follows by induction over the public operations (DESIGN C14); concrete companions: sequences on shared objects and the process-/request-history battery (twelve diverse real runs, alone in a fresh interpreter vs inside three differently ordered sequences, and the full run vs one run per point, bit for bit).",
        "contract-based deductive verification: data-structure invariants (key determines value) + symbolic path exploration of the result placement + AST frame scan",
        "DESIGN 4 C14",
        "A-det (library determinism) for the bit-for-bit claim; dict lookups hash keys, so key construction is checked symbolically and lookups on concrete histories; end-to-end LO runs as a bounded stand-in (not counted).",
    ),
    "C20": (
        "proof",
        "Frame and echo contracts: compatibility.update over the full card lattice (5 schemes x NfFF 3..6 x 8 target spellings x optional-key subsets) with write-recording dict/list proxies modifies nothing reachable from its arguments, returns new dictionaries and is idempotent; AST lemmas (the originals occur only as .copy() receivers; no store or mutating call is rooted at the card/kinematics parameters of Runner.__init__, SF/XS.load, get_esf, ESF/EXS/TMC constructors); real Runner construction for every scheme x NfFF x target and five real LO get_result runs (TMC, cross sections, duplicates, empty observables) write nothing into the cards, echo the cards by reference with interpolator description, pids and projectilePID, and return a deep copy equal by value.",
        "contract-based deductive verification: frame conditions by write-recording proxies over the exhaustive discrete lattice + AST frame lemmas",
        "DESIGN 4 C20",
        "card handling does not branch on continuous values; Runner runs at LO (cards are read only in __init__/update/from_dict: AST).",
    ),
    "C15": (
        "proof",
        "Inverse-pair contracts: from_document(get_raw(r)) == r for ESFResult/EXSResult on symbolic entries; load_tar(dump_tar(o)), load_yaml(dump_yaml(o)) and the mixed sequences tar>yaml, yaml>tar, tar>yaml>tar, each once and twice, return an Output with the identical abstract view (keys, cards, metadata, kinematics, order keys as tuples, result classes, entry-wise identical symbolic values and errors) for ESF / EXS / None / empty observables and their mixes. The I/O libraries (yaml incl. its safe/unsafe asymmetry, npz, tar, tempfile, pathlib) are in-memory inverse-pair contract stubs; the restructuring code runs for real.",
        "contract-based deductive verification: symbolic execution of the real (de)serialisers against assumed inverse-pair contracts of the I/O libraries + ratfun identity per entry",
        "DESIGN 4 C15",
        "A-io assumed (instance-checked against the real libraries as a bounded stand-in, not counted); shapes bounded to 0..3 points / 0..3 orders, values unbounded.",
    ),
    "C17": (
        "proof",
        "ESFResult/EXSResult.apply_pdf with uninterpreted PDF, alpha_s, alpha_qed and symbolic Q2, xiR, xiF, operator entries equals sum_o (alpha_s(sqrt(Q2) xiR)/4pi)^o0 alpha(..)^o1 ln(1/xiR^2)^o2 ln(1/xiF^2)^o3 sum_{a,j} v_o[a,j] xfxQ2(pid_a,x_j,Q2 xiF^2)/x_j over the flavours the PDF provides (same for errors; y echoed for cross sections; Q2 unset -> ValueError); linearity lemma; Output-level iteration over exactly the valid non-None observables with pids / grid / couplings passed unchanged; apply_pdf_theory builds the coupling from the card (reference value, scale, nf, order, squared masses and ratios) and uses nf_to = NfFF in fixed-flavour schemes, nf_default(muR^2, atlas) in ZM-VFNS, ValueError otherwise.",
        "contract-based deductive verification: symbolic execution with uninterpreted PDF/couplings + ratfun normaliser",
        "DESIGN 4 C17",
        "eko Couplings/Atlas are recording stubs (solver not covered); array shapes 1..3.",
    ),
    "C01": (
        "proof",
        "Contracts on the three quad_ker integrands, conv.convolution (all 32 combinations of reg/sing/loc presence, interpolation mode and support position: empty-domain/below-support give exactly (0,0) without quadrature; otherwise value = QUAD + p_j(x) loc(x) with limits x(1+eps), min(max_i x/b_i,1)(1-eps), breakpoints at every area border, and the captured integrand called with the captured argument tuple on a symbolic z equals reg f(x/z)/z + sing (f(x/z)/z - f(x))), convolve_vector / convolve_operator (element-wise maps, lifted to any length by AST loop lemmas), the raw-order part of compute_local (sum over kernels of partons x convolution point x convolution, order window, None orders, |partons| for errors, cached second call) and the convolution point of every partonic-channel class.",
        "contract-based deductive verification: symbolic execution with recording contract stubs for quad/eko + ratfun normaliser + AST loop lemmas",
        "DESIGN 4 C01",
        "A-quad, A-eko, L-plus (plus-prescription identity, with C03 supplying loc = delta - int sing) assumed; quadrature accuracy not covered.",
    ),
    "C05": (
        "proof",
        "The real ScaleVariations methods, sector_mapping & co. and the scale-variation part of compute_local run on formal x-space operators (one-node grid: the code is linear in them), symbolic beta0/beta1, weights and raw coefficients with eko's concrete flavour projectors; the produced tensors are inserted into the apply_pdf contraction with the truncated running coupling and truncated DGLAP evolution and every coefficient of a0^k tR^i tF^j that the RGEs require to cancel (muR through a0^pto for pto<=3, muF through a0^min(pto,2)) is shown to be the zero polynomial; closed tables (build_orders, ren_coeffs, every sector of sector_mapping); switches: off-terms are exactly zero, the rest identical; intrinsic kernels carry no lnF.",
        "contract-based deductive verification: symbolic execution on formal operators + exact polynomial normaliser (coefficient extraction)",
        "DESIGN 4 C05",
        "label-definition lemma (stored convolved kernels are the ordered LO products) assumed; eko projectors/anomalous-dimension basis trusted; kernels with an LO entry carry no gluon weight and only active-flavour weights.",
    ),
    "C07": (
        "proof",
        "Lattice-wide lemmas on the REAL Combiner.collect output: the formal sum (view) of the kernels of F_total equals view(F_light) plus the views of the massive flavours in FFNS/FFN0 and view(F_light) in ZM-VFNS; a ZM-treated flavour is the restriction of the massless light part to that quark's couplings (NC: positivity-charge stub, CC: CKM restricted to the flavour's block); FONLL 'full' = 'massless' + 'massive'; the six NCPositivityCharge runs sum to the unrestricted one. Entry-wise identities of weight vectors per (coefficient class, ctor data, order window), weights symbolic.",
        "contract-based deductive verification: symbolic execution of the real collectors over the enumerated lattice + ratfun normaliser + AST read-set lemma",
        "DESIGN 4 C07",
        "interpretation of the FFNS partition as recorded in DESIGN C07; coefficient objects identified by class + constructor data; explicitly rejected cells are skipped and counted.",
    ),
    "C16": (
        "proof",
        "Dispatch totality over the documented lattice (18k cells quick / full product thorough): kernel collection and every active coeff[o]() either succeed or raise ValueError/NotImplementedError/RuntimeError with a message on every kinematic path; TMC x kind dispatch of sf.get_esf; with symbolic x, Q2, M2 z3 proves that a result object is only returned for 0<x<=1, Q2>0, x>=min(grid) on plain and TMC branches (counter-models are replayed natively); replace_nans_with_0 contract for every valid observable key. Finiteness of in-repo formulas is C03's definedness obligations.",
        "contract-based deductive verification: exhaustive lattice enumeration with symbolic kinematics + z3",
        "DESIGN 4 C16",
        "external libraries assumed finite-or-NaN; projectile collapsed to the CC rest parity in the quick tier.",
    ),
    "C03": (
        "proof",
        "For every RSL construction site (every PartonicChannel subclass found by module scan x order 0..3 x nf 3..6; every split.raw_labels entry) the real class and order method are executed on symbolic z, x, Q2, m2 and the obligations 'd/dz loc + sing == 0' (mechanical differentiation + exact normaliser in Q(atoms) with z3-proved log factorisation), 'every denominator != 0 / log argument > 0 / sqrt argument >= 0 on the family's domain' (z3) and 'each part is one real scalar' are discharged; plus the generic contract of from_distr_coeffs for coefficient vectors of length 1..6.",
        "contract-based deductive verification: symbolic execution of the real kernels + mechanical differentiation + exact normaliser + z3",
        "DESIGN 4 C03",
        "L-FTC assumed; li2/nielsen/spence/LeProHQ/adani/splines are atoms or uninterpreted (finiteness assumed); tolerance 1e-5 for the rounded published NNLO/N3LO parametrisations.",
    ),
    "C10": (
        "proof",
        "Contracts on the four TMC kernels, the TMC base class (__init__, get_result dispatch, _convolve_FX, _h2/_g2/_k1/_k2/_h3) and the nine _get_result_* methods of ESFTMC_F2/FL/F3/g1: with symbolic x, Q2, M2 (rho as a sqrt atom), abstract structure functions and abstract integrals whose weight class is decided semantically from the kernel the code passes, every result equals the literature formula in spec/tmc.py (own kind, own heavyness, shifted point xi), APFEL = exact minus the nested integral, M=0 gives the uncorrected F(x), xi below the grid raises ValueError.",
        "contract-based deductive verification: symbolic execution + exact normaliser in Q(atoms) with sqrt relation + z3 definedness",
        "DESIGN 4 C10",
        "spec typed from Schienbein et al./Bluemlein-Tkabladze; L-cov hand-proved; structure functions, integrals and basis support are contract stubs.",
    ),
    "C06": (
        "proof",
        "Contracts on update_fns (threshold/ZM table per scheme, unknown scheme rejected), on the Atlas wiring of Runner.__init__ (walls = m_q^2 k_q^2 from the updated card, symbolic in ZM-VFNS), on Combiner.__init__ and on the nf handed to the scale-variation manager; the real eko.nf_default/numpy code is executed symbolically in Q2 on each scheme's real Atlas and z3 proves nf = 3 + #{s_q <= Q2} on every path (equality paths included) resp. nf = NfFF for every Q2>0; AST read-set lemma: the Atlas is read only in Combiner.__init__.",
        "contract-based deductive verification: symbolic execution (all paths in Q2) + z3 + AST read-set scan",
        "DESIGN 4 C06",
        "numpy digitize executed, not modelled, for the concrete walls of each scheme; arbitrary unsorted walls rely on numpy's contract.",
    ),
    "C09": (
        "proof",
        "Contracts on heavy NeutralCurrentBase.{__init__,decorator,is_below_pair_threshold}, on every regular closure of every heavy NC class (module scan) at orders 1-3 and on the CC convolution point: is_below <=> Q2(1-z)/z <= 4m2 (z3, equality included); below the hadronic threshold all orders give the empty RSL and conv.convolution returns exactly (0,0) without reaching LeProHQ/splines/quad; every closure returns 0 beyond the partonic threshold; CC point is x(1+m2/Q2) and the convolution is (0,0) once it reaches 1-eps.",
        "contract-based deductive verification: symbolic execution with recording contract stubs + z3 + ratfun",
        "DESIGN 4 C09",
        "LeProHQ, N3LO splines, quad and the eko basis function are contract stubs (uninterpreted, recording).",
    ),
    "C12": (
        "proof",
        "Unit contract on Combiner.apply_isospin (symbolic Z, A, weights: contraction of the rotated weights with any parton values equals contraction of the original weights with the isospin-mixed u,d; frame on other pids), plus a lattice-wide obligation on the REAL collected kernel lists that every kernel is rotated exactly once (catches aliased partons dictionaries), collect_elems/drop_empty structure, update_target table.",
        "contract-based deductive verification: symbolic execution over the exhaustively enumerated kernel lattice + ratfun normaliser",
        "DESIGN 4 C12",
        "get_weight and nf_default replaced by their contracts; cells whose dispatch raises are left to C16.",
    ),
    "C11": (
        "proof",
        "Contracts on xs_coeffs_unpolarized/polarized (coefficient vector equals the documented N(y+,-yL,+-y-) for all real y,x,Q2,M,MW,GF and all kinds x projectiles), on EvaluatedCrossSection.get_result (sigma.orders[k] is that linear combination of the three structure functions of the same heavyness requested with the same kinematics object, key union, F3 skipped iff its coefficient is 0) and on CrossSection.load/get_esf (use_raw=False so TMC applies).",
        "contract-based deductive verification: symbolic execution of the real functions + exact ratfun normaliser + z3",
        "DESIGN 4 C11",
        "spec/xs.py typed from docs/theory/intro.rst (XSFPFCC 4pi vs printed 8pi noted); structure functions abstract.",
    ),
    "C13": (
        "proof",
        "Lemmas over the coupling/weight contracts: NC weights at eta_gammaZ=0 equal EM weights and eta*(MZ2+Q2) is MZ-independent; positron(P)=electron(-P) for every mode/type/quark; CC weight dictionaries and the collected kernel lists of (anti)neutrino/e+- are charge conjugates with a sign flip exactly for parity-violating kinds, arbitrary CKM; equal-charge active quarks have identical weights in every massless kernel.",
        "contract-based deductive verification: lemmas over sidecar contracts, ratfun normaliser, mechanical differentiation",
        "DESIGN 4 C13",
        "kernel-level lemmas use get_weight's contract value (proved under C02); coefficient objects identified by class+ctor data.",
    ),
    "C02": (
        "proof",
        "Sidecar contracts on CouplingConstants, CKM2Matrix, the weight builders and every LO() method; obligations are "
        "generated by running the real code objects on symbolic reals over the exhaustively enumerated discrete lattice and "
        "discharged by an exact rational-function normaliser (identities) and z3 (definedness). Holds for all real EW "
        "parameters, not samples.",
        "contract-based deductive verification: symbolic execution of the real functions + exact ratfun normaliser + z3",
        "DESIGN 4 C02",
        "PDG formulas in spec/ew.py are the oracle; gluon/singlet weights specified as flavour averages; A-eko for the grid-node lemma.",
    ),
}

NOT_APPLICABLE = {
}

NOT_YET = "contracts for this property are designed (DESIGN 4) but the check is not built yet in this revision; not claimed"

ALL = [f"C{n:02d}" for n in range(1, 21)]


def main():
    checks = []
    for pid, (cat, text, tech, ref, note) in sorted(CLAIMED.items()):
        checks.append(
            {
                "property_id": pid,
                "quick_cmd": f"./check {pid} --tier quick",
                "thorough_cmd": f"./check {pid} --tier thorough",
                "evidence_file": f"/verif/evidence/{pid}.json",
                "replay_cmd_template": f"./check {pid} --replay {{path}}",
                "engine": "pvc",
                "level_claimed": {"category": cat, "text": text, "design_ref": ref},
                "level_note": COMMON_NOTE + " " + note,
                "technique": tech,
            }
        )
    na = []
    for pid in ALL:
        if pid in CLAIMED:
            continue
        na.append({"property_id": pid, "reason": NOT_APPLICABLE.get(pid, NOT_YET)})
    man = {
        "version": 1,
        "setup_cmd": "./setup.sh",
        "hooks": {
            "guard": "YADISM_VERIF",
            "enable": "no source hooks: contracts are sidecar files under /verif/contracts and callee stubs are run-time rebindings; checks import yadism from /repo/src (editable install) so they always see the working tree",
            "baseline_off_cmd": BASELINE,
            "source_commits": [],
            "add_only": True,
        },
        "engines": [
            {
                "name": "pvc",
                "path": "/verif/pvc",
                "serves_properties": sorted(CLAIMED),
                "kind_free_text": "purpose-built contract verifier for Python: runs the real function objects of /repo on symbolic reals (exhaustive path forking on bool()), callee stubs from sidecar contracts, obligations discharged by z3 / cvc5 / an exact rational-function normaliser with transcendental atoms and a mechanical differentiator",
            }
        ],
        "checks": checks,
        "not_applicable": na,
        "notes": "Exit codes: 0 held, 1 violation (VIOLATION line + replay file), 2 undecided, 3 engine failure. Known findings: /verif/KNOWN_FINDINGS.txt.",
    }
    with open(os.path.join(HERE, "MANIFEST.json"), "w") as f:
        json.dump(man, f, indent=1)
    print("MANIFEST.json written:", len(checks), "checks,", len(na), "not_applicable")


if __name__ == "__main__":
    main()
