#!/bin/bash
# run every claimed check (quick unless $1=thorough) on the current tree; summary on stdout
cd "$(dirname "$0")/.."
TIER=${1:-quick}
rc=0
for p in $(python3 -c "import json;print(' '.join(c['property_id'] for c in json.load(open('MANIFEST.json'))['checks']))"); do
  s=$(date +%s)
  ./check $p --tier $TIER > /tmp/run_all_$p.log 2>&1; ec=$?
  e=$(date +%s)
  echo "$p exit=$ec $((e-s))s $(tail -1 /tmp/run_all_$p.log | cut -c1-150)"
  [ $ec -ne 0 ] && rc=1
  rm -f /tmp/run_all_$p.log
done
exit $rc
