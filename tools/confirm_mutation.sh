#!/bin/bash
# confirm_mutation.sh <mutation dir with patch.diff, demo.py, meta.json> <seeded id> <check ids...>
# 1. scratch worktree of /repo HEAD: demo passes clean, fails mutated; baseline tests unchanged with the mutation
# 2. apply to /repo, run the given checks (quick), revert
# 3. store under /verif/seeded/<seeded id>/ with meta.json extended
set -u
MD="$1"; SID="$2"; shift 2; CHECKS="$@"
WT=/tmp/confirm_wt_$$
git -C /repo worktree add -q --detach "$WT" HEAD || exit 9
cleanup() { git -C /repo worktree remove --force "$WT" 2>/dev/null; rm -rf "$WT"; }
trap cleanup EXIT
cd "$WT"
run_demo() { (cd /tmp && PYTHONPATH="$WT/src" NUMBA_DISABLE_JIT=1 timeout 900 /venv/bin/python "$MD/demo.py" > /tmp/demo_$$.out 2>&1; echo $?); }
run_tests() { (cd "$WT" && PYTHONPATH="$WT/src" /venv/bin/python -m pytest -q -p no:cacheprovider --timeout=900 --continue-on-collection-errors 2>&1 | grep -E "passed|failed" | tail -1); }
D0=$(run_demo); T0="skipped"
if ! git -C "$WT" apply --check "$MD/patch.diff" 2>/dev/null; then echo "RESULT $SID patch-does-not-apply"; exit 8; fi
git -C "$WT" apply "$MD/patch.diff"
D1=$(run_demo); tail -3 /tmp/demo_$$.out > /tmp/demo_mut_$$.txt
T1=$(run_tests)
git -C "$WT" checkout -- . 
echo "demo clean exit=$D0 mutated exit=$D1 ; tests with mutation: $T1"
# checks against /repo (the evidence directory is saved and restored: committed evidence must come from the clean tree)
cd /verif
rm -rf /tmp/evidence_backup_$$ && cp -r /verif/evidence /tmp/evidence_backup_$$
if ! git -C /repo apply --check "$MD/patch.diff" 2>/dev/null; then echo "RESULT $SID patch-does-not-apply-to-repo"; exit 8; fi
git -C /repo apply "$MD/patch.diff"
DET=""
for c in $CHECKS; do
  ./check $c > /tmp/chk_$$.out 2>&1; ec=$?
  nv=$(grep -c "^VIOLATION" /tmp/chk_$$.out)
  first=$(grep "^VIOLATION" /tmp/chk_$$.out | head -1 | sed 's/.*obligation=//' | cut -c1-160)
  DET="$DET $c:exit=$ec:violations=$nv"
  echo "  check $c exit=$ec violations=$nv first=[$first]"
  tail -1 /tmp/chk_$$.out | cut -c1-200
done
git -C /repo checkout -- .
rm -rf /verif/evidence && mv /tmp/evidence_backup_$$ /verif/evidence
if [ -n "$(git -C /repo status --short)" ]; then echo "WARNING: /repo not clean"; git -C /repo status --short; fi
mkdir -p /verif/seeded/$SID
cp "$MD/patch.diff" "$MD/demo.py" /verif/seeded/$SID/
python3 - "$MD/meta.json" "/verif/seeded/$SID/meta.json" "$D0" "$D1" "$T1" "$DET" <<'PY'
import json,sys
src,dst,d0,d1,t1,det=sys.argv[1:7]
try: m=json.load(open(src))
except Exception: m={}
m["confirmed"]={"demo_exit_clean":int(d0),"demo_exit_mutated":int(d1),"tests_with_mutation":t1,"baseline_expected":"85 passed (+-1 flaky), 32 skipped, 5 collection errors","ran":"tools/confirm_mutation.sh: scratch worktree of /repo HEAD; demo.py clean/mutated; full baseline suite with the mutation; then git -C /repo apply, ./check <ids> --tier quick, git -C /repo checkout -- ."}
m["checks"]=det.split()
json.dump(m,open(dst,"w"),indent=1)
PY
echo "RESULT $SID demo=$D0/$D1 tests=[$T1] checks=[$DET]"
rm -f /tmp/demo_$$.out /tmp/chk_$$.out /tmp/demo_mut_$$.txt
