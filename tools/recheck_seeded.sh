#!/bin/bash
# recheck_seeded.sh <seeded id> <note> <check ids...>
# Re-run the given checks (quick) against /repo with an already confirmed seeded change applied and
# record the outcome in seeded/<id>/meta.json; the previous outcome moves to "history".
set -u
SID="$1"; NOTE="$2"; shift 2; CHECKS="$@"
D=/verif/seeded/$SID
[ -f $D/patch.diff ] || { echo "no such seeded change $SID"; exit 9; }
cd /verif
rm -rf /tmp/evidence_backup_$$ && cp -r /verif/evidence /tmp/evidence_backup_$$
if ! git -C /repo apply --check $D/patch.diff 2>/dev/null; then echo "RESULT $SID patch-does-not-apply-to-repo"; exit 8; fi
git -C /repo apply $D/patch.diff
DET=""
for c in $CHECKS; do
  ./check $c > /tmp/rchk_$$.out 2>&1; ec=$?
  nv=$(grep -c "^VIOLATION" /tmp/rchk_$$.out)
  first=$(grep "^VIOLATION" /tmp/rchk_$$.out | head -1 | sed 's/.*obligation=//' | cut -c1-200)
  DET="$DET $c:exit=$ec:violations=$nv"
  echo "  check $c exit=$ec violations=$nv first=[$first]"
done
git -C /repo checkout -- .
rm -rf /verif/evidence && mv /tmp/evidence_backup_$$ /verif/evidence
[ -n "$(git -C /repo status --short)" ] && { echo "WARNING: /repo not clean"; git -C /repo status --short; }
python3 - "$D/meta.json" "$DET" "$NOTE" "$first" <<'PY'
import json,sys
p,det,note,first=sys.argv[1:5]
m=json.load(open(p))
h=m.setdefault("history",[])
if isinstance(h,str): h=[h]; m["history"]=h
h.append({"checks_before":m.get("checks"),"what_changed":note})
m["checks"]=det.split()
if first: m["first_violated_obligation"]=first
json.dump(m,open(p,"w"),indent=1)
PY
echo "RESULT $SID checks=[$DET]"
rm -f /tmp/rchk_$$.out
