#!/usr/bin/env python
"""Run with the JIT ENABLED (separate process, scratch NUMBA_CACHE_DIR):
  * import every yadism module -> every declared njit signature is compiled (eager signatures)
  * differential: each dispatcher vs its py_func on N sampled arguments
  * optional end-to-end run (--run) printing operator checksums
Prints one JSON document on stdout.
"""
import argparse
import importlib
import json
import math
import os
import pkgutil
import random
import sys
import time


def shim_adani():
    import adani

    class _HS:
        def __init__(self, *a):
            self.a = a

        def _v(self, which, z, nf):
            return math.sin(3.0 * float(z) + len(which)) + 0.1 * float(nf)

        def LL(self, z, nf):
            return self._v("LL", z, nf)

        def NLL(self, z, nf):
            return self._v("NLL", z, nf)

        def N2LL(self, z, nf):
            return self._v("N2LL", z, nf)

        def N3LL(self, z, nf):
            v = self._v("N3LL", z, nf)

            class _V:
                def GetCentral(s):
                    return v

                def ToVect(s):
                    return [v, v, v]

            return _V()

    adani.HighScaleSplitLogs = _HS


def end_to_end():
    import numpy as np
    import yadism.log

    yadism.log.silent_mode = True
    from yadism import runner

    theory = dict(
        PTO=1, PTODIS=1, FNS="ZM-VFNS", NfFF=3, nf0=3, mc=1.51, mb=4.92, mt=172.5, kcThr=1.0, kbThr=1.0, ktThr=1.0, MaxNfPdf=6, MaxNfAs=6,
        MP=0.938, Q0=1.65, HQ="POLE", TMC=1, CKM="0.97428 0.22530 0.003470 0.22520 0.97345 0.041000 0.00862 0.04030 0.999152", GF=1.1663787e-05,
        MZ=91.1876, MW=80.398, SIN2TW=0.23126, alphas=0.118, alphaqed=0.007496252, Qref=91.2, nfref=5, ModEv="EXA", XIR=1.0, XIF=1.0,
        n3lo_cf_variation=0, IC=1, QED=0, RenScaleVar=True, FactScaleVar=True,
    )
    out = {}
    # massless scheme (light kernels, TMC, scale variations) and a massive one (the heavy-quark and
    # heavy-quark-initiated channels hand their own argument arrays and Python closures to the compiled
    # kernels and integrands)
    for process, proj, fns in (("NC", "electron", "ZM-VFNS"), ("CC", "neutrino", "ZM-VFNS"), ("CC", "antineutrino", "FFNS"), ("NC", "positron", "FFNS")):
        theory = dict(theory, FNS=fns, TMC=1 if fns == "ZM-VFNS" else 0)
        obs = dict(
            interpolation_xgrid=[1e-3, 1e-2, 0.1, 0.3, 0.5, 0.7, 0.9, 1.0], interpolation_polynomial_degree=2, interpolation_is_log=True,
            prDIS=process, ProjectileDIS=proj, PolarizationDIS=0.0, PropagatorCorrection=0.0, TargetDIS="isoscalar", NCPositivityCharge=None,
            observables={"F2_total": [{"x": 0.2, "Q2": 20.0}], "F3_light": [{"x": 0.4, "Q2": 8.0}], "FL_total": [{"x": 0.05, "Q2": 50.0}]},
        )
        res = runner.Runner(dict(theory), obs).get_result()
        for name in obs["observables"]:
            for i, r in enumerate(res[name]):
                for o, (v, e) in sorted(r.orders.items()):
                    out[f"{process}/{fns}/{name}[{i}]{o}"] = [float(x) for x in np.asarray(v).ravel()]
    return out


def main():
    ap = argparse.ArgumentParser()
    ap.add_argument("--samples", type=int, default=5)
    ap.add_argument("--seed", type=int, default=0)
    ap.add_argument("--run", action="store_true")
    ap.add_argument("--no-diff", action="store_true")
    a = ap.parse_args()
    t0 = time.time()
    shim_adani()
    import numpy as np
    import numba
    from numba.core.registry import CPUDispatcher
    import yadism

    jit_on = not numba.config.DISABLE_JIT
    disp = []
    import_errors = []
    for m in pkgutil.walk_packages(yadism.__path__, "yadism."):
        if not m.name.startswith(("yadism.coefficient_functions", "yadism.esf")):
            continue
        try:
            mod = importlib.import_module(m.name)
        except Exception as e:  # noqa
            import_errors.append((m.name, repr(e)[:120]))
            continue
        for k, v in vars(mod).items():
            if isinstance(v, CPUDispatcher) and v.__module__ == mod.__name__:
                disp.append((f"{m.name}.{k}", v))
    doc = {"jit_enabled": jit_on, "numba": numba.__version__, "dispatchers": len(disp), "import_errors": import_errors, "not_compiled": [n for n, d in disp if jit_on and not d.signatures], "mismatches": [], "evaluations": 0, "samples": []}
    rnd = random.Random(a.seed)
    if jit_on and not a.no_diff:
        for name, d in disp:
            sig = d.nopython_signatures[0]
            nargs = len(sig.args)
            for s in range(a.samples):
                z = rnd.choice([rnd.uniform(0.001, 0.999), rnd.uniform(0.9, 0.9999), rnd.uniform(1e-5, 1e-2)])
                if nargs == 1:
                    args = (z,)
                elif nargs == 2:
                    args = (z, np.array([float(rnd.choice([3, 4, 5, 6])), rnd.uniform(-3, 8), rnd.uniform(0.1, 3.0), float(rnd.choice([3, 4, 5]))]))
                else:
                    n, p = rnd.choice([(1, 1), (2, 1), (1, 2), (3, 1), (2, 2)])
                    args = (n, p, rnd.uniform(-0.99, 0.99))
                try:
                    a_ = d(*args)
                except Exception as e:  # noqa
                    a_ = ("exc", type(e).__name__)
                try:
                    b_ = d.py_func(*args)
                except Exception as e:  # noqa
                    b_ = ("exc", type(e).__name__)
                doc["evaluations"] += 1
                ok = False
                if isinstance(a_, tuple) or isinstance(b_, tuple):
                    ok = a_ == b_
                else:
                    ca, cb = complex(a_), complex(b_)
                    if (math.isnan(ca.real) and math.isnan(cb.real)) or ca == cb:
                        ok = True
                    else:
                        ok = abs(ca - cb) <= 1e-10 * max(1.0, abs(ca), abs(cb))
                if not ok:
                    doc["mismatches"].append({"kernel": name, "args": [float(x) if not hasattr(x, "tolist") else x.tolist() for x in args], "jit": str(a_), "python": str(b_)})
                if len(doc["samples"]) < 5 and s == 0:
                    doc["samples"].append({"kernel": name, "args": [float(x) if not hasattr(x, "tolist") else x.tolist() for x in args], "jit": str(a_), "python": str(b_)})
    if a.run:
        doc["run"] = end_to_end()
    doc["wall_s"] = round(time.time() - t0, 2)
    json.dump(doc, sys.stdout)


if __name__ == "__main__":
    main()
