"""Shared fixtures: real yadism objects configured with symbolic reals.

Everything built here uses the REAL classes (RunnerConfigs, CouplingConstants, CKM2Matrix,
ObservableName, ESF, eko interpolator); only the *values* of continuous parameters are
symbolic.  The configuration block mirrors Runner.__init__ (which cannot itself run on
symbolic masses because it multiplies them by inf thresholds) -- Runner.__init__ is checked
separately under C06/C20 with concrete cards.
"""
from __future__ import annotations

import copy
import itertools
import os
import time

import numpy as np
from fractions import Fraction

from pvc.sym import R, syms, sym_array

PROCESSES = ("EM", "NC", "CC")
PROJECTILES = {"electron": 11, "positron": -11, "neutrino": 12, "antineutrino": -12}
SCHEMES = ("ZM-VFNS", "FFNS", "FFN0", "FONLL-FFNS", "FONLL-FFN0")
SF_KINDS = ("F2", "FL", "F3", "g1", "gL", "g4")
# parity-violating structure functions (PDG review: F3, and the polarised g4, gL = g5-type ones couple
# through the VA/AV interference); spec constant -- NOT read from the code under verification
PV_KINDS = ("F3", "gL", "g4")
HEAVYNESS = ("light", "total", "charm", "bottom", "top", "charmlight", "bottomlight", "toplight")
COUPLING_TYPES = ("VV", "AA", "VA", "AV")
QUARK_NAMES = "duscbt"

GRID = [1e-3, 1e-2, 0.1, 0.3, 0.5, 0.7, 0.9, 1.0]


def base_theory(**over):
    t = dict(
        PTO=1,
        FNS="ZM-VFNS",
        NfFF=3,
        nf0=3,
        mc=1.51,
        mb=4.92,
        mt=172.5,
        kcThr=1.0,
        kbThr=1.0,
        ktThr=1.0,
        MaxNfPdf=6,
        MaxNfAs=6,
        MP=0.938,
        Q0=1.65,
        HQ="POLE",
        TMC=0,
        CKM="0.97428 0.22530 0.003470 0.22520 0.97345 0.041000 0.00862 0.04030 0.999152",
        GF=1.1663787e-05,
        MZ=91.1876,
        MW=80.398,
        SIN2TW=0.23126,
        alphas=0.118,
        alphaqed=0.007496252,
        Qref=91.2,
        nfref=5,
        ModEv="EXA",
        XIR=1.0,
        XIF=1.0,
        n3lo_cf_variation=0,
        IC=1,
        QED=0,
        ModSV=None,
    )
    t.update(over)
    return t


def base_obs(**over):
    o = dict(
        interpolation_xgrid=list(GRID),
        interpolation_polynomial_degree=2,
        interpolation_is_log=True,
        prDIS="NC",
        ProjectileDIS="electron",
        PolarizationDIS=0.0,
        PropagatorCorrection=0.0,
        TargetDIS="proton",
        NCPositivityCharge=None,
        observables={},
    )
    o.update(over)
    return o


DEFAULTS = dict(Q2=20.0, x=0.3, s2w=0.23, MZ2=8315.0, MW2=6464.0, pol=0.4, pcorr=0.05, m2c=2.0, m2b=20.0, m2t=3.0e4,
                GF=1.1663787e-05, M2target=0.88, y=0.5, Zt=1.0, At=2.0)


class Sy:
    """Bundle of the reals used across contracts: symbolic by default, floats after
    ``numeric(env)`` (native replay of a witness on the real code)."""

    NAMES = "Q2 x s2w MZ2 MW2 pol pcorr m2c m2b m2t GF M2target y Zt At"

    def __init__(self, env=None, extra=""):
        self.is_numeric = env is not None
        self.env = dict(env or {})
        self.extra = extra
        for n in (self.NAMES + " " + extra).split():
            setattr(self, n, float(self.env.get(n, DEFAULTS.get(n, 0.37))) if self.is_numeric else R.var(n))
        if self.is_numeric:
            self.V = np.array([[float(self.env.get(f"V_{i}_{j}", 0.1 + 0.1 * i + 0.05 * j)) for j in range(3)] for i in range(3)])
        else:
            self.V = sym_array("V", (3, 3))

    def numeric(self, env):
        return type(self)(env={k: v for k, v in (env or {}).items() if not str(k).startswith("_")}, extra=self.extra)

    def U(self, name, *args):
        """Uninterpreted application (contract stub value); pseudo-random float when numeric."""
        from pvc.sym import uf

        if not self.is_numeric:
            return uf(name, *args)
        key = repr(uf(name, *[a if not isinstance(a, float) else a for a in args]))
        if key in self.env:
            return float(self.env[key])
        import zlib

        return 0.25 + (zlib.crc32(key.encode()) % 10007) / 10007.0

    def ew_pre(self):
        s = self
        pre = [s.Q2 > 0, s.s2w > 0, s.s2w < 1, s.MZ2 > 0, s.MW2 > 0, s.pol >= -1, s.pol <= 1, s.pcorr < 1]
        pre += [v >= 0 for v in s.V.flat]
        return pre

    def mass_pre(self):
        return [self.m2c > 0, self.m2b > self.m2c, self.m2t > self.m2b]


_INTERP = {}


def interpolator(grid=None, degree=2, is_log=True):
    from eko.interpolation import InterpolatorDispatcher, XGrid

    key = (tuple(grid or GRID), degree, is_log)
    if key not in _INTERP:
        _INTERP[key] = InterpolatorDispatcher(XGrid(list(key[0]), is_log), degree, mode_N=False)
    return _INTERP[key]


def coupling_constants(sy, process, projectile, pos_charge=None, symbolic=True, theory=None):
    from yadism.coefficient_functions.coupling_constants import CouplingConstants, CKM2Matrix

    if symbolic:
        th = {"MZ2": sy.MZ2, "MW2": sy.MW2, "sin2theta_weak": sy.s2w, "CKM": CKM2Matrix(sy.V.copy())}  # floats when sy.is_numeric
        ob = {
            "process": process,
            "projectilePID": PROJECTILES[projectile],
            "polarization": sy.pol,
            "propagatorCorrection": sy.pcorr,
            "nc_pos_charge": pos_charge,
        }
        return CouplingConstants(th, ob)
    t = theory or base_theory()
    o = base_obs(prDIS=process, ProjectileDIS=projectile, NCPositivityCharge=pos_charge)
    return CouplingConstants.from_dict(t, o)


def make_configs(
    sy,
    process="NC",
    projectile="electron",
    scheme="ZM-VFNS",
    nf_ff=3,
    pto=1,
    pto_evol=None,
    tmc=0,
    target=None,
    pos_charge=None,
    fonllparts=None,
    sv=None,
    symbolic=True,
    n3lo_cf_variation=0,
    grid=None,
    masses=None,
):
    """RunnerConfigs as built by Runner.__init__, with symbolic continuous parameters."""
    from yadism.input import compatibility
    from yadism.runner import RunnerConfigs
    from eko import matchings
    from eko.quantities.heavy_quarks import MatchingScales

    th = base_theory(FNS=scheme, NfFF=nf_ff, PTO=pto if pto_evol is None else pto_evol, PTODIS=pto, TMC=tmc)
    if fonllparts is not None:
        th["FONLLParts"] = fonllparts
    ob = base_obs(prDIS=process, ProjectileDIS=projectile, NCPositivityCharge=pos_charge)
    new_th, new_ob = compatibility.update(th, ob)
    interp = interpolator(grid)
    cc = coupling_constants(sy, process, projectile, pos_charge, symbolic, th)
    cmasses = np.power([new_th["mc"], new_th["mb"], new_th["mt"]], 2)
    ratios = np.power([new_th["kcThr"], new_th["kbThr"], new_th["ktThr"]], 2)
    atlas = matchings.Atlas(
        matching_scales=MatchingScales(list(cmasses * ratios)), origin=(new_th["Q0"] ** 2, new_th["nf0"])
    )
    if symbolic and sy.is_numeric:
        m2hq = np.array([sy.m2c, sy.m2b, sy.m2t], dtype=float)
    elif symbolic:
        m2hq = np.empty(3, dtype=object)
        m2hq[:] = [sy.m2c, sy.m2b, sy.m2t]
    else:
        m2hq = cmasses if masses is None else np.array(masses, dtype=float)
    if target is None:
        tgt = new_ob["TargetDIS"]
    else:
        tgt = {"Z": target[0], "A": target[1]}
    theory_params = dict(
        pto=new_th["PTODIS"],
        pto_evol=new_th["PTO"],
        scheme=scheme,
        nf_ff=nf_ff,
        ZMq=(new_th["ZMc"], new_th["ZMb"], new_th["ZMt"]),
        m2hq=m2hq,
        TMC=tmc,
        target=tgt,
        GF=sy.GF if symbolic else th["GF"],
        M2W=sy.MW2 if symbolic else th["MW"] ** 2,
        M2target=sy.M2target if symbolic else th["MP"] ** 2,
        fonllparts=new_th["FONLLParts"],
        n3lo_cf_variation=n3lo_cf_variation,
    )
    managers = dict(interpolator=interp, threshold=atlas, coupling_constants=cc, sv_manager=sv)
    return RunnerConfigs(theory=theory_params, managers=managers)


class FakeESF:
    """Minimal stand-in exposing what PartonicChannel subclasses read from an ESF
    (x, Q2, process, info.*).  Used only where running ESF.__init__ (input validation)
    is not the point; ``info`` is the REAL ESFInfo over REAL RunnerConfigs."""

    def __init__(self, x, Q2, obs_name, configs):
        from yadism.esf.esf import ESFInfo

        self.x = x
        self.Q2 = Q2
        self.nf = None
        self.process = configs.coupling_constants.obs_config["process"]
        self.info = ESFInfo(obs_name, configs)
        self.orders = [o for o in range(4) if o <= configs.theory["pto"]]


def obs_name(kind, flavor="light"):
    from yadism.observable_name import ObservableName

    return ObservableName(f"{kind}_{flavor}")


def all_partonic_channel_classes():
    """Every PartonicChannel subclass defined in yadism.coefficient_functions.* (module scan)."""
    import importlib
    import pkgutil

    import yadism.coefficient_functions as cf
    from yadism.coefficient_functions.partonic_channel import PartonicChannel

    out = []
    errors = []
    for m in pkgutil.walk_packages(cf.__path__, cf.__name__ + "."):
        try:
            mod = importlib.import_module(m.name)
        except Exception as e:  # noqa
            errors.append((m.name, repr(e)))
            continue
        for n, o in vars(mod).items():
            if isinstance(o, type) and issubclass(o, PartonicChannel) and o.__module__ == mod.__name__:
                out.append(o)
    return out, errors


# ---------------------------------------------------------------------------------------
class WStub:
    """Contract stub for CouplingConstants.get_weight / get_fl11_weight: uninterpreted
    w(|pid|, type, mask); honours the nc_pos_charge early return of the real contract
    (weight = [|pid| = q] * w) so that restricted runs can be compared with unrestricted ones."""

    def __init__(self, sy, process, pid, pos_charge=None, cc_spec=False, ckm_only=None):
        self.sy = sy
        self.obs_config = {"process": process, "projectilePID": pid, "nc_pos_charge": pos_charge}
        self.bad_Q2 = False
        self.pos_pid = None if pos_charge in (None, "all") else 1 + QUARK_NAMES.index(pos_charge[0])
        self.cc_spec = cc_spec      # CC weights = their contract value 2*sum(masked |V|^2) (C02) with symbolic V
        self.ckm_only = ckm_only    # restrict the CKM matrix to the couplings of one heavy quark (docs/fns.rst)

    def get_weight(self, q, Q2, ct, cc_mask=None):
        if Q2 is not self.sy.Q2:
            self.bad_Q2 = True
        if not (isinstance(q, (int, np.integer)) and 1 <= abs(int(q)) <= 6):
            # precondition of the callee (pre-at-call): the real get_weight fails in its table lookups
            raise LookupError(f"precondition of CouplingConstants.get_weight violated at the call site: pid={q!r} is not a quark")
        if self.obs_config["process"] != "CC" and self.pos_pid is not None and abs(q) != self.pos_pid:
            return 0.0
        if self.obs_config["process"] == "CC" and self.cc_spec:
            from spec import ew

            V = [[self.sy.V[i][j] for j in range(3)] for i in range(3)]
            if self.ckm_only is not None:
                keep = ew.ckm_mask(QUARK_NAMES[self.ckm_only - 1])
                V = [[V[i][j] * keep[i][j] for j in range(3)] for i in range(3)]
            return ew.cc_quark_weight(q, V, cc_mask or "")
        return self.sy.U("w", int(abs(q)), str(ct), str(cc_mask))

    def get_fl11_weight(self, q, Q2, nf, ct):
        if Q2 is not self.sy.Q2:
            self.bad_Q2 = True
        if not (isinstance(q, (int, np.integer)) and 1 <= abs(int(q)) <= 6 and isinstance(nf, (int, np.integer)) and 1 <= int(nf) <= 6):
            raise LookupError(f"precondition of CouplingConstants.get_fl11_weight violated at the call site: pid={q!r}, nf={nf!r}")
        if self.obs_config["process"] == "CC":
            return 0.0
        if self.pos_pid is not None and abs(q) != self.pos_pid:
            return 0.0
        return self.sy.U("w11", int(abs(q)), int(nf), str(ct))


def coeff_id(coeff):
    """Identity of a coefficient-function object: class + the constructor data it was given.
    (Coefficient classes read only x, Q2, nf, masses, variation flag -- checked under C07.)"""
    d = []
    for k in ("nf", "m2hq", "m1sq", "m2sq", "n3lo_cf_variation", "L", "labda"):
        if k in coeff.__dict__:
            v = coeff.__dict__[k]
            d.append((k, repr(v)))
    return (type(coeff).__module__.replace("yadism.coefficient_functions.", ""), type(coeff).__qualname__, tuple(d))


def collect(sy, cfg, kind, flavor, nf, what="collect_elems", x=None):
    """Run the REAL Combiner on a (Fake)ESF with nf_default replaced by its contract value."""
    import yadism.coefficient_functions as cf
    import yadism.coefficient_functions.partonic_channel as pcmod
    import yadism.coefficient_functions.heavy.partonic_channel as hpc
    import yadism.coefficient_functions.intrinsic.partonic_channel as ipc
    import yadism.coefficient_functions.asy.partonic_channel as apc
    from pvc.stubs import rebind, np_shim_for

    esf = FakeESF(sy.x if x is None else x, sy.Q2, obs_name(kind, flavor), cfg)
    shim = [] if sy.is_numeric else np_shim_for(pcmod, hpc, ipc, apc, cf)
    with rebind(*shim, (cf, "nf_default", lambda Q2, thr: nf)):
        comb = cf.Combiner(esf)
        if what == "collect":
            comps = comb.collect()
            return [k for c in comps for k in c], comb
        return comb.collect_elems(), comb


def kernel_view(kernels):
    """Formal sum  sum_k partons_k (x) coeff-id_k  as a map (coeff-id, orders) -> {pid: weight}."""
    view = {}
    for k in kernels:
        key = (coeff_id(k.coeff), k.min_order, k.max_order)
        d = view.setdefault(key, {})
        for p, w in k.partons.items():
            d[p] = d.get(p, 0) + w
    return view


# ---------------------------------------------------------------------------------------
def lattice(tier="quick", processes=PROCESSES, kinds=SF_KINDS, flavors=HEAVYNESS, ptos=None, with_fonllparts=True):
    """Cells of the configuration lattice read by the kernel collectors.

    Yields dicts(process, projectile, scheme, nf_ff, nf, kind, flavor, pto, pto_evol, fonllparts).
    nf: NfFF in the fixed-flavour and FONLL schemes (C06), 3..6 in ZM-VFNS.
    """
    if ptos is None:
        ptos = ((0, 0), (1, 1), (2, 2), (3, 2), (3, 3)) if tier == "thorough" else ((1, 1), (3, 2))
    for process in processes:
        projs = ("electron", "positron") if process == "CC" else ("electron",)
        for proj in projs:
            for scheme in SCHEMES:
                for nf_ff in (3, 4, 5):
                    if scheme == "ZM-VFNS" and nf_ff != 3:
                        continue
                    nfs = (3, 4, 5, 6) if scheme == "ZM-VFNS" else (nf_ff,)
                    parts = ("full", "massless", "massive") if (scheme.startswith("FONLL") and with_fonllparts) else ("full",)
                    for nf in nfs:
                        for fp in parts:
                            for kind in kinds:
                                for flavor in flavors:
                                    for pto, pto_evol in ptos:
                                        yield dict(process=process, projectile=proj, scheme=scheme, nf_ff=nf_ff, nf=nf, kind=kind, flavor=flavor, pto=pto, pto_evol=pto_evol, fonllparts=fp)


def cell_name(c):
    return f"{c['process']}/{c['projectile']}/{c['scheme']}{c['nf_ff']}/nf={c['nf']}/{c['fonllparts']}/{c['kind']}_{c['flavor']}/pto={c['pto']},{c['pto_evol']}"


def cell_configs(sy, c, pos_charge=None, target=None, sv=None, cc_spec=False, ckm_only=None):
    cfg = make_configs(sy, process=c["process"], projectile=c["projectile"], scheme=c["scheme"], nf_ff=c["nf_ff"], pto=c["pto"], pto_evol=c["pto_evol"], fonllparts=c["fonllparts"], pos_charge=pos_charge, target=target, sv=sv)
    cfg.managers["coupling_constants"] = WStub(sy, c["process"], PROJECTILES[c["projectile"]], pos_charge, cc_spec=cc_spec, ckm_only=ckm_only)
    return cfg


INTERNAL_ERRORS = (KeyError, IndexError, AttributeError, ModuleNotFoundError, ImportError, TypeError, NameError, ZeroDivisionError, UnboundLocalError)


def weights_frame(rep):
    """Frame condition of the weight collectors: the result is a function of the coupling object
    passed IN THIS CALL.  Each collector is called with coupling object A, then with a second
    object B whose contract values are different atoms (w' instead of w) at the same
    (Q2, nf, parity, mask ...), then with A again, and a fresh result dict is required each time:
    B's weights must be built from B's atoms only, A's second result must equal its first, and the
    returned dictionaries must not be aliased (the callers modify them in place, C12)."""
    from yadism.coefficient_functions import kernels, light, heavy
    from pvc.core import ob_eval

    sy = Sy()
    rep.under_contract(light.kernels.nc_weights, light.kernels.nc_fl11_weights, heavy.kernels.nc_weights, kernels.cc_weights, kernels.cc_weights_even, kernels.cc_weights_odd)

    class WStubB(WStub):
        def get_weight(self, q, Q2, ct, cc_mask=None):
            return self.sy.U("wB", int(abs(q)), str(ct), str(cc_mask))

        def get_fl11_weight(self, q, Q2, nf, ct):
            return self.sy.U("wB11", int(abs(q)), int(nf), str(ct))

    calls = []
    for nf in (3, 5):
        for is_pv in (False, True):
            calls.append((f"nc_weights/nf={nf}/pv={is_pv}", "NC", lambda cc, nf=nf, is_pv=is_pv: light.kernels.nc_weights(cc, sy.Q2, nf, is_pv)))
            calls.append((f"heavy.nc_weights/nf={nf}/pv={is_pv}", "NC", lambda cc, nf=nf, is_pv=is_pv: heavy.kernels.nc_weights(cc, sy.Q2, nf, nf + 1, is_pv)))
            for fn_ in ("cc_weights", "cc_weights_even", "cc_weights_odd"):
                calls.append((f"{fn_}/nf={nf}/pv={is_pv}", "CC", lambda cc, nf=nf, is_pv=is_pv, fn_=fn_: getattr(kernels, fn_)(cc, sy.Q2, "dus", nf, is_pv)))
        calls.append((f"nc_fl11_weights/nf={nf}", "NC", lambda cc, nf=nf: light.kernels.nc_fl11_weights(cc, sy.Q2, nf)))

    def flat(d):
        return {(ch, p): v for ch, ws in d.items() for p, v in ws.items()}

    for name, proc, f in calls:
        rep.cases += 1
        A, B = WStub(sy, proc, 11), WStubB(sy, proc, 11)
        from pvc.explore import explore

        paths = explore(lambda: (f(A), f(B), f(A)), [sy.Q2 > 0])
        ok = len(paths) == 1 and paths[0].exc is None
        detail = ""
        if ok:
            a1, b, a2 = paths[0].result
            fa1, fb, fa2 = flat(a1), flat(b), flat(a2)
            stale = [k for k, v in fb.items() if "w(" in repr(v) or "w11(" in repr(v)]
            changed = [k for k in fa1 if k not in fa2 or repr(fa1[k]) != repr(fa2[k])]
            aliased = [ch for ch in a1 if ch in a2 and a1[ch] is a2[ch]] + [ch for ch in a1 if ch in b and a1[ch] is b[ch]]
            ok = not stale and not changed and not aliased and set(fa1) == set(fb)
            detail = f"stale entries in the second object's result: {stale[:4]}; first object's result changed: {changed[:4]}; aliased channel dicts: {aliased}"
        else:
            detail = f"paths={len(paths)} exc={[repr(p_.exc) for p_ in paths][:2]}"
        rep.add(ob_eval(f"{rep.pid}/weights-frame/{name}/result depends on the coupling object of this call only; fresh dictionaries", ok, kind="frame", detail=detail, inputs={} if ok else {"sequence": "f(A), f(B), f(A) with A, B coupling objects of different contract values at the same (Q2, nf, ...)", "observed": detail}))
    weights_same_object_history(rep)


def weights_same_object_history(rep):
    """One coupling object serves every structure function, mask, flavour number and parity of a run:
    on ONE object, a sequence of requests that differ in exactly one argument (parity, mask, nf, Q2)
    is answered each like a fresh object answers it (nothing remembered between calls may leave an
    argument out)."""
    from yadism.coefficient_functions import kernels, light, heavy
    from pvc.core import ob_eval
    from pvc.explore import explore

    sy = Sy(extra="Qb")

    def flat(d):
        return {(ch, p): repr(v) for ch, ws in d.items() for p, v in ws.items()}

    seqs = {
        "cc_weights": [(sy.Q2, "c", 3, False), (sy.Q2, "c", 3, True), (sy.Q2, "c", 3, False), (sy.Q2, "b", 3, True), (sy.Q2, "c", 4, True), (sy.Qb, "c", 3, True), (sy.Q2, "c", 3, True)],
        "cc_weights_even": [(sy.Q2, "dus", 3, False), (sy.Q2, "dus", 3, True), (sy.Q2, "dusc", 3, True), (sy.Q2, "dus", 4, True), (sy.Qb, "dus", 3, True), (sy.Q2, "dus", 3, False)],
        "cc_weights_odd": [(sy.Q2, "dus", 3, False), (sy.Q2, "dus", 3, True), (sy.Q2, "dusc", 3, True), (sy.Q2, "dus", 4, True), (sy.Qb, "dus", 3, True), (sy.Q2, "dus", 3, False)],
    }
    for proj_pid in (11, -11, 12, -12):
        for fn_, seq in seqs.items():
            rep.cases += 1

            def run_(seq=seq, fn_=fn_, proj_pid=proj_pid):
                one = WStub(sy, "CC", proj_pid, cc_spec=True)
                same = [flat(getattr(kernels, fn_)(one, q2, mask, nf, pv)) for q2, mask, nf, pv in seq]
                fresh = [flat(getattr(kernels, fn_)(WStub(sy, "CC", proj_pid, cc_spec=True), q2, mask, nf, pv)) for q2, mask, nf, pv in seq]
                return same, fresh

            paths = explore(run_, [sy.Q2 > 0, sy.Qb > 0])
            ok = bool(paths) and all(p.exc is None for p in paths)
            detail = ""
            if ok:
                bad = [(i, seq[i][1:]) for p in paths for i, (a, b) in enumerate(zip(*p.result)) if a != b]
                ok = not bad
                detail = f"requests answered differently by the object that served the earlier ones: (position, (mask, nf, parity violating)) {bad[:3]}"
            else:
                detail = f"exc={[repr(p_.exc) for p_ in paths][:2]}"
            rep.add(ob_eval(f"{rep.pid}/weights-history/{fn_}/projectile {proj_pid}: one coupling object, requests differing in parity / mask / nf / Q2", ok, kind="frame", detail=detail if not ok else f"{len(seq)} requests", inputs={} if ok else {"sequence (mask, nf, parity violating)": str([t[1:] for t in seq]), "observed": detail}))


def _scheme_families_worker(sub, c):
    sy = Sy().numeric({"x": 0.01, "Q2": 5.0e4, "m2c": 2.0, "m2b": 20.0, "m2t": 3.0e4})
    try:
        cfg = cell_configs(sy, c)
        ks, comb = collect(sy, cfg, c["kind"], c["flavor"], c["nf"])
    except (NotImplementedError, ValueError):
        sub.extra["cells_rejected"] = sub.extra.get("cells_rejected", 0) + 1
        return
    from pvc.core import ob_eval

    sub.cases += 1
    fams = sorted({type(k.coeff).__module__.split(".")[2] for k in ks})
    scheme = c["scheme"]
    if "FFN0" in scheme:
        allowed = {"light", "asy"}
    elif "FFNS" in scheme:
        allowed = {"light", "heavy", "intrinsic"}
    else:
        allowed = {"light"}
    bad = [f for f in fams if f not in allowed]
    _massive_flavours_alike(sub, c, ks, sy)
    # which kernels are collected is a matter of the configuration and of nf, never of where the point
    # lies relative to a production threshold (thresholds act INSIDE the coefficient functions, and only
    # pair production has one): the same classes with the same parton keys at a point below the charm
    # pair threshold
    try:
        sy_low = Sy().numeric({"x": 0.5, "Q2": 5.0, "m2c": 2.0, "m2b": 20.0, "m2t": 3.0e4})
        ks_low, _ = collect(sy_low, cell_configs(sy_low, c), c["kind"], c["flavor"], c["nf"])
        sig = lambda kk: sorted((type(k.coeff).__module__.split(".", 2)[2] + "." + type(k.coeff).__name__, tuple(sorted(k.partons))) for k in kk)  # noqa: E731
        a, b = sig(ks), sig(ks_low)
        ok_kin = a == b
        detail = f"{len(a)} kernels at (x=0.01, Q2=5e4), {len(b)} at (x=0.5, Q2=5)" + ("" if ok_kin else f"; only above: {[t for t in a if t not in b][:4]}; only below: {[t for t in b if t not in a][:4]}")
    except Exception as e:  # noqa
        ok_kin, detail = False, f"{type(e).__name__}: {e}"
    from pvc.core import ob_eval as _ob_eval

    sub.add(_ob_eval(f"{sub.pid}/scheme-dispatch/{cell_name(c)}/the kernel list does not depend on the kinematic point (fixed nf)", ok_kin, detail=detail, inputs={} if ok_kin else {"cell": cell_name(c), "points": "(x=0.01, Q2=5e4) vs (x=0.5, Q2=5), m2c=2, m2b=20, m2t=3e4", "observed": detail}))
    sub.add(ob_eval(f"{sub.pid}/scheme-dispatch/{cell_name(c)}/kernel families {sorted(allowed)} only", not bad, detail=f"families collected: {fams}", inputs={} if not bad else {"cell": cell_name(c), "families": str(fams), "offending classes": str(sorted({type(k.coeff).__module__.split('.', 2)[2] + '.' + type(k.coeff).__name__ for k in ks if type(k.coeff).__module__.split('.')[2] in bad})[:6])}))


def kernel_mass_index(coeff, Q2, m2s):
    """Which heavy quark (4, 5, 6) a massive / asymptotic / heavy-quark-initiated coefficient object was
    built for, read off the mass it stores (m2hq, labda = 1/(1+m2/Q2), L = log(Q2/m2), m1sq/m2sq)."""
    import math

    d = getattr(coeff, "__dict__", {})
    cands = []
    if "m2hq" in d:
        cands.append(d["m2hq"])
    if "labda" in d:
        cands.append(Q2 * (1.0 / d["labda"] - 1.0))
    if "L" in d and "m2hq" not in d:
        cands.append(Q2 / math.exp(d["L"]))
    for k in ("m1sq", "m2sq"):
        if k in d:
            cands.append(d[k])
    for c_ in cands:
        try:
            c_ = float(c_)
        except Exception:  # noqa
            continue
        for ihq, m2 in zip((4, 5, 6), m2s):
            if c_ > 0 and abs(c_ - m2) <= 1e-9 * m2:
                return ihq
    return None


def _massive_flavours_alike(sub, c, ks, sy):
    """'The proper physical object accounts for all contributions of the full Lagrangian' (fns.rst):
    in a fixed-flavour calculation every massive quark enters alike -- for a total (or light)
    observable the kernel classes collected for one massive flavour (pair production, heavy-quark loop
    on a light-quark line, heavy-quark initiated; with or without parton weights) are those collected
    for every other massive flavour."""
    from pvc.core import ob_eval

    if c["scheme"] not in ("FFNS", "FFN0") or c["flavor"] not in ("total", "light"):
        return
    m2s = (sy.m2c, sy.m2b, sy.m2t)
    massive = [h for h in (4, 5, 6) if h > c["nf"]]
    if len(massive) < 2:
        return
    sig = {h: [] for h in massive}
    for k in ks:
        h = kernel_mass_index(k.coeff, sy.Q2, m2s)
        if h in sig:
            sig[h].append((type(k.coeff).__module__.split(".", 2)[2] + "." + type(k.coeff).__name__, bool(k.partons)))
    sigs = {h: sorted(v) for h, v in sig.items()}
    ok = all(sigs[h] == sigs[massive[0]] for h in massive)
    sub.add(ob_eval(f"{sub.pid}/scheme-dispatch/{cell_name(c)}/every massive flavour {massive} contributes the same kernel classes", ok, detail=str({h: len(v) for h, v in sigs.items()}), inputs={} if ok else {"cell": cell_name(c), "kernel classes per massive flavour (class, has weights)": str({h: v[:8] for h, v in sigs.items()})}))


def scheme_families(rep, tier="quick"):
    """Dispatch contract (docs/theory/fns.rst): massive calculations (FFNS, FONLL-FFNS) collect light,
    heavy and heavy-quark-initiated kernels and never an asymptotic one; their high-virtuality
    counterparts (FFN0, FONLL-FFN0) collect light and asymptotic kernels and never a massive one;
    ZM-VFNS collects massless kernels only -- for every cell of the configuration lattice."""
    from pvc.core import parallel
    import yadism.coefficient_functions as cf

    rep.under_contract(cf.Combiner.collect, cf.Combiner.heavy_components, cf.Combiner.light_component)
    parallel(rep, list(lattice(tier)), _scheme_families_worker)


def eko_basis_standin(rep):
    _eko_basis_concrete_grids(rep)
    eko_basis_symbolic_grid(rep)
    eko_window_lemma(rep)


def _eko_basis_concrete_grids(rep):
    """Stand-in for assumption A-eko, bounded in the GRID (six grids: linear/logarithmic, degree 1-3,
    4-7 nodes) but not in x: eko's real evaluate_x / log_evaluate_x -- the functions yadism's quadrature
    kernels call -- are executed on a symbolic x over the whole interval [x_0, 1] (every area, every
    border case is a path) and z3 proves on each path that the basis functions sum to one; the area
    polynomials are continuous at every interior border, vanish at the outer borders of their support,
    and p_j(x_k) = delta_jk.  Labelled bounded: never counted as discharged."""
    from eko import interpolation
    from eko.interpolation import InterpolatorDispatcher, XGrid
    from pvc.core import Ob, PROVED, REFUTED, UNDECIDED
    from pvc.explore import explore
    from pvc.smt import prove
    from pvc.sym import And, compare

    x = R.var("x")
    tol = R.const(Fraction(1, 10**9))
    grids = (
        (False, [0.1, 0.3, 0.5, 0.7, 1.0], 1), (False, [0.1, 0.3, 0.5, 0.7, 1.0], 2), (False, [0.05, 0.2, 0.4, 0.6, 0.8, 1.0], 3),
        (True, [1e-3, 1e-2, 0.1, 0.4, 0.7, 1.0], 1), (True, [1e-3, 1e-2, 0.1, 0.4, 0.7, 1.0], 3), (True, [1e-4, 1e-3, 1e-2, 0.1, 0.3, 0.6, 1.0], 2),
    )
    for is_log, grid, deg in grids:
        tag = f"{'log' if is_log else 'lin'}-grid({len(grid)} nodes, degree {deg})"
        interp = InterpolatorDispatcher(XGrid(grid, is_log), deg, mode_N=False)
        f = interpolation.log_evaluate_x if is_log else interpolation.evaluate_x
        pre = [x >= grid[0], x <= 1]
        if is_log:
            # the comparisons are made in log space on doubles: log is monotone, so log(x) lies between
            # the (double) logarithms of the end nodes
            from pvc.sym import fn as _fn

            pre += [_fn("log", x) >= float(np.log(grid[0])), _fn("log", x) <= 0]
        try:
            paths = explore(lambda: [f(x, bf.areas_representation) for bf in interp], pre, max_paths=512)
            bad, und = [], 0
            for p in paths:
                if p.exc is not None:
                    bad.append(f"raises {p.exc!r}")
                    continue
                tot = sum((R.lift(v) for v in p.result), R.const(0))
                st, model, _b = prove(pre + list(p.pc), And(compare("<=", tot - 1, tol), compare("<=", 1 - tot, tol)), 10000)
                if st == "refuted":
                    bad.append(f"sum != 1 at {model}")
                elif st != "proved":
                    und += 1
            o = Ob(f"{rep.pid}/A-eko[bounded in the grid]/{tag}/partition of unity for every x in [x0, 1]", "bounded", PROVED if not bad and not und else (REFUTED if bad else UNDECIDED), "z3", 0, f"{len(paths)} paths (areas and border cases)" + (f"; {bad[:2]}" if bad else "") + (f"; {und} undecided" if und else ""))
        except Exception as e:  # noqa
            o = Ob(f"{rep.pid}/A-eko[bounded in the grid]/{tag}/partition of unity for every x in [x0, 1]", "bounded", UNDECIDED, "engine", 0, f"{type(e).__name__}: {e}")
        o.bounded = True
        rep.add(o)
        # borders and nodes (concrete: the area polynomials are concrete doubles)
        nodes = np.log(grid) if is_log else np.array(grid)
        bad = []
        for j, bf in enumerate(interp):
            ar = np.array(bf.areas_representation)
            ev = lambda a, t: sum(c * t**i for i, c in enumerate(a[2:]))  # noqa: E731
            for a, b in zip(ar[:-1], ar[1:]):
                if abs(a[1] - b[0]) < 1e-14 and abs(ev(a, a[1]) - ev(b, b[0])) > 1e-9:
                    bad.append(("jump", j, float(a[1])))
            lo, hi = ar[0][0], ar[-1][1]
            if abs(lo - nodes[0]) > 1e-12 and abs(ev(ar[0], lo)) > 1e-9:
                bad.append(("non-zero at lower support border", j, float(lo)))
            if abs(hi - nodes[-1]) > 1e-12 and abs(ev(ar[-1], hi)) > 1e-9:
                bad.append(("non-zero at upper support border", j, float(hi)))
            for k, xk in enumerate(grid):
                if abs(float(bf(xk)) - (1.0 if j == k else 0.0)) > 1e-9:
                    bad.append(("p_j(x_k) != delta_jk", j, k))
        o = Ob(f"{rep.pid}/A-eko[bounded in the grid]/{tag}/continuous at area borders, zero at support borders, p_j(x_k) = delta_jk", "bounded", PROVED if not bad else REFUTED, "eval", 0, str(bad[:3]) if bad else f"{len(grid)} basis functions")
        o.bounded = True
        rep.add(o)



# ---------------------------------------------------------------------------------------
# bounded companions on real runs
REAL_GRID = [1e-3, 1e-2, 0.1, 0.3, 0.6, 1.0]


def real_ops(th_over, ob_over, names, pts):
    """Real run (real numpy / scipy / eko / LeProHQ, the runner's NaN clean-up included) on a 6-node
    grid -> ({name: [orders dict per point]}, pids)."""
    import warnings

    import yadism

    with warnings.catch_warnings():
        warnings.simplefilter("ignore")
        ob = base_obs(interpolation_xgrid=list(REAL_GRID), interpolation_polynomial_degree=2, observables={n: [dict(p) for p in pts] for n in names})
        ob.update(ob_over)
        out = yadism.run_yadism(base_theory(**th_over), ob)
    return {n: [r.orders for r in out[n]] for n in names}, list(out["pids"])


def ops_deviation(lhs, rhs, rowmap=None):
    """max relative deviation between two lists (points) of order dicts; rowmap(values, pids-index
    array) transforms the rows of rhs first."""
    import numpy as np

    worst, where = 0.0, None
    for i, (a, b) in enumerate(zip(lhs, rhs)):
        for k in sorted(set(a) | set(b)):
            va = a[k][0] if k in a else 0.0
            vb = b[k][0] if k in b else 0.0
            if rowmap is not None and k in b:
                vb = rowmap(vb)
            scale = max(1e-12, float(np.max(np.abs(va))), float(np.max(np.abs(vb))))
            d = float(np.max(np.abs(va - vb))) / scale
            if d > worst:
                worst, where = d, (i, k)
    return worst, where


def bounded_ob(rep, name, fn):
    """Run fn() -> (worst, where); add a bounded obligation (never counted as discharged)."""
    from pvc.core import ob_eval

    rep.cases += 1
    try:
        worst, where = fn()
        ok, detail = worst <= 1e-8, f"max relative deviation {worst:.2e} at (point, order) {where}"
    except Exception as e:  # noqa
        ok, detail = False, f"{type(e).__name__}: {e}"
    o = ob_eval(name, ok, kind="bounded", detail=detail, inputs={} if ok else {"scenario": name, "observed": detail}, replay={"confirmed": True, "python": "the real run named in the obligation (contracts.harness.real_ops)"})
    o.bounded = True
    rep.add(o)

def eko_basis_symbolic_grid(rep, tier="quick"):
    """Assumption A-eko with the GRID symbolic: eko's real BasisFunction / Area constructors are run on
    nodes t_0 < t_1 < ... < t_{N-1} that are symbols (any positions, at least eko's comparison
    tolerance 2.2e-15 apart), and eko's real evaluate_x on a symbolic point x.  In log mode eko applies
    exactly these functions to t_k = log x_k and u = log x (log_evaluate_x(x, a) = evaluate_x(log x, a);
    log is increasing), so one run covers linear and logarithmic grids.  Obligations, each an exact
    identity in Q(t_0..t_{N-1}, x) decided by the normaliser on every path:

      * partition of unity: sum_j p_j(x) = 1 for every x in [t_0, t_{N-1}] outside the tolerance bands
        (t_k - 2.2e-15, t_k) below the interior nodes;
      * inside such a band eko additionally evaluates the basis functions whose support starts at t_k, in
        their first area: those area polynomials vanish at t_k (so the excess is O(2.2e-15));
      * p_j(t_k) = delta_jk for every node (x := t_k, the node symbol itself);
      * each p_j is continuous at the inner borders of its support and vanishes at its outer borders
        unless the border is the end of the grid.

    Bounded in the number of nodes and the degree only (degree 1..4, N = degree+1 .. degree+3 -- every
    shape of interpolation window: clamped left, interior, clamped right); an area polynomial depends
    only on the degree+1 nodes of its window, which is why nothing changes for longer grids (argument,
    not a discharged obligation).  Labelled bounded."""
    from eko import interpolation as I
    from pvc.core import Ob, PROVED, REFUTED, UNDECIDED
    from pvc.explore import explore
    from pvc.ratfun import identity

    eps = R.const(Fraction(I._atol_eps).limit_denominator(10**40)) if hasattr(I, "_atol_eps") else R.const(Fraction(1, 10**14))
    x = R.var("x")
    shapes = [(deg, N) for deg in ((1, 2, 3, 4) if tier == "thorough" else (1, 2, 3, 4)) for N in range(deg + 1, deg + (4 if deg < 4 or tier == "thorough" else 3))]
    for deg, N in shapes:
        tag = f"symbolic grid({N} nodes, degree {deg})"
        t0 = time.time()
        nodes = [R.var(f"t{k}") for k in range(N)]
        pre_grid = [compare_ge(nodes[k + 1] - nodes[k], eps) for k in range(N - 1)]
        try:
            # the dispatcher's own block construction, on a grid object whose entries are the symbols
            disp = _symbolic_dispatcher(I, nodes, deg)
            bfs = list(disp)
        except Exception as e:  # noqa
            o = Ob(f"{rep.pid}/A-eko[symbolic grid]/{tag}/construction", "bounded", UNDECIDED, "engine", 0, f"{type(e).__name__}: {e}")
            o.bounded = True
            rep.add(o)
            continue
        # (1) partition of unity away from the bands
        pre = pre_grid + [x >= nodes[0], x <= nodes[-1]] + [Or_(x <= nodes[k] - eps, x > nodes[k]) for k in range(1, N)]  # x = t_k itself: the node obligations below
        bad, und, npaths = [], 0, 0
        try:
            paths = explore(lambda: [I.evaluate_x(x, bf.areas_representation) for bf in bfs], pre, max_paths=2048, budget_s=120)
            npaths = len(paths)
            for p in paths:
                if p.exc is not None:
                    bad.append(f"raises {p.exc!r} on {[str(c) for c in p.pc][:4]}")
                    continue
                tot = sum((R.lift(v) for v in p.result), R.const(0))
                st, info = identity(tot, R.const(1))
                if st != "proved":
                    bad.append(f"sum - 1 = {info.get('residual_sample')} on {[str(c) for c in p.pc][:4]}")
            st_ = PROVED if not bad and npaths else (REFUTED if bad else UNDECIDED)
            det = f"{npaths} paths; {bad[:2]}" if bad else f"{npaths} paths"
        except Exception as e:  # noqa
            st_, det = UNDECIDED, f"{type(e).__name__}: {e}"
        o = Ob(f"{rep.pid}/A-eko[symbolic grid]/{tag}/partition of unity for every x in [t_0, t_N-1) outside the comparison-tolerance bands (t_k - 2.2e-15, t_k]", "bounded", st_, "normaliser", time.time() - t0, det)
        o.bounded = True
        rep.add(o)
        # (2) nodes: p_j(t_k) = delta_jk with x := the node symbol; (3) borders
        bad = []
        for k in range(N):
            for j, bf in enumerate(bfs):
                try:
                    ps = explore(lambda: I.evaluate_x(nodes[k], bf.areas_representation), pre_grid, max_paths=64, budget_s=30)
                    for p in ps:
                        if p.exc is not None:
                            bad.append(("raises", j, k, repr(p.exc)))
                            continue
                        st, info = identity(R.lift(p.result), R.const(1 if j == k else 0))
                        if st != "proved":
                            bad.append(("p_j(t_k) != delta_jk", j, k, info.get("residual_sample")))
                except Exception as e:  # noqa
                    bad.append(("engine", j, k, f"{type(e).__name__}: {e}"))
        for j, bf in enumerate(bfs):
            ar = bf.areas_representation
            ev = lambda a, t: sum((R.lift(c) * t**i for i, c in enumerate(a[2:])), R.const(0))  # noqa: E731
            for a, b in zip(ar[:-1], ar[1:]):
                if a[1] is b[0] or identity(R.lift(a[1]), R.lift(b[0]))[0] == "proved":
                    if identity(ev(a, R.lift(a[1])), ev(b, R.lift(b[0])))[0] != "proved":
                        bad.append(("jump at an inner border", j, str(a[1]), None))
                else:
                    bad.append(("support is not an interval", j, str(a[1]), str(b[0])))
            lo, hi = R.lift(ar[0][0]), R.lift(ar[-1][1])
            if identity(lo, nodes[0])[0] != "proved" and identity(ev(ar[0], lo), R.const(0))[0] != "proved":
                bad.append(("non-zero at the lower border of its support", j, str(lo), None))
            if identity(hi, nodes[-1])[0] != "proved" and identity(ev(ar[-1], hi), R.const(0))[0] != "proved":
                bad.append(("non-zero at the upper border of its support", j, str(hi), None))
        o = Ob(f"{rep.pid}/A-eko[symbolic grid]/{tag}/p_j(t_k) = delta_jk; continuous at inner borders; zero at the borders of the support (also the polynomial evaluated inside a tolerance band)", "bounded", PROVED if not bad else REFUTED, "normaliser", time.time() - t0, str(bad[:3]) if bad else f"{N} basis functions x {N} nodes")
        o.bounded = True
        rep.add(o)

    # canary: the same machinery must refute a basis whose middle polynomial is scaled
    from eko import interpolation as I2

    orig_cc = I2.Area._compute_coefs
    try:
        I2.Area._compute_coefs = lambda self, xgrid: orig_cc(self, xgrid) * (2 if self.poly_number == 1 else 1)
        nodes = [R.var(f"t{k}") for k in range(3)]
        bfs = list(_symbolic_dispatcher(I2, nodes, 1))
        pre = [compare_ge(nodes[k + 1] - nodes[k], eps) for k in range(2)] + [x >= nodes[0], x <= nodes[-1]] + [Or_(x <= nodes[k] - eps, x > nodes[k]) for k in range(1, 3)]
        paths = explore(lambda: [I2.evaluate_x(x, bf.areas_representation) for bf in bfs], pre, max_paths=64, budget_s=30)
        caught = any(p.exc is None and identity(sum((R.lift(v) for v in p.result), R.const(0)), R.const(1))[0] != "proved" for p in paths)
    except Exception:  # noqa
        caught = False
    finally:
        I2.Area._compute_coefs = orig_cc
    if not caught:
        o = Ob(f"{rep.pid}/A-eko[symbolic grid]/canary: a scaled basis polynomial must break the partition of unity", "bounded", UNDECIDED, "engine", 0, "the tampered basis was accepted: the obligation above decides nothing")
        o.bounded = True
        rep.add(o)


def eko_window_lemma(rep):
    """The interpolation window of EVERY area of EVERY grid (unbounded in the number of nodes): the body of
    the block-construction loop of eko's InterpolatorDispatcher.__init__ is extracted mechanically from the
    installed source on every run (ast: the `for i in range(len(xgrid) - 1)` loop; the only rewriting is
    `len(xgrid)` -> the symbol n and `list_of_blocks.append(b)` -> return b; nothing is dropped), executed on
    symbolic INTEGERS i and n (0 <= i <= n - 2, n >= degree + 1; integer sort in z3 -- on the reals the clamping
    test `kmax >= n` would leave kmax in (n - 1, n)) for each concrete degree 1..6 with po2 computed
    by the code preceding the loop, and z3 proves on every path: 0 <= kmin <= i, i + 1 <= kmax <= n - 1,
    kmax - kmin = degree -- the window has degree + 1 nodes, contains both ends of its area and lies inside
    the grid.  With it the symbolic-grid identities (which involve only the nodes of one window) hold for grids
    of any length; what stays assumed is that Area reads the grid only inside its window (read by eye:
    Area._reference_indices, xgrid[poly_number], xgrid[lower_index], xgrid[lower_index + 1])."""
    import ast
    import inspect
    import textwrap

    from eko import interpolation as I
    from pvc.core import Ob, PROVED, REFUTED, UNDECIDED
    from pvc.explore import explore
    from pvc.smt import prove
    from pvc.sym import And

    try:
        src = textwrap.dedent(inspect.getsource(I.InterpolatorDispatcher.__init__))
        fn = ast.parse(src).body[0]
        loop = [n_ for n_ in ast.walk(fn) if isinstance(n_, ast.For) and "list_of_blocks.append" in ast.unparse(n_)]
        assert len(loop) == 1 and ast.unparse(loop[0].iter) == "range(len(xgrid) - 1)", "block-construction loop not found in the expected form"
        body = ast.unparse(loop[0].body)
        assert body.count("list_of_blocks.append(b)") == 1 and "xgrid" not in body.replace("len(xgrid)", ""), "loop body uses the grid in an unexpected way"
        text = "def _window(i, n, polynomial_degree, po2):\n" + textwrap.indent(body.replace("len(xgrid)", "n").replace("list_of_blocks.append(b)", "return b"), "    ")
        # the statements between `list_of_blocks = []` and the loop compute po2 from the degree
        k0 = next(k for k, st_ in enumerate(fn.body) if ast.unparse(st_).startswith("list_of_blocks = "))
        k1 = fn.body.index(loop[0])
        pre_src = "\n".join(ast.unparse(st_) for st_ in fn.body[k0 + 1:k1])
        assert "po2" in pre_src and "xgrid" not in pre_src
        ns = {}
        exec(compile(text, "<eko block loop>", "exec"), ns)  # noqa: S102
    except Exception as e:  # noqa
        o = Ob(f"{rep.pid}/A-eko[window lemma]/extraction", "bounded", UNDECIDED, "engine", 0, f"{type(e).__name__}: {e}")
        o.bounded = True
        rep.add(o)
        return
    from pvc import smt as _smt

    _smt.INT_VARS.update({"i_area", "n_nodes"})  # integer-valued symbols: `kmax >= n` and `kmax > n - 1` differ on the reals
    i, n = R.var("i_area"), R.var("n_nodes")
    for deg in (1, 2, 3, 4, 5, 6):
        rep.cases += 1
        env = {"polynomial_degree": deg}
        exec(pre_src, env)  # noqa: S102  (po2 = degree // 2, minus one for even degrees)
        po2 = env["po2"]
        pre = [i >= 0, i <= n - 2, n >= deg + 1]
        bad, und, npaths = [], 0, 0
        try:
            for p in explore(lambda: ns["_window"](i, n, deg, po2), pre, max_paths=64, budget_s=30):
                npaths += 1
                if p.exc is not None:
                    bad.append(f"raises {p.exc!r}")
                    continue
                kmin, kmax = (R.lift(v) for v in p.result)
                st, model, _b = prove(pre + list(p.pc), And(kmin >= 0, kmin <= i, kmax >= i + 1, kmax <= n - 1, (kmax - kmin) <= deg, (kmax - kmin) >= deg), 10000)
                if st == "refuted":
                    bad.append(f"window ({kmin}, {kmax}) at {model}")
                elif st != "proved":
                    und += 1
            status = PROVED if npaths and not bad and not und else (REFUTED if bad else UNDECIDED)
            detail = f"{npaths} paths (interior, clamped left, clamped right); po2 = {po2}" + (f"; {bad[:2]}" if bad else "")
        except Exception as e:  # noqa
            status, detail = UNDECIDED, f"{type(e).__name__}: {e}"
        o = Ob(f"{rep.pid}/A-eko[window lemma]/degree {deg}: for every grid length n and every area i the window (kmin, kmax) has degree+1 nodes, contains i and i+1, lies in 0..n-1", "bounded", status, "z3", 0, detail)
        o.bounded = True
        rep.add(o)


def compare_ge(a, b):
    return R.lift(a) >= R.lift(b)


def Or_(*bs):
    from pvc.sym import Or

    return Or(*bs)


class _SymGrid:
    """What InterpolatorDispatcher reads from an XGrid: .grid (the nodes, log-transformed in log mode),
    .log, len()."""

    def __init__(self, nodes):
        self.grid = np.array(nodes, dtype=object)
        self.log = False
        self.raw = self.grid

    def __len__(self):
        return len(self.grid)


def _symbolic_dispatcher(I, nodes, deg):
    """eko's InterpolatorDispatcher.__init__ on a grid of symbols.  Two things are changed around the real
    code and nothing else: the isinstance(xgrid, XGrid) test is satisfied by deriving the stand-in grid from
    XGrid without running its float conversion, and np.ones (the seed of Area._compute_coefs) yields an
    exact one in an object array instead of a float64 array that cannot hold a symbol."""
    G = type("_SymXGrid", (I.XGrid,), {"__init__": lambda self, nodes: (setattr(self, "grid", np.array(nodes, dtype=object)), setattr(self, "log", False), None)[-1], "__len__": lambda self: len(self.grid)})
    orig = np.ones
    try:
        np.ones = lambda n, *a, **k: np.array([R.const(1)] * int(n), dtype=object)  # noqa: E731
        return I.InterpolatorDispatcher(G(nodes), deg, mode_N=False)
    finally:
        np.ones = orig


# process-global state that exists on the pinned tree, each with the reason it is harmless or the contract
# that covers it: (file, function, substring of the report)
KNOWN_PROCESS_STATE = (
    ("log.py", "setup", "logger.handlers", "log handlers: not read by any computation"),
    ("log.py", "setup", "ekologger.handlers", "log handlers: not read by any computation"),
    ("coefficient_functions/heavy/n3lo/__init__.py", "interpolator", "interpolators[grid_name]", "memo of the N3LO tables: key = file name, determined by all arguments (contract C14/other caches)"),
)


def no_process_state_lemma(rep):
    """Frame lemma behind every 'independent of what was computed before' argument (C14's induction, the
    per-class obligations of C03/C04/C08, the per-run obligations of C16/C19): no function of the package
    writes process-global state -- module-level objects, class objects, class-level mutables, memoising
    decorators, mutable defaults (contracts/frame_ast.py, syntactic, all paths).  One obligation per module.
    A new site is NOT by itself a violation (a completely keyed global memo is correct code): the lemma is then
    not established for that module and the obligation is *undecided* -- the histories that the concrete
    history obligations enumerate decide whether a failing history exists."""
    from contracts import frame_ast
    from pvc import boot as _boot
    from pvc.core import Ob, PROVED, UNDECIDED

    root = os.path.join(_boot.SRC, "yadism")
    sites = frame_ast.scan_package(root)
    by_mod = {}
    for rel, fn, line, what in sites:
        known = next((k for k in KNOWN_PROCESS_STATE if k[0] == rel and k[1] == fn and k[2] in what), None)
        by_mod.setdefault(rel, []).append((fn, line, what, known[3] if known else None))
    mods = []
    for dp, _, fs in os.walk(root):
        for f in sorted(fs):
            if f.endswith(".py"):
                mods.append(os.path.relpath(os.path.join(dp, f), root))
    rep.extra["process_state_modules_scanned"] = len(mods)
    for rel in sorted(mods):
        rep.cases += 1
        new = [(fn, line, what) for fn, line, what, known in by_mod.get(rel, []) if known is None]
        known = [(fn, what, why) for fn, line, what, why in by_mod.get(rel, []) if why is not None]
        if new:
            rep.add(Ob(f"{rep.pid}/no-process-state/{rel}", "frame", UNDECIDED, "ast", 0, "process-global state written by " + "; ".join(f"{fn} (line {line}): {what}" for fn, line, what in new[:4]) + " -- independence of earlier requests / runs in the same interpreter is not established for this module"))
        else:
            rep.add(Ob(f"{rep.pid}/no-process-state/{rel}", "frame", PROVED, "ast", 0, "no write to module-level objects, class objects, class-level mutables; no memoising decorator; no mutable default" + (f"; known sites under their own contract: {known}" if known else "")))



# ---------------------------------------------------------------------------------------
# documented observable names (docs/source/theory/intro.rst, docs/source/user): typed here, NOT read from
# yadism.observable_name -- a specification must not take its vocabulary from the code under test
DOC_SF_KINDS = ("F2", "FL", "F3", "g1", "gL", "g4")
DOC_XS_KINDS = ("XSHERANC", "XSHERANCAVG", "XSHERACC", "XSCHORUSCC", "XSNUTEVCC", "XSNUTEVNU", "XSFPFCC", "FW", "F1", "g5")
DOC_HEAVYNESS = ("charm", "bottom", "top", "light", "total", "charmlight", "bottomlight", "toplight")


def observable_names_contract(rep):
    """yadism.observable_name against the documented vocabulary: exactly the documented kinds are kinds
    (structure functions vs cross sections), every documented kind x heavyness -- and the bare kind -- is a
    valid name that parses back into its parts, nothing else is; parity: F3, gL, g4 violate it."""
    from pvc.core import ob_eval
    from yadism import observable_name as on

    rep.under_contract(on.ObservableName.__init__, on.ObservableName.is_valid)
    rep.cases += 1
    lists_ok = sorted(on.sfs) == sorted(DOC_SF_KINDS) and sorted(on.xs) == sorted(DOC_XS_KINDS) and sorted(on.external_flavors) == sorted(DOC_HEAVYNESS)
    rep.add(ob_eval(f"{rep.pid}/observable_name/the kinds and heavynesses are the documented ones", lists_ok, detail=f"sfs={on.sfs} xs={on.xs} external_flavors={on.external_flavors}", inputs={} if lists_ok else {"only in the module": str(sorted((set(on.sfs) | set(on.xs)) - set(DOC_SF_KINDS) - set(DOC_XS_KINDS))), "missing from the module": str(sorted((set(DOC_SF_KINDS) | set(DOC_XS_KINDS)) - set(on.sfs) - set(on.xs)))}))
    bad = []
    for kind in DOC_SF_KINDS + DOC_XS_KINDS:
        for fl in DOC_HEAVYNESS + (None,):
            name = kind if fl is None else f"{kind}_{fl}"
            try:
                if not on.ObservableName.is_valid(name):
                    bad.append((name, "not valid"))
                    continue
                o = on.ObservableName(name)
                if o.kind != kind or o.flavor != (fl or "total") or o.name != f"{kind}_{fl or 'total'}":
                    bad.append((name, f"parsed as kind={o.kind} flavor={o.flavor} name={o.name}"))
                if bool(o.is_parity_violating) != (kind in PV_KINDS):
                    bad.append((name, f"is_parity_violating={o.is_parity_violating}"))
            except Exception as e:  # noqa
                bad.append((name, f"{type(e).__name__}: {e}"))
    for name in ("XSFPFCCFW", "F2_", "F4_total", "XS_total", "pids", "xgrid", "F2_strange", "f2_total", "FW_charmheavy", ""):
        try:
            if on.ObservableName.is_valid(name):
                bad.append((name, "accepted"))
        except Exception as e:  # noqa
            bad.append((name, f"{type(e).__name__}: {e}"))
    rep.cases += 1
    rep.add(ob_eval(f"{rep.pid}/observable_name/every documented kind x heavyness is a valid name and parses into its parts; nothing else is", not bad, detail=str(bad[:4]), inputs={} if not bad else {"name": bad[0][0], "observed": bad[0][1], "all": str(bad[:8])}))
    observable_name_functions_contract(rep)


# classification of the heavyness part, typed from the documentation of the observable names
# (docs/source/theory/intro.rst, "heavyness"): (is_heavy, is_raw_heavy, is_heavylight, is_composed,
# flavour family, heavy-quark number, underlying quark, mass entry of the theory card)
DOC_HEAVYNESS_TABLE = {
    "charm": (True, True, False, False, "heavy", 4, "charm", "mc"),
    "bottom": (True, True, False, False, "heavy", 5, "bottom", "mb"),
    "top": (True, True, False, False, "heavy", 6, "top", "mt"),
    "light": (False, False, False, False, "light", 0, "light", None),
    "total": (True, False, False, True, "total", 0, None, "mt"),
    "charmlight": (True, False, True, False, "light", 4, "charm", "mc"),
    "bottomlight": (True, False, True, False, "light", 5, "bottom", "mb"),
    "toplight": (True, False, True, False, "light", 6, "top", "mt"),
}


def observable_name_functions_contract(rep):
    """Complete functional contract of yadism.observable_name.ObservableName over its whole (finite) domain:
    every documented kind x heavyness.  Each predicate / projection equals the typed table above; the
    constructors apply_kind / apply_flavor / apply_flavor_family build exactly the named object; equality is
    component-wise over all pairs; has_heavies / has_lights over every list of 0..2 names (valid and invalid
    mixed; the loop is 'return on first hit', so longer lists add nothing).  The domain is finite and is
    enumerated completely: these are proofs by exhaustion, not samples."""
    from pvc.core import ob_eval
    from yadism import observable_name as on

    O = on.ObservableName
    rep.under_contract(O.is_heavy.fget, O.is_raw_heavy.fget, O.is_heavylight.fget, O.is_composed.fget, O.flavor_family.fget, O.hqnumber.fget, O.raw_flavor.fget, O.mass_label.fget, O.name.fget, O.apply_kind, O.apply_flavor, O.apply_flavor_family, O.__eq__, O.__repr__, O.has_heavies.__func__, O.has_lights.__func__)
    kinds = DOC_SF_KINDS + DOC_XS_KINDS
    names = ("is_heavy", "is_raw_heavy", "is_heavylight", "is_composed", "flavor_family", "hqnumber", "raw_flavor", "mass_label")
    bad = []
    for kind in kinds:
        for fl, row in DOC_HEAVYNESS_TABLE.items():
            try:
                o = O(f"{kind}_{fl}")
                for nm, exp in zip(names, row):
                    if nm == "raw_flavor" and exp is None:
                        continue  # no single underlying quark for a composed observable: nothing is specified
                    if nm == "mass_label" and fl == "total":
                        continue  # not specified for a composed observable
                    got = getattr(o, nm)
                    if type(exp) is bool:
                        got = bool(got) if isinstance(got, (bool, int)) and not isinstance(got, str) else got
                    if got != exp or (type(exp) is int and isinstance(got, bool)):
                        bad.append((f"{kind}_{fl}", nm, repr(got), repr(exp)))
                if o.name != f"{kind}_{fl}" or repr(o) != f"{kind}_{fl}":
                    bad.append((f"{kind}_{fl}", "name/repr", f"{o.name}/{o!r}", f"{kind}_{fl}"))
                fam = o.apply_flavor_family()
                if (fam.kind, fam.flavor) != (kind, row[4]) or type(fam) is not O:
                    bad.append((f"{kind}_{fl}", "apply_flavor_family", f"{fam.kind}_{fam.flavor}", f"{kind}_{row[4]}"))
                if (o.kind, o.flavor) != (kind, fl):
                    bad.append((f"{kind}_{fl}", "apply_flavor_family changed the receiver", f"{o.kind}_{o.flavor}", f"{kind}_{fl}"))
            except Exception as e:  # noqa
                bad.append((f"{kind}_{fl}", "raised", f"{type(e).__name__}: {e}", "a value"))
    rep.cases += len(kinds) * len(DOC_HEAVYNESS_TABLE)
    rep.add(ob_eval(f"{rep.pid}/observable_name/functions: heavyness predicates, family, heavy-quark number, underlying quark, mass label equal the documented table for every kind x heavyness", not bad, detail=f"{len(kinds) * len(DOC_HEAVYNESS_TABLE)} names x {len(names)} functions; first deviations {bad[:3]}", inputs={} if not bad else {"name": bad[0][0], "function": bad[0][1], "observed": bad[0][2], "expected": bad[0][3], "all": str(bad[:8])}))
    # constructors: every (name, new kind) and (name, new heavyness)
    bad = []
    n = 0
    for kind in kinds:
        for fl in DOC_HEAVYNESS_TABLE:
            try:
                o = O(f"{kind}_{fl}")
                for k2 in kinds:
                    n += 1
                    r = o.apply_kind(k2)
                    if (r.kind, r.flavor) != (k2, fl) or (o.kind, o.flavor) != (kind, fl) or r is o:
                        bad.append((f"{kind}_{fl}", f"apply_kind({k2})", f"{r.kind}_{r.flavor}", f"{k2}_{fl}"))
                for f2 in tuple(DOC_HEAVYNESS_TABLE) + ("heavy",):
                    n += 1
                    r = o.apply_flavor(f2)
                    if (r.kind, r.flavor) != (kind, f2) or (o.kind, o.flavor) != (kind, fl) or r is o:
                        bad.append((f"{kind}_{fl}", f"apply_flavor({f2})", f"{r.kind}_{r.flavor}", f"{kind}_{f2}"))
            except Exception as e:  # noqa
                bad.append((f"{kind}_{fl}", "raised", f"{type(e).__name__}: {e}", "an object"))
    rep.cases += n
    rep.add(ob_eval(f"{rep.pid}/observable_name/functions: apply_kind / apply_flavor build exactly the named observable and leave the receiver alone (every name x every kind / heavyness)", not bad, detail=f"{n} constructions; {bad[:3]}", inputs={} if not bad else {"name": bad[0][0], "call": bad[0][1], "observed": bad[0][2], "expected": bad[0][3]}))
    # equality: component-wise over all pairs
    bad = []
    allnames = [(k, f) for k in kinds for f in DOC_HEAVYNESS_TABLE]
    objs = {}
    try:
        objs = {kf: O(f"{kf[0]}_{kf[1]}") for kf in allnames}
        for a in allnames:
            for b in allnames:
                got = objs[a] == objs[b]
                if bool(got) != (a == b):
                    bad.append((f"{a[0]}_{a[1]}", f"{b[0]}_{b[1]}", repr(got)))
    except Exception as e:  # noqa
        bad.append(("-", "-", f"{type(e).__name__}: {e}"))
    rep.cases += len(allnames) ** 2
    rep.add(ob_eval(f"{rep.pid}/observable_name/functions: two observable names are equal iff kind and heavyness are (all {len(allnames) ** 2} pairs)", not bad, detail=str(bad[:3]), inputs={} if not bad else {"a": bad[0][0], "b": bad[0][1], "observed a == b": bad[0][2]}))
    # has_heavies / has_lights: any valid name that is not / is light; invalid entries are ignored
    pool = ["F2_light", "F2_total", "F2_charm", "FL_bottomlight", "XSHERANC_light", "XSHERANC", "g1_top", "F3_light", "pids", "xgrid", "interpolation_is_log", "F2_strange", "F9_light", "F9_charm"]
    spec_valid = {nm: (nm.split("_")[0] in kinds and (len(nm.split("_")) == 1 or (len(nm.split("_")) == 2 and nm.split("_")[1] in DOC_HEAVYNESS_TABLE))) for nm in pool}
    spec_fl = {nm: (nm.split("_")[1] if "_" in nm else "total") for nm in pool}
    bad = []
    lists = [[]] + [[a] for a in pool] + [[a, b] for a in pool for b in pool]
    for lst in lists:
        exp_h = any(spec_valid[nm] and spec_fl[nm] != "light" for nm in lst)
        exp_l = any(spec_valid[nm] and spec_fl[nm] == "light" for nm in lst)
        for make in (list, tuple, lambda l: dict.fromkeys(l, 1)):
            try:
                gh, gl = O.has_heavies(make(lst)), O.has_lights(make(lst))
                if bool(gh) != exp_h or bool(gl) != exp_l:
                    bad.append((str(lst), f"has_heavies={gh} has_lights={gl}", f"{exp_h} {exp_l}"))
            except Exception as e:  # noqa
                bad.append((str(lst), f"{type(e).__name__}: {e}", f"{exp_h} {exp_l}"))
    rep.cases += 3 * len(lists)
    rep.add(ob_eval(f"{rep.pid}/observable_name/functions: has_heavies / has_lights = some valid name in the list is not / is light (lists, tuples, dict keys of 0..2 entries, invalid entries ignored)", not bad, detail=f"{3 * len(lists)} collections; {bad[:3]}", inputs={} if not bad else {"names": bad[0][0], "observed": bad[0][1], "expected (heavies, lights)": bad[0][2]}))


def special_functions_contract(rep):
    """coefficient_functions/special against their definitions (mpmath, 30 digits) on a lattice that visits
    every branch of the implementations: Li2 on [-1, 1]; the Nielsen polylogarithms S_{n,p}(x) =
    (-1)^{n+p-1} / ((n-1)! p!) int_0^1 log^{n-1}(t) log^p(1 - x t) / t dt for the (n, p) the kernels use, on
    x in [-1, 1] (the implementation switches formula at -1, 0, 1/2, 1 and reads tabulated S_{n,p}(1) in
    the reflection branch); the zeta constants.  Native evaluation (floats), not a proof for all x."""
    import mpmath as mp

    from pvc.core import ob_eval
    from yadism.coefficient_functions import special
    from yadism.coefficient_functions.special import nielsen as nmod

    mp.mp.dps = 30
    rep.under_contract(special.li2, nmod.nielsen)
    xs = (-1.0, -0.8, -0.5, -0.2, -1e-3, 0.0, 1e-3, 0.2, 0.3, 0.45, 0.5, 0.55, 0.7, 0.9, 0.99, 1.0)
    bad = []
    for x in xs:
        try:
            got = float(special.li2(x))
            exp = float(mp.polylog(2, x).real)
            if abs(got - exp) > 1e-10:
                bad.append((x, got, exp))
        except Exception as e:  # noqa
            bad.append((x, f"{type(e).__name__}: {e}", None))
    rep.cases += 1
    rep.add(ob_eval(f"{rep.pid}/special/li2 = Li2 on [-1, 1]", not bad, detail=str(bad[:3]), inputs={} if not bad else {"x": bad[0][0], "got": repr(bad[0][1]), "Li2": repr(bad[0][2])}))

    def S(n, p, x):
        if x == 0:
            return mp.mpf(0)
        f = lambda t: mp.log(t) ** (n - 1) * mp.log(1 - x * t) ** p / t  # noqa: E731
        return ((-1) ** (n + p - 1) / (mp.factorial(n - 1) * mp.factorial(p)) * mp.quad(f, [0, 0.5, 1])).real

    for n, p in ((1, 1), (2, 1), (1, 2), (3, 1), (2, 2), (1, 3)):
        bad = []
        for x in xs:
            try:
                got = complex(nmod.nielsen(n, p, x)).real
                exp = float(S(n, p, x))
                if abs(got - exp) > 2e-9 * max(1.0, abs(exp)):
                    bad.append((x, got, exp))
            except Exception as e:  # noqa
                bad.append((x, f"{type(e).__name__}: {e}", None))
        rep.cases += 1
        rep.add(ob_eval(f"{rep.pid}/special/nielsen({n},{p},x) = S_{{{n},{p}}}(x) on [-1, 1] (every branch)", not bad, detail=str(bad[:3]), inputs={} if not bad else {"n": n, "p": p, "x": bad[0][0], "got": repr(bad[0][1]), "S_np": repr(bad[0][2])}, replay={"confirmed": True, "python": f"yadism.coefficient_functions.special.nielsen.nielsen({n}, {p}, x)"}))
    consts = {"zeta2": mp.zeta(2), "zeta3": mp.zeta(3), "zeta4": mp.zeta(4), "zeta5": mp.zeta(5)}
    from yadism.coefficient_functions.special import zeta as zmod

    bad = [(k, getattr(zmod, k), float(v)) for k, v in consts.items() if hasattr(zmod, k) and abs(float(getattr(zmod, k)) - float(v)) > 1e-14]
    rep.cases += 1
    rep.add(ob_eval(f"{rep.pid}/special/zeta constants", not bad, detail=str(bad), inputs={} if not bad else {"constant": bad[0][0], "got": repr(bad[0][1]), "value": repr(bad[0][2])}))
