"""C03 -- every coefficient / splitting kernel is one well-defined distribution.

Per RSL construction site (every PartonicChannel subclass x order x nf, every split.raw_labels
entry) with z in (0,1) symbolic and the site's own packed args:
  primitive    d/dz loc(z) + sing(z) == 0     (loc = delta coefficient - int_0^z sing)
  defined      every denominator != 0, every log argument > 0, sqrt argument >= 0   (z3)
  scalar       each part returns one real scalar
plus the generic contract of partonic_channel.{sing,loc}_from_distr_coeffs / loc_from_delta /
RSL.__init__ / from_distr_coeffs / from_delta.
"""
from __future__ import annotations

import numpy as np

from pvc.core import ob_eval, ob_identity, guarded, Ob, PROVED, REFUTED, UNDECIDED, parallel
from pvc.diff import d as ddz
from pvc.stubs import rebind, np_shim_for
from pvc.sym import R, Not, Eq, OutOfReach

from . import harness as H
from . import sites as S

LEVEL = "proof"
TAU_FIT = 1e-5   # published parametrisations rounded to 5-7 significant digits (DESIGN 2.3)
TAU_EXACT = 1e-10  # in-repo closed forms with independently rounded double constants


def _is_scalar(v):
    return isinstance(v, R) or (isinstance(v, (int, float, np.integer, np.floating)) and not isinstance(v, bool))


def num_dloc(loc, args, z):
    """5-point central difference for the native replay."""
    h = 1e-4 * min(z, 1 - z)
    f = lambda t: float(loc(t, args))
    return (-f(z + 2 * h) + 8 * f(z + h) - 8 * f(z - h) + f(z - 2 * h)) / (12 * h)


def tau_for(rsl):
    mods = " ".join(getattr(f, "__module__", "") or "" for f in (rsl.reg, rsl.sing, rsl.loc) if f is not None)
    return TAU_FIT if (".nnlo." in mods or ".n3lo." in mods) else TAU_EXACT


def rsl_triples(sy, rsl, prefix=""):
    """Obligation triples for one RSL object."""
    from yadism.coefficient_functions.partonic_channel import RSL

    out = [(prefix + "is-RSL", isinstance(rsl, RSL), True)]
    if not isinstance(rsl, RSL):
        return out
    z = sy.z
    tau = tau_for(rsl)
    vals = {}
    for part in ("reg", "sing", "loc"):
        f = getattr(rsl, part)
        if f is None:
            continue
        a = rsl.args[part]
        if sy.is_numeric:
            a = np.array(a, dtype=float)
        v = f(z, a)
        vals[part] = v
        out.append((prefix + f"{part}-returns-real-scalar", _is_scalar(v), True))
    if "loc" in vals or "sing" in vals:
        sing = vals.get("sing", 0)
        if "loc" in vals:
            if sy.is_numeric:
                a = np.array(rsl.args["loc"], dtype=float)
                dl = num_dloc(rsl.loc, a, z)
            else:
                dl = ddz(R.lift(vals["loc"]), z)
        else:
            dl = 0
        if _is_scalar(sing) and _is_scalar(dl):
            out.append((prefix + "primitive(dloc/dz = -sing)", dl, -sing if not isinstance(sing, int) or sing else 0, {"tol": tau, "replay_tol": 1e-6, "nocross": True}))  # native side is a finite difference: not a cross-check of the engine
    return out


def sec_generic(rep):
    """partonic_channel.{sing,loc}_from_distr_coeffs, loc_from_delta, RSL constructors."""
    import yadism.coefficient_functions.partonic_channel as pcm

    rep.under_contract(pcm.sing_from_distr_coeffs, pcm.loc_from_distr_coeffs, pcm.loc_from_delta, pcm.RSL.__init__, pcm.RSL.from_distr_coeffs, pcm.RSL.from_delta)
    for n in range(1, 7):
        sy = H.Sy(extra="z " + " ".join(f"c{i}" for i in range(n)))
        rep.cases += 1

        def case(sy, n=n):
            cs = [getattr(sy, f"c{i}") for i in range(n)]
            with rebind(*([] if sy.is_numeric else np_shim_for(pcm))):
                rsl = pcm.RSL.from_distr_coeffs(None, cs)
                out = rsl_triples(sy, rsl)
                L = (R.lift(1 - sy.z).log()) if not sy.is_numeric else np.log(1 - sy.z)
                a_s = rsl.args["sing"] if not sy.is_numeric else np.array(rsl.args["sing"], dtype=float)
                a_l = rsl.args["loc"] if not sy.is_numeric else np.array(rsl.args["loc"], dtype=float)
                out.append(("sing = sum_k c_{k+1} L^k/(1-z)", rsl.sing(sy.z, a_s), sum((cs[k + 1] * L**k for k in range(n - 1)), 0) / (1 - sy.z)))
                out.append(("loc = c_0 + sum_k c_{k+1} L^{k+1}/(k+1)", rsl.loc(sy.z, a_l), cs[0] + sum((cs[k + 1] * L ** (k + 1) / (k + 1) for k in range(n - 1)), 0)))
                out.append(("arg-lengths", (len(rsl.args["reg"]), len(rsl.args["sing"]), len(rsl.args["loc"])), (0, n - 1, n)))
                d = pcm.RSL.from_delta(cs[0])
                a_d = d.args["loc"] if not sy.is_numeric else np.array(d.args["loc"], dtype=float)
                out.append(("from_delta: loc = c, no reg/sing", (d.reg, d.sing), (None, None)))
                out.append(("from_delta: value", d.loc(sy.z, a_d), cs[0]))
            return out

        rep.check(f"C03/from_distr_coeffs/n={n}", case, sy, [sy.z > 0, sy.z < 1], sides=True)
    # RSL.__init__ argument packing: dict per part / sequence for all / None -> empty
    r1 = pcm.RSL(args={"reg": [1.0, 2.0], "loc": None})
    r2 = pcm.RSL(args=[3.0])
    r3 = pcm.RSL()
    ok = [len(r1.args[k]) for k in ("reg", "sing", "loc")] == [2, 0, 0] and [list(r2.args[k]) for k in ("reg", "sing", "loc")] == [[3.0]] * 3 and all(len(r3.args[k]) == 0 for k in r3.args)
    ok = ok and all(r.args[k].dtype == float and r.args[k].ndim == 1 for r in (r1, r2, r3) for k in r.args)
    rep.cases += 1
    rep.add(ob_eval("C03/RSL.__init__/post(args packed per part as 1-d float arrays)", ok))


def site_worker(sub, site):
    sy = H.Sy(extra="z")
    sub.cases += 1

    def case(sy, site=site):
        with rebind(*S.stub_binds(sy)):
            o = site.construct(sy)
            rsl = o[site.order]()
            if rsl is None:
                return [("no-kernel-at-this-order", True, True)]
            return rsl_triples(sy, rsl)

    try:
        sub.check(f"C03/site/{site.name}", case, sy, site.pre(sy), sides=True, max_paths=256, timeout_ms=5000)
    except Exception as e:  # noqa
        # construction failures (missing classes, bad argument vectors) are C16/C18's findings;
        # here they only make the site undecided
        sub.add(Ob(f"C03/site/{site.name}", "post", UNDECIDED, "engine", 0, f"{type(e).__name__}: {e}"))


def label_worker(sub, item):
    lab, f, nf = item
    sy = H.Sy(extra="z")
    sub.cases += 1

    def case(sy):
        with rebind(*S.stub_binds(sy)):
            return rsl_triples(sy, f(nf))

    sub.check(f"C03/splitting/{lab}/nf={nf}", case, sy, [sy.z > 0, sy.z < 1], sides=True)


def sec_sites(rep, tier, only_family=None):
    sites, errors = S.all_sites()
    rep.add(ob_eval("C03/module-scan-complete", not errors, detail=str(errors)[:400]))
    if only_family:
        sites = [s for s in sites if s.family == only_family]
    for s in sites:
        rep.functions[f"{s.cls.__module__}:{s.cls.__qualname__}.{['LO','NLO','NNLO','N3LO'][s.order]}"] = None
    parallel(rep, sites, site_worker)
    rep.sample({"sites enumerated (class x order x nf)": len(sites)})


def sec_labels(rep):
    items = [(lab, f, nf) for lab, f in S.splitting_labels() for nf in (3, 4, 5, 6)]
    parallel(rep, items, label_worker)
    rep.sample({"splitting labels": sorted({i[0] for i in items})})


def sec_selfcheck(rep, seed):
    from pvc.core import Report
    from yadism.coefficient_functions.partonic_channel import RSL
    from canaries import c03 as canary

    sy = H.Sy(extra="z")
    scratch = Report(rep.pid, rep.tier, seed)
    scratch.check("canary", lambda sy: rsl_triples(sy, RSL(None, canary.sing, canary.loc_wrong, [4.0])), sy, [sy.z > 0, sy.z < 1])
    bad = [o for o in scratch.obs if o.status == REFUTED and "primitive" in o.name]
    good = bool(bad) and bool(bad[0].replay.get("confirmed"))
    rep.add(Ob("C03/selfcheck/canary-wrong-primitive-refuted-and-replayed", "canary", PROVED if good else "error", "ratfun+replay", 0, f"loc with 1/5 instead of 1/2: {[o.status for o in scratch.obs]}; replay={bad[0].replay if bad else None}"))
    scratch2 = Report(rep.pid, rep.tier, seed)
    scratch2.check("canary", lambda sy: rsl_triples(sy, RSL(None, canary.sing, canary.loc_right, [4.0])), sy, [sy.z > 0, sy.z < 1])
    ok = all(o.status == PROVED for o in scratch2.obs)
    rep.add(Ob("C03/selfcheck/correct-variant-proved", "selfcheck", PROVED if ok else "error", "ratfun", 0, "the corrected canary is accepted"))


def run(rep, tier, seed, only=None):
    from pvc.core import lean_lemmas

    if not only and rep.replay_target is None:
        rep.add(lean_lemmas("C03", ["loc_eq_delta_sub_primitive"], tier))
    rep.assume(
        "L-FTC: d/dz loc = -sing on (0,1) with loc(0+) the delta coefficient is 'loc = delta - int_0^z sing' -- machine-checked by Lean 4 + Mathlib in the thorough tier (lemmas/Lemmas.lean, theorem loc_eq_delta_sub_primitive: loc continuous on [0,z], sing integrable); an assumption in the quick tier",
        "A-special: special.li2 / nielsen are the atoms Li2, S_{n,p} (derivative rule for Li2); A-ext: LeProHQ, adani, N3LO splines, scipy spence(=Li2(1-u), with its derivative rule) uninterpreted and assumed finite",
        f"tolerances: tau={TAU_FIT} (largest residual coefficient / largest coefficient over the common denominator) for the fitted NNLO/N3LO parametrisations, {TAU_EXACT} elsewhere",
        "heavy NC sites are evaluated above the hadronic threshold (below: C09); heavy CC with the slow-rescaling point inside (0,1)",
        "ESF.x is a parameter of a kernel; the argument of reg/sing/loc is the independent symbol z",
    )
    rep.stub("special.li2, special.nielsen, scipy.special.spence, LeProHQ, heavy.n3lo.interpolator, adani -> atoms/uninterpreted", "numpy constructor shim in *.partonic_channel modules")
    fam = None
    if only and only.startswith("site:"):
        fam = only.split(":", 1)[1]
        only = "sites"
    for nm, f in (("generic", sec_generic), ("sites", lambda r: sec_sites(r, tier, fam)), ("labels", sec_labels), ("finitetables", lambda r: __import__("contracts.c07", fromlist=["x"]).sec_finite_kernels(r, tier)), ("special", H.special_functions_contract)):
        if only and only not in nm:
            continue
        rep.add(guarded(f"C03/{nm}", lambda f=f: (f(rep), [])[1]))
    if not only and rep.replay_target is None:
        rep.add(guarded("C03/selfcheck", lambda: (sec_selfcheck(rep, seed), [])[1]))
    rep.extra["rule"] = "cases = every PartonicChannel subclass (module scan) x order 0..3 x nf 3..6, every splitting label x nf; z, x, Q2, m2 symbolic"
