"""Process-history battery (C14, re-used by others): a list of small but diverse REAL runs.

Each run is executed (a) alone in a fresh interpreter and (b) as an element of a sequence in one
interpreter, in two different orders.  The operators of a run must be bit-for-bit the same in all three
situations: nothing a run computes may depend on what the process computed before.  The runs differ
pairwise in exactly the things a process-wide memo could forget to put into its key: interpolation grid
(nodes, degree, log mode), target, CKM matrix, projectile, process, scheme and NfFF, TMC mode, observable
kind (leading orders differ between F2, FL, F3), perturbative order, scale-variation switches, flavour
patches.  Concrete runs -- an evaluation of the contract on a finite set of histories, not a proof for all
histories (the all-histories argument is the frame lemma `no_process_state_lemma` + the key contracts).

Called as a script it is the worker:  python -m contracts.history_battery i j k ...  prints one line
`<index> <sha256 of the run's operators>` per run index, executing them in the given order.
"""
import hashlib
import json
import os
import sys

CKM_A = "0.97428 0.22530 0.003470 0.22520 0.97345 0.041000 0.00862 0.04030 0.999152"
CKM_B = "0.95 0.30 0.01 0.30 0.94 0.05 0.02 0.06 0.998"
GRID_A = [1e-3, 1e-2, 0.1, 0.4, 0.7, 1.0]
GRID_B = [1e-2, 0.1, 0.3, 0.6, 1.0]
GRID_C = [1e-4, 1e-3, 1e-2, 0.1, 0.4, 0.7, 1.0]

# (theory overrides, observable-card overrides)
RUNS = [
    (dict(PTO=1, PTODIS=1), dict(prDIS="NC", interpolation_xgrid=GRID_A, interpolation_polynomial_degree=2, observables={"F2_total": [{"x": 0.3, "Q2": 20.0}, {"x": 0.05, "Q2": 20.0}]})),
    (dict(PTO=1, PTODIS=1, FactScaleVar=True), dict(prDIS="NC", TargetDIS="neutron", interpolation_xgrid=GRID_A, interpolation_polynomial_degree=3, observables={"FL_light": [{"x": 0.3, "Q2": 20.0}], "F3_total": [{"x": 0.3, "Q2": 20.0}, {"x": 0.1, "Q2": 20.0}]})),
    (dict(PTO=0, PTODIS=0, FNS="FFNS", NfFF=3, CKM=CKM_A), dict(prDIS="CC", ProjectileDIS="neutrino", interpolation_xgrid=GRID_A, observables={"F2_charm": [{"x": 0.1, "Q2": 10.0}], "F3_charm": [{"x": 0.1, "Q2": 10.0}]})),
    (dict(PTO=0, PTODIS=0, FNS="FFNS", NfFF=3, CKM=CKM_B), dict(prDIS="CC", ProjectileDIS="antineutrino", TargetDIS="iron", interpolation_xgrid=GRID_A, observables={"F2_charm": [{"x": 0.1, "Q2": 10.0}], "FL_charm": [{"x": 0.1, "Q2": 10.0}]})),
    (dict(PTO=0, PTODIS=0, TMC=1), dict(prDIS="NC", interpolation_xgrid=GRID_B, interpolation_polynomial_degree=2, observables={"F2_total": [{"x": 0.3, "Q2": 5.0}]})),
    (dict(PTO=0, PTODIS=0, TMC=1), dict(prDIS="NC", interpolation_xgrid=GRID_A, interpolation_polynomial_degree=2, interpolation_is_log=False, observables={"F2_total": [{"x": 0.3, "Q2": 5.0}], "FL_total": [{"x": 0.3, "Q2": 5.0}]})),
    (dict(PTO=1, PTODIS=1), dict(prDIS="NC", TargetDIS="lead", interpolation_xgrid=GRID_C, interpolation_polynomial_degree=2, observables={"XSHERANC_total": [{"x": 3e-4, "Q2": 20.0, "y": 0.4}, {"x": 0.3, "Q2": 20.0, "y": 0.4}], "FL_light": [{"x": 0.3, "Q2": 20.0}, {"x": 0.31, "Q2": 20.0}]})),
    (dict(PTO=2, PTODIS=2, FactScaleVar=True, RenScaleVar=True), dict(prDIS="EM", interpolation_xgrid=GRID_B, interpolation_polynomial_degree=2, observables={"F2_light": [{"x": 0.3, "Q2": 10.0}, {"x": 0.3, "Q2": 100.0}]})),
    (dict(PTO=0, PTODIS=0, TMC=3), dict(prDIS="NC", PolarizationDIS=0.0, interpolation_xgrid=GRID_B, interpolation_polynomial_degree=1, observables={"g1_total": [{"x": 0.3, "Q2": 5.0}], "g1_light": [{"x": 0.3, "Q2": 5.0}]})),
    (dict(PTO=1, PTODIS=1, FNS="FFN0", NfFF=3), dict(prDIS="CC", ProjectileDIS="neutrino", interpolation_xgrid=GRID_B, observables={"FL_charm": [{"x": 0.1, "Q2": 50.0}], "F2_charm": [{"x": 0.1, "Q2": 50.0}], "F3_charm": [{"x": 0.1, "Q2": 50.0}]})),
    (dict(PTO=1, PTODIS=1, FNS="FFN0", NfFF=3), dict(prDIS="CC", ProjectileDIS="positron", interpolation_xgrid=GRID_B, observables={"F3_charm": [{"x": 0.1, "Q2": 50.0}], "F2_charm": [{"x": 0.1, "Q2": 50.0}]})),
    (dict(PTO=1, PTODIS=1, FactScaleVar=True), dict(prDIS="NC", ProjectileDIS="positron", PolarizationDIS=-0.5, interpolation_xgrid=GRID_B, interpolation_polynomial_degree=2, observables={"F2_total": [{"x": 0.3, "Q2": 10.0}, {"x": 0.3, "Q2": 100.0}], "g4_total": [{"x": 0.3, "Q2": 100.0}]})),
]

ORDERS = (tuple(range(len(RUNS))), tuple(reversed(range(len(RUNS)))), (7, 1, 11, 0, 5, 4, 9, 10, 3, 2, 8, 6))


def run_one(i):
    import warnings

    import numpy as np

    from contracts import harness as H
    from yadism import runner as rmod

    th, ob = RUNS[i]
    h = hashlib.sha256()
    try:
        with warnings.catch_warnings():
            warnings.simplefilter("ignore")
            out = rmod.Runner(H.base_theory(**th), H.base_obs(**ob)).get_result()
        for name in sorted(k for k in out if isinstance(out[k], list)):
            for pt in out[name]:
                if hasattr(pt, "orders"):
                    for key in sorted(pt.orders):
                        val, err = pt.orders[key]
                        h.update(repr(key).encode())
                        h.update(np.ascontiguousarray(np.asarray(val, dtype=float)).tobytes())
                        h.update(np.ascontiguousarray(np.asarray(err, dtype=float)).tobytes())
        return h.hexdigest()
    except Exception as e:  # noqa
        return f"raised:{type(e).__name__}:{str(e)[:80]}".replace(" ", "_")


def _point_digests(th, ob):
    import warnings

    import numpy as np

    from contracts import harness as H
    from yadism import runner as rmod

    with warnings.catch_warnings():
        warnings.simplefilter("ignore")
        out = rmod.Runner(H.base_theory(**th), H.base_obs(**ob)).get_result()
    res = {}
    for name in sorted(k for k in out if isinstance(out[k], list)):
        for k, pt in enumerate(out[name]):
            h = hashlib.sha256()
            if hasattr(pt, "orders"):
                for key in sorted(pt.orders):
                    val, err = pt.orders[key]
                    h.update(repr(key).encode())
                    h.update(np.ascontiguousarray(np.asarray(val, dtype=float)).tobytes())
                    h.update(np.ascontiguousarray(np.asarray(err, dtype=float)).tobytes())
            res[(name, k)] = h.hexdigest()
    return res


def split_one(i):
    """Intra-run history: every (observable, point) of run i computed in a run of its own gives the operator it
    has in the full run (whatever was requested before it, beside it, at the same scale ...)."""
    th, ob = RUNS[i]
    try:
        full = _point_digests(th, ob)
        bad = []
        for name, pts in ob["observables"].items():
            for k, pt in enumerate(pts):
                single = _point_digests(th, dict(ob, observables={name: [pt]}))
                if single.get((name, 0)) != full.get((name, k)):
                    bad.append(f"{name}[{k}]")
        return "ok" if not bad else "differs:" + ",".join(bad)
    except Exception as e:  # noqa
        return f"raised:{type(e).__name__}:{str(e)[:80]}".replace(" ", "_")


def main(argv):
    sys.path.insert(0, os.path.dirname(os.path.dirname(os.path.abspath(__file__))))
    from pvc.boot import boot

    boot()
    for a in argv:
        if a.startswith("s"):
            print(a, split_one(int(a[1:])), flush=True)
        else:
            print(a, run_one(int(a)), flush=True)


def battery(timeout=900):
    """-> (alone: {i: digest}, sequences: [(order, {i: digest})]) ; subprocesses in parallel."""
    import subprocess

    here = os.path.dirname(os.path.dirname(os.path.abspath(__file__)))
    env = dict(os.environ, NUMBA_DISABLE_JIT="1")
    jobs = [([i], None) for i in range(len(RUNS))] + [(list(o), o) for o in ORDERS]
    procs = [(subprocess.Popen([sys.executable, "-m", "contracts.history_battery"] + [str(i) for i in idx], cwd=here, env=env, stdout=subprocess.PIPE, stderr=subprocess.PIPE, text=True), idx, order) for idx, order in jobs]
    split_proc = subprocess.Popen([sys.executable, "-m", "contracts.history_battery"] + [f"s{i}" for i in range(len(RUNS))], cwd=here, env=env, stdout=subprocess.PIPE, stderr=subprocess.PIPE, text=True)
    alone, seqs = {}, []
    for p, idx, order in procs:
        try:
            out, err = p.communicate(timeout=timeout)
        except subprocess.TimeoutExpired:
            p.kill()
            out, err = "", "timeout"
        got = {}
        for line in out.splitlines():
            parts = line.split()
            if len(parts) == 2 and parts[0].isdigit():
                got[int(parts[0])] = parts[1]
        for i in idx:
            got.setdefault(i, "no-output:" + err.strip().splitlines()[-1][:80].replace(" ", "_") if err.strip() else "no-output")
        if order is None:
            alone.update(got)
        else:
            seqs.append((order, got))
    try:
        out, err = split_proc.communicate(timeout=timeout)
    except subprocess.TimeoutExpired:
        split_proc.kill()
        out, err = "", "timeout"
    SPLIT.clear()
    for line in out.splitlines():
        parts = line.split()
        if len(parts) == 2 and parts[0].startswith("s"):
            SPLIT[int(parts[0][1:])] = parts[1]
    for i in range(len(RUNS)):
        SPLIT.setdefault(i, "no-output:" + (err.strip().splitlines()[-1][:80].replace(" ", "_") if err.strip() else ""))
    return alone, seqs


SPLIT = {}


if __name__ == "__main__":
    main(sys.argv[1:])
