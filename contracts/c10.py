"""C10 -- target-mass-corrected results equal the published formulas.

Functions under contract: esf.tmc.{h2_ker, g2_ker, h3_ker, k2_ker},
EvaluatedStructureFunctionTMC.{__init__, get_result, _convolve_FX, _h2, _g2, _k1, _k2},
ESFTMC_F3._h3, _get_result_{APFEL, approx, exact} of ESFTMC_{F2, FL, F3, g1},
ESFResult.{__add__, __mul__, __rmul__} (through them).
Oracle: spec/tmc.py (Schienbein et al.; Bluemlein-Tkabladze / Accardi-Melnitchouk).

Method: x, Q2, M2 symbolic (rho is a sqrt atom with rho^2 = 1+4x^2 mu); structure functions
returned by the get_esf stub are abstract values F[kind](point); the integrals produced by
the conv.convolution stub are abstract I[weight](j), where the weight class is decided
*semantically* from the kernel function the code passed (its value on a symbolic z).
"""
from __future__ import annotations

import math

import numpy as np

from pvc.core import ob_eval, ob_identity, guarded, Ob, PROVED, REFUTED, UNDECIDED
from pvc.ratfun import Normaliser
from pvc.stubs import rebind, np_shim_for
from pvc.sym import R, Not, Eq, fn

from spec import tmc as spec
from . import harness as H

LEVEL = "proof"
KINDS = ("F2", "FL", "F3", "g1")
NODES = [0.1, 0.4, 0.8, 1.0]


def _fns(sy):
    if sy.is_numeric:
        return math.sqrt, math.log
    return (lambda v: R.lift(v).sqrt()), (lambda v: R.lift(v).log())


def _shim(sy):
    import yadism.coefficient_functions.partonic_channel as pcmod

    return [] if sy.is_numeric else np_shim_for(pcmod)


WIDTH = [1]  # how many nodes above its own the support of a basis function reaches (1: degree 1, 2: higher degrees)


class BF:
    """eko basis function stub: support ends at node j+WIDTH (degree-1-like for WIDTH=1, wider for
    higher polynomial degrees -- which basis functions contribute is eko's is_below_x, never an
    assumption about the degree); not log mode."""

    def __init__(self, j):
        self.j = j
        self.hi = NODES[min(j + WIDTH[0], len(NODES) - 1)]

    def is_below_x(self, x):
        return bool(self.hi <= x) if self.j < len(NODES) - 1 else bool(self.hi < x)


class Interp(list):
    class _G:
        raw = NODES

    xgrid = _G()


class SFStub:
    """Contract stub of sf.StructureFunction seen from the TMC classes."""

    def __init__(self, sy, kind, flavor, tmc):
        self.sy = sy
        self.obs_name = H.obs_name(kind, flavor)
        self.requests = []

        class C:
            M2target = sy.M2target
            TMC = tmc
            interpolator = Interp(BF(j) for j in range(len(NODES)))

        class Rn:
            configs = C()

        self.runner = Rn()

    def get_esf(self, obs_name, kin, *a, **kw):
        from yadism.esf.result import ESFResult

        self.requests.append((obs_name.name, kin, a, kw))
        sy = self.sy
        x = kin["x"]
        val = sy.U("F", obs_name.name, x)
        err = sy.U("Ferr", obs_name.name, x)

        class E:
            def get_result(s):
                return ESFResult(x, kin["Q2"], None, {(0, 0, 0, 0): (val, err), (1, 0, 0, 0): (sy.U("F1", obs_name.name, x), 0)})

        return E()


def classify_kernel(sy, ker, args, xi):
    """Which spec weight does this kernel realise?  Decided on a symbolic z (identity in Q(atoms))."""
    if sy.is_numeric:
        z = 0.37
        val = ker(z, args)
        for w, k in spec.KERNEL_OF_WEIGHT.items():
            if abs(val - k(z, xi, math.log)) < 1e-12:
                return w
        return f"unknown-kernel:{getattr(ker, '__name__', ker)}"
    from pvc.sym import no_sides

    z = R.var("zk")
    with no_sides():  # auxiliary probe on z in (0,1); the kernels' own definedness is sec_kernels
        val = R.lift(ker(z, args))
        for w, k in spec.KERNEL_OF_WEIGHT.items():
            st, _ = Normaliser().identity(val, R.lift(k(z, xi, lambda v: R.lift(v).log())), 1e-12)
            if st == "proved":
                return w
    return f"unknown-kernel:{getattr(ker, '__name__', ker)}"


def make_conv_stub(sy, log):
    def convolution(rsl, x, pj):
        ok = rsl.sing is None and rsl.loc is None and rsl.reg is not None
        w = classify_kernel(sy, rsl.reg, rsl.args["reg"], x) if ok else "malformed-RSL"
        log.append((w, pj.j, x))
        return sy.U("I", w, pj.j), sy.U("Ierr", w, pj.j)

    return convolution




def sec_kernels(rep):
    from yadism.esf import tmc

    rep.under_contract(tmc.h2_ker, tmc.g2_ker, tmc.h3_ker, tmc.k2_ker)
    sy = H.Sy(extra="z xi")
    pre = [sy.z > 0, sy.z < 1, sy.xi > 0, sy.xi < 1]
    table = {"h2_ker": "1/u^2", "g2_ker": "(u-xi)/u^2", "h3_ker": "1/u", "k2_ker": "ln(u/xi)/u^2"}
    for name, w in table.items():
        rep.cases += 1

        def case(sy, name=name, w=w):
            _, log = _fns(sy)
            with rebind(*([] if sy.is_numeric else np_shim_for(tmc))):
                args = np.array([sy.xi]) if sy.is_numeric else [sy.xi]
                return getattr(tmc, name)(sy.z, args), spec.KERNEL_OF_WEIGHT[w](sy.z, sy.xi, log)

        rep.check(f"C10/kernel/{name} = Mellin kernel of weight {w}", case, sy, pre, sides=True)


def sec_lcov(rep):
    """Lemma L-cov, kernel table: with u = xi/z (du = -xi dz/z^2) the integral int_xi^1 du w(u) F(u)
    is the Mellin convolution int_xi^1 dz/z k(z) F(xi/z) with k(z) = (xi/z) w(xi/z); the four
    kernels of spec.KERNEL_OF_WEIGHT are exactly that (only the substitution rule itself stays
    assumed)."""
    sy = H.Sy(extra="z xi")
    pre = [sy.z > 0, sy.z < 1, sy.xi > 0, sy.xi < 1]
    for w in spec.WEIGHT:
        rep.cases += 1

        def case(sy, w=w):
            _, log = _fns(sy)
            u = sy.xi / sy.z
            return spec.KERNEL_OF_WEIGHT[w](sy.z, sy.xi, log), (sy.xi / sy.z) * spec.WEIGHT[w](u, sy.xi, log)

        rep.check(f"C10/L-cov/kernel of weight {w} = (xi/z) w(xi/z)", case, sy, pre, kind="lemma")


def sec_init(rep):
    from yadism.esf import tmc

    rep.under_contract(tmc.EvaluatedStructureFunctionTMC.__init__)
    sy = H.Sy()
    pre = [sy.x > 0, sy.x <= 1, sy.Q2 > 0, sy.M2target >= 0]

    def case(sy):
        sqrt, _ = _fns(sy)
        sf = SFStub(sy, "F2", "total", 3)
        kin = {"x": sy.x, "Q2": sy.Q2}
        o = tmc.ESFTMC_F2(sf, kin)
        mu = sy.M2target / sy.Q2
        r, xi = spec.variables(sy.x, mu, sqrt)
        return [("x", o.x, sy.x), ("Q2", o.Q2, sy.Q2), ("mu", o.mu, mu), ("rho", o.rho, r), ("xi", o.xi, xi),
                ("shifted-x", o._shifted_kinematics["x"], xi), ("shifted-Q2", o._shifted_kinematics["Q2"], sy.Q2),
                ("frame: kinematics dict untouched", kin, {"x": sy.x, "Q2": sy.Q2})]

    rep.cases += 1
    rep.check("C10/__init__/post(mu, rho, xi, shifted kinematics)", case, sy, pre, sides=True)
    # float companion: the Nachtmann variable keeps its digits for tiny target masses, at small x and
    # large Q2 (xi -> x continuously), where an algebraically equal form such as (rho-1)/(2 x mu) does not
    envs = [dict(x=0.3, Q2=10.0, M2target=0.88), dict(x=0.3, Q2=10.0, M2target=1e-10), dict(x=1e-5, Q2=1e4, M2target=0.88), dict(x=1e-4, Q2=1e5, M2target=0.88), dict(x=0.9, Q2=2.0, M2target=0.88), dict(x=0.5, Q2=10.0, M2target=1e-16)]
    rep.float_companion("C10/__init__", case, sy, pre, envs, rtol=1e-12, only=("mu", "rho", "xi", "shifted-x"))


def sec_formulas(rep):
    from yadism.esf import tmc, conv

    sy = H.Sy()
    pre = [sy.x > 0, sy.x <= 1, sy.Q2 > 0, sy.M2target > 0]  # x = 1 included: xi(1) < 1, the formulas do not vanish there
    for kind in KINDS:
        cls = tmc.ESFTMCmap[kind]
        rep.under_contract(cls._get_result_APFEL, cls._get_result_approx, cls._get_result_exact, cls.__init__)
        for mode in (1, 2, 3):
            for flavor in ("total", "charm"):
                rep.cases += 1

                def case(sy, kind=kind, cls=cls, mode=mode, flavor=flavor):
                    sqrt, log = _fns(sy)
                    sf = SFStub(sy, kind, flavor, mode)
                    clog = []
                    mu = sy.M2target / sy.Q2
                    r, xi = spec.variables(sy.x, mu, sqrt)
                    with rebind(*_shim(sy), (conv, "convolution", make_conv_stub(sy, clog))):
                        o = cls(sf, {"x": sy.x, "Q2": sy.Q2})
                        res = o.get_result()
                    # which basis functions contribute is decided by the real code (is_below_x); the
                    # spec sums over the nodes whose basis function is not below xi
                    out = []
                    for key, tag in (((0, 0, 0, 0), "F"), ((1, 0, 0, 0), "F1")):
                        tot = 0
                        for coeff, term in spec.formula(kind, mode, sy.x, mu, sqrt, log):
                            if term[0] == "F":
                                tot = tot + coeff * sy.U(tag, f"{term[1]}_{flavor}", xi)
                            else:
                                _, k2, w = term
                                acc = 0
                                for j, xj in enumerate(NODES):
                                    if BF(j).is_below_x(xi):
                                        continue
                                    acc = acc + sy.U("I", w, j) * sy.U(tag, f"{k2}_{flavor}", xj)
                                tot = tot + coeff * acc
                        out.append((f"value{key}", res.orders[key][0], tot))
                    out.append(("order-keys", sorted(res.orders), [(0, 0, 0, 0), (1, 0, 0, 0)]))
                    out.append(("x-restored", res.x, sy.x))
                    out.append(("Q2-restored", res.Q2, sy.Q2))
                    # every structure-function request carries the observable's own heavyness and Q2
                    out.append(("requests: same heavyness", sorted({n.split("_")[1] for n, *_ in sf.requests}), [flavor]))
                    out.append(("requests: Q2", all((k["Q2"] is sy.Q2) or (sy.is_numeric and k["Q2"] == sy.Q2) for _, k, *_ in sf.requests), True))
                    out.append(("integration point is xi", all((xx is R.lift(xi)) or sy.is_numeric for _, _, xx in clog), True))
                    return out

                rep.check(f"C10/{cls.__name__}/mode={mode}({['','APFEL','approx','exact'][mode]})/{flavor}/support-width={WIDTH[0]}", case, sy, pre, sides=(flavor == "total"), max_paths=64, exc_ok=lambda p: isinstance(p.exc, ValueError) and "outside xgrid" in str(p.exc))
    rep.sample({"formula": "ESFTMC_F2 exact: result == x^2/(xi^2 r^3) F2(xi) + 6 mu x^3/r^4 sum_j I[1/u^2](j) F2(x_j) + 12 mu^2 x^4/r^5 sum_j I[(u-xi)/u^2](j) F2(x_j) for all x, Q2, M2 > 0, with r = sqrt(1+4x^2 mu) reduced by r^2 = 1+4x^2mu"})


def sec_dispatch(rep):
    """get_result dispatch on TMC in {1,2,3}; 0 -> RuntimeError; anything else -> ValueError."""
    from yadism.esf import tmc

    rep.under_contract(tmc.EvaluatedStructureFunctionTMC.get_result)
    sy = H.Sy()
    for mode, exc in ((0, RuntimeError), (4, ValueError), (-1, ValueError)):
        rep.cases += 1
        sf = SFStub(sy.numeric({}), "F2", "total", mode)
        o = tmc.ESFTMC_F2(sf, {"x": 0.3, "Q2": 10.0})
        try:
            o.get_result()
            ok = False
        except exc:
            ok = True
        except Exception:  # noqa
            ok = False
        rep.add(ob_eval(f"C10/get_result/TMC={mode}-raises-{exc.__name__}", ok))
    for mode, meth in ((1, "_get_result_APFEL"), (2, "_get_result_approx"), (3, "_get_result_exact")):
        rep.cases += 1
        sf = SFStub(sy.numeric({}), "F2", "total", mode)
        o = tmc.ESFTMC_F2(sf, {"x": 0.3, "Q2": 10.0})
        called = []
        from yadism.esf.result import ESFResult

        for m in ("_get_result_APFEL", "_get_result_approx", "_get_result_exact"):
            setattr(o, m, lambda m=m: called.append(m) or ESFResult(0.9, 1.0, None))
        r = o.get_result()
        rep.add(ob_eval(f"C10/get_result/TMC={mode}-dispatch", called == [meth] and r.x == 0.3 and r.Q2 == 10.0, detail=str(called)))


def sec_sf_dispatch(rep):
    """StructureFunction.get_esf / load: with TMC switched on in the card and use_raw=False the object
    handed out for F2, FL, F3 and g1 IS the target-mass-corrected one (the class of tmc.ESFTMCmap for
    that kind, same kinematics), for its own name and for a sibling's; use_raw=True and TMC=0 give the
    uncorrected object; kinds without a correction (gL, g4) are refused, not silently left uncorrected;
    and cross sections ask with use_raw=False by keyword (xs.CrossSection.get_esf, C11)."""
    from yadism.esf import tmc, esf as esfmod
    from yadism.sf import StructureFunction

    from . import c11
    from .c16 import _Runner

    rep.under_contract(StructureFunction.get_esf, StructureFunction.load)
    sy = H.Sy()
    kin = {"x": 0.3, "Q2": 10.0}
    for kind in H.SF_KINDS:
        for mode in (0, 1, 2, 3):
            for flavor in ("total", "charm"):
                rep.cases += 1
                on = H.obs_name(kind, flavor)
                want = "raw" if mode == 0 else ("tmc" if kind in tmc.ESFTMCmap else "refused")
                got = {}
                for how in ("get_esf", "load", "sibling", "use_raw"):
                    r = _Runner(H.make_configs(sy, symbolic=False, tmc=mode))
                    try:
                        if how == "get_esf":
                            o = r.get_sf(on).get_esf(on, dict(kin), use_raw=False)
                        elif how == "load":
                            sf = r.get_sf(on)
                            sf.load([dict(kin)])
                            o = sf.elements[0]
                        elif how == "sibling":  # asked through another structure function's manager
                            o = r.get_sf(H.obs_name("F2" if kind != "F2" else "FL", flavor)).get_esf(on, dict(kin), use_raw=False)
                        else:
                            o = r.get_sf(on).get_esf(on, dict(kin), use_raw=True)
                        got[how] = "tmc" if isinstance(o, tmc.EvaluatedStructureFunctionTMC) and (kind not in tmc.ESFTMCmap or type(o) is tmc.ESFTMCmap[kind]) and (o.x, o.Q2) == (0.3, 10.0) else ("raw" if type(o) is esfmod.EvaluatedStructureFunction and (o.x, o.Q2) == (0.3, 10.0) else f"other:{type(o).__name__}")
                    except NotImplementedError:
                        got[how] = "refused"
                    except Exception as e:  # noqa
                        got[how] = f"raised {type(e).__name__}"
                # the manager's hand-over to a sibling passes no use_raw on (TMC integrals ask for raw
                # siblings): it answers with the raw object -- which is why callers that need the
                # corrected one go to the manager of the structure function itself (C11 history)
                exp = {"get_esf": want, "load": want, "sibling": "raw", "use_raw": "raw"}
                ok = got == exp
                rep.add(ob_eval(f"C10/StructureFunction.get_esf/TMC={mode}/{kind}_{flavor}/corrected object iff TMC on and not use_raw", ok, detail=str(got), inputs={} if ok else {"kind": kind, "heavyness": flavor, "TMC": mode, "observed": str(got), "expected": str(exp)}, replay={"confirmed": True, "python": f"runner with TMC={mode}: get_sf({kind}_{flavor}).get_esf(..., use_raw=False) / load / sibling / use_raw=True"}))
    # cross sections: every request by keyword use_raw=False to the manager asked for
    c11.sec_xs(rep)
    # 'evaluated at the shifted point xi' presupposes that the object answering a request for xi (or for
    # a node x_j) is the one for exactly that point: the cache contract of get_esf (C14), re-discharged
    from . import c14

    c14.sec_sf_cache(rep)


def sec_convolve(rep):
    """_convolve_FX: xi below the grid -> ValueError; otherwise sum over the basis functions not
    below xi of convolution(RSL(ker,[xi]), xi, p_j) * F_kind(x_j) with the observable's heavyness."""
    from yadism.esf import tmc, conv

    rep.under_contract(tmc.EvaluatedStructureFunctionTMC._convolve_FX, tmc.EvaluatedStructureFunctionTMC._h2, tmc.EvaluatedStructureFunctionTMC._g2, tmc.EvaluatedStructureFunctionTMC._k1, tmc.EvaluatedStructureFunctionTMC._k2, tmc.ESFTMC_F3._h3)
    sy = H.Sy(extra="xi")
    pre = [sy.xi > 0, sy.xi < 1, sy.Q2 > 0, sy.x > sy.xi, sy.x <= 1]  # xi < x at finite target mass: the integrals start at xi, not at x
    for kind in KINDS:
        for meth, expk, expw in (("_h2", "F2", "1/u^2"), ("_g2", "F2", "(u-xi)/u^2"), ("_k1", "g1", "1/u^2"), ("_k2", "g1", "ln(u/xi)/u^2"), ("_h3", "F3", "1/u^2")):
            if meth == "_h3" and kind != "F3":
                continue
            if meth in ("_k1", "_k2") and kind != "g1":
                continue
            if meth == "_g2" and kind not in ("F2", "FL"):
                continue
            if meth == "_h2" and kind not in ("F2", "FL"):
                continue
            rep.cases += 1

            def case(sy, kind=kind, meth=meth, expk=expk, expw=expw):
                sf = SFStub(sy, kind, "bottom", 3)
                clog = []
                o = tmc.ESFTMCmap[kind].__new__(tmc.ESFTMCmap[kind])
                o.sf, o.xi, o.Q2, o.x = sf, sy.xi, sy.Q2, sy.x
                with rebind(*_shim(sy), (conv, "convolution", make_conv_stub(sy, clog))):
                    res = getattr(o, meth)()
                acc = 0
                n = 0
                for j, xj in enumerate(NODES):
                    if BF(j).is_below_x(sy.xi):
                        continue
                    n += 1
                    acc = acc + sy.U("I", expw, j) * sy.U("F", f"{expk}_bottom", xj)
                reqs = sorted((nme, k["x"]) for nme, k, *_ in sf.requests)
                return [
                    ("value", res.orders.get((0, 0, 0, 0), (0, 0))[0], acc),
                    ("requests at the grid nodes of contributing basis functions, own heavyness", reqs, sorted((f"{expk}_bottom", xj) for j, xj in enumerate(NODES) if not BF(j).is_below_x(sy.xi))),
                    ("kernels and points", [(w, j) for w, j, _ in clog], [(expw, j) for j in range(len(NODES)) if not BF(j).is_below_x(sy.xi)]),
                ]

            rep.check(f"C10/{kind}.{meth}/post(integral of {expk} with weight {expw})/support-width={WIDTH[0]}", case, sy, pre + [sy.xi >= NODES[0]], max_paths=64)
    rep.cases += 1

    def case_low(sy):
        sf = SFStub(sy, "F2", "total", 3)
        o = tmc.ESFTMC_F2.__new__(tmc.ESFTMC_F2)
        o.sf, o.xi, o.Q2, o.x = sf, sy.xi, sy.Q2, sy.xi
        return o._h2(), None

    rep.check("C10/_convolve_FX/xi-below-grid-rejected", case_low, sy, pre + [sy.xi < NODES[0]], exc_ok=lambda p: isinstance(p.exc, ValueError))


def sec_limit(rep):
    """M -> 0: at mu = 0 (rho = 1, xi = x) every formula is the uncorrected F(x); together with the
    definedness obligations (rho, xi, 1+rho > 0 for M2 >= 0) the coefficients are continuous there."""
    from yadism.esf import tmc, conv

    sy = H.Sy()
    pre = [sy.x > 0, sy.x < 1, sy.Q2 > 0]
    for kind in KINDS:
        for mode in (1, 2, 3):
            rep.cases += 1

            def case(sy, kind=kind, mode=mode):
                sf = SFStub(sy, kind, "total", mode)
                sf.runner.configs.M2target = 0.0
                clog = []
                with rebind(*_shim(sy), (conv, "convolution", make_conv_stub(sy, clog))):
                    o = tmc.ESFTMCmap[kind](sf, {"x": sy.x, "Q2": sy.Q2})
                    res = o.get_result()
                return [("xi=x", o.xi, sy.x), ("rho=1", o.rho, 1), ("result = F(x)", res.orders[(0, 0, 0, 0)][0], sy.U("F", f"{kind}_total", o.xi))]

            rep.check(f"C10/limit-M->0/{kind}/mode={mode}", case, sy, pre, kind="lemma", max_paths=64, exc_ok=lambda p: isinstance(p.exc, ValueError) and "outside xgrid" in str(p.exc))


def sec_selfcheck(rep, seed):
    from pvc.core import Report
    from yadism.esf import tmc, conv

    sy = H.Sy()
    scratch = Report(rep.pid, rep.tier, seed)

    def case(sy):
        sqrt, log = _fns(sy)
        sf = SFStub(sy, "F2", "total", 1)
        mu = sy.M2target / sy.Q2
        r, xi = spec.variables(sy.x, mu, sqrt)
        with rebind(*_shim(sy), (conv, "convolution", make_conv_stub(sy, []))):
            o = tmc.ESFTMC_F2(sf, {"x": sy.x, "Q2": sy.Q2})
            o._factor_h2 = 4.0 * o.mu * o.x**3 / (o.rho**4)  # canary: 4 instead of 6
            res = o.get_result()
        tot = 0
        for coeff, term in spec.formula("F2", 1, sy.x, mu, sqrt, log):
            if term[0] == "F":
                tot = tot + coeff * sy.U("F", "F2_total", xi)
            else:
                tot = tot + coeff * sum(sy.U("I", term[2], j) * sy.U("F", "F2_total", xj) for j, xj in enumerate(NODES) if not BF(j).is_below_x(xi))
        return res.orders[(0, 0, 0, 0)][0], tot

    scratch.check("canary", case, sy, [sy.x > 0, sy.x < 1, sy.Q2 > 0, sy.M2target > 0], max_paths=64)
    bad = [o for o in scratch.obs if o.status == REFUTED]
    rep.add(Ob("C10/selfcheck/canary-wrong-h2-factor-refuted", "canary", PROVED if bad else "error", "ratfun", 0, f"refuted on {len(bad)} paths; replay confirmed={[o.replay.get('confirmed') for o in bad][:3]}"))


def sec_domain(rep):
    """The shifted point xi (and every grid node a TMC integral asks for) is a legal request or is
    rejected: the kinematic-domain contracts of the ESF / TMC constructors (C16), re-discharged here
    because 'evaluated at xi' presupposes that a xi below the grid is refused, not answered."""
    from . import c16

    c16.sec_kinematics(rep)


def sec_runner_wiring(rep):
    """Runner.__init__ hands the TMC constructors exactly the card's target mass and mode:
    configs.M2target = MP**2 (MP = 0 included: 'no correction' must stay reachable from a card)
    and configs.TMC = TMC.  sec_init / sec_dispatch read these two attributes symbolically."""
    from yadism import runner

    rep.under_contract(runner.Runner.__init__)
    for mp in (0, 0.0, 1e-8, 0.3, 0.938, 2, np.float64(0.0), np.float64(1.5)):
        for tmc_mode in (0, 1, 2, 3):
            rep.cases += 1
            try:
                # (the mass is the NUCLEON mass whatever the target: x is the per-nucleon Bjorken x)
                tgt = ("proton", "iron", "lead", {"Z": 3.0, "A": 7.0}, "isoscalar")[(tmc_mode + int(mp * 1000)) % 5]
                r = runner.Runner(H.base_theory(MP=mp, TMC=tmc_mode), H.base_obs(TargetDIS=tgt))
                got = (r.configs.M2target, r.configs.TMC)
                ok = got[0] == mp**2 and got[1] == tmc_mode
                detail = f"configs.M2target={got[0]!r} configs.TMC={got[1]!r}"
            except Exception as e:  # noqa
                ok, detail = False, f"{type(e).__name__}: {e}"
            rep.add(ob_eval(f"C10/Runner.__init__/configs.M2target = MP**2, configs.TMC = TMC/MP={mp!r}:{type(mp).__name__}/TMC={tmc_mode}", ok, detail=detail, inputs={} if ok else {"MP": repr(mp), "TMC": tmc_mode, "observed": detail, "expected_M2target": repr(mp**2)}))


def run(rep, tier, seed, only=None):
    from pvc.core import lean_lemmas

    if not only and rep.replay_target is None:
        rep.add(lean_lemmas("C10", ["tmc_change_of_variables"], tier))
    rep.assume(
        "spec/tmc.py typed from Schienbein et al. (exact + approximate), Bluemlein-Tkabladze / Accardi-Melnitchouk (g1), in yadism's stored conventions F2, FL, xF3, 2x g1",
        "L-cov: the kernel table k(z) = (xi/z) w(xi/z) is machine-checked (C10/L-cov/*); the substitution rule int_xi^1 G(u) du = int_xi^1 dz/z (xi/z) G(xi/z) for G continuous on [xi,1] is machine-checked by Lean 4 + Mathlib in the thorough tier (lemmas/Lemmas.lean, theorem tmc_change_of_variables); an assumption in the quick tier",
        "APFEL mode is specified as 'exact with the nested integral dropped' (docs/theory/misc.rst)",
        "structure functions and convolution integrals are abstract (contracts of sf.get_esf and conv.convolution); eko basis support is a 4-node stub",
        "sqrt atom carries rho^2 = 1 + 4 x^2 M2/Q2; continuity at M=0 from definedness of all coefficients for M2 >= 0",
    )
    rep.stub("sf.StructureFunction -> SFStub (abstract structure functions)", "conv.convolution -> abstract I[weight](j), weight decided semantically from the kernel passed", "eko interpolator -> 4-node stub")
    for nm, f in (("kernels", sec_kernels), ("lcov", sec_lcov), ("init", sec_init), ("formulas", sec_formulas), ("dispatch", sec_dispatch), ("sfdispatch", sec_sf_dispatch), ("convolve", sec_convolve), ("limit", sec_limit), ("domain", sec_domain), ("runnerwiring", sec_runner_wiring)):
        if only and only not in nm:
            continue
        if nm in ("formulas", "convolve"):
            for w_ in (1, 2):
                WIDTH[0] = w_
                rep.add(guarded(f"C10/{nm}[support-width={w_}]", lambda f=f: (f(rep), [])[1]))
            WIDTH[0] = 1
            continue
        rep.add(guarded(f"C10/{nm}", lambda f=f: (f(rep), [])[1]))
    if not only and rep.replay_target is None:
        rep.add(guarded("C10/selfcheck", lambda: (sec_selfcheck(rep, seed), [])[1]))
    rep.extra["rule"] = "cases = 4 kinds x 3 TMC modes x heavyness; x, Q2, M2 symbolic; paths split on which basis functions lie below xi"
