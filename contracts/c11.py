"""C11 -- cross sections are the documented combinations of structure functions.

Functions under contract: esf.exs.{xs_coeffs_unpolarized, xs_coeffs_polarized,
EvaluatedCrossSection.__init__/get_result/alpha_qed_power}, xs.CrossSection.{load, get_esf, get_result},
ESFResult.{__add__, __mul__, __rmul__} (through get_result).
Oracle: spec/xs.py (docs/source/theory/intro.rst).
"""
from __future__ import annotations

import numpy as np

from pvc.core import ob_eval, guarded, Ob, PROVED, REFUTED
from pvc.sym import R, Not, Eq
from spec import xs as spec

from . import harness as H

LEVEL = "proof"
UNPOL = ("XSHERANC", "XSHERANCAVG", "XSHERACC", "XSCHORUSCC", "XSNUTEVCC", "XSNUTEVNU", "FW", "F1", "XSFPFCC")


def kin_pre(sy):
    return [sy.y > 0, sy.y <= 1, sy.x > 0, sy.x <= 1, sy.Q2 > 0, sy.M2target > 0, sy.MW2 > 0, sy.GF > 0]


def _sqrt(sy):
    import math

    return math.sqrt if sy.is_numeric else (lambda v: R.lift(v).sqrt())


def sec_coeffs(rep):
    from yadism.esf import exs

    rep.under_contract(exs.xs_coeffs_unpolarized, exs.xs_coeffs_polarized)
    sy = H.Sy()
    pre = kin_pre(sy)
    for kind in UNPOL:
        for proj, pid in H.PROJECTILES.items():
            rep.cases += 1

            def case(sy, kind=kind, pid=pid):
                params = dict(projectilePID=pid, M2target=sy.M2target, M2W=sy.MW2, GF=sy.GF)
                got = exs.xs_coeffs_unpolarized(kind, sy.y, x=sy.x, Q2=sy.Q2, params=params)
                exp = spec.coeffs(kind, sy.y, sy.x, sy.Q2, pid, sy.M2target, sy.MW2, sy.GF, sqrt=_sqrt(sy))
                return [("shape", np.shape(got), (3,))] + [(f"c{i}", got[i], exp[i]) for i in range(3)]

            # FW needs the physical-region assumption that its own denominator does not vanish
            extra = [Not(Eq(sy.y**2 / 2 + (1 - sy.y) - sy.M2target * (sy.x * sy.y) ** 2 / sy.Q2, 0))] if kind == "FW" else []
            rep.check(f"C11/xs_coeffs_unpolarized/post/{kind}/{proj}", case, sy, pre + extra, sides=(kind != "FW"))
            if proj in ("electron", "antineutrino"):
                # float companion at extreme but legal kinematics (tiny and nearly maximal inelasticity,
                # very large Q2, small x): the coefficients keep their digits
                base = dict(M2target=0.88, MW2=6464.0, GF=1.1663787e-05)
                envs = [dict(base, x=0.3, Q2=10.0, y=0.5), dict(base, x=1e-5, Q2=1e6, y=1e-6), dict(base, x=0.9, Q2=2.0, y=0.999999), dict(base, x=0.01, Q2=1e4, y=1e-3), dict(base, x=0.5, Q2=1e2, y=1e-9)]
                rep.float_companion(f"C11/xs_coeffs_unpolarized/{kind}/{proj}", case, sy, pre + extra, envs, rtol=1e-10)
    for kind in ("XSHERANC", "XSHERACC", "XSCHORUSCC"):
        rep.check(f"C11/xs_coeffs_unpolarized/params-required/{kind}", lambda sy, kind=kind: (exs.xs_coeffs_unpolarized(kind, sy.y, x=sy.x, Q2=sy.Q2, params=None), None), sy, pre, exc_ok=lambda p: isinstance(p.exc, ValueError))
    rep.cases += 1
    rep.check("C11/xs_coeffs_polarized/post/g5", lambda sy: [(f"c{i}", exs.xs_coeffs_polarized("g5")[i], spec.coeffs_polarized("g5")[i]) for i in range(3)], sy, pre)
    rep.check("C11/xs_coeffs_polarized/unknown-raises", lambda sy: (exs.xs_coeffs_polarized("XSHERANC"), None), sy, pre, exc_ok=lambda p: isinstance(p.exc, ValueError))
    rep.sample({"coeffs": "xs_coeffs_unpolarized('XSCHORUSCC', y, x, Q2, params) == N*(1, -yL/y+, (-1)^l y-/y+) with N = conv*GF^2*sqrt(M2)/(2pi(1+Q2/MW2)^2)*y+, y+ = 1+(1-y)^2-2(xyM)^2/Q2, for all real y,x,Q2,M2,MW2,GF"})


class _FakeSF:
    def __init__(self, res):
        self.res = res

    def get_result(self):
        return self.res


def sec_get_result(rep):
    """EvaluatedCrossSection.get_result: sigma.orders[k] = c1 SF1[k] + c2 SF2[k] + c3 SF3[k] on the
    union of keys; the three SFs are requested with the same heavyness and the same kinematics
    object; SF3 requested iff c3 != 0; x, y, Q2, nf copied."""
    from yadism.esf import exs
    from yadism.esf.result import ESFResult, EXSResult

    rep.under_contract(exs.EvaluatedCrossSection.__init__, exs.EvaluatedCrossSection.get_result, exs.EvaluatedCrossSection.alpha_qed_power, ESFResult.__add__, ESFResult.__mul__, ESFResult.__rmul__)
    rep.stub("get_esf -> abstract structure functions with symbolic per-order values v[kind,key], e[kind,key] (contract of sf.get_esf: C14/C10)")
    sy = H.Sy()
    pre = kin_pre(sy)
    keysets = {0: [(0, 0, 0, 0), (1, 0, 0, 0)], 1: [(1, 0, 0, 0)], 2: [(0, 0, 0, 0), (1, 0, 0, 0), (1, 0, 1, 0)]}
    # the combination is the same at every perturbative order and with or without target-mass
    # corrections: FL is asked for at LO too (it does not vanish there for massive quarks)
    variants = [(kind, proj, pid, flavor, 1, 0) for kind in UNPOL + ("g5",) for proj, pid in H.PROJECTILES.items() for flavor in ("total", "charm", "light", "bottomlight")]
    variants += [(kind, proj, pid, flavor, pto, tmc) for kind in UNPOL + ("g5",) for proj, pid in (("electron", 11), ("antineutrino", -12)) for flavor in ("total", "charm") for pto, tmc in ((0, 0), (0, 2), (3, 0))]
    variants = [v + ("ZM-VFNS",) for v in variants]
    # ... and in a scheme where the tagged quark is massive (its F3 does not vanish in NC: the
    # heavy-quark-initiated kernels carry it)
    variants += [(kind, proj, pid, flavor, 1, 0, "FFNS") for kind in UNPOL + ("g5",) for proj, pid in (("electron", 11), ("positron", -11)) for flavor in ("charm", "bottom", "total")]
    for kind, proj, pid, flavor, pto, tmc, scheme in variants:
        for _once in (0,):
            for _once2 in (0,):
                rep.cases += 1

                def case(sy, kind=kind, proj=proj, pid=pid, flavor=flavor, pto=pto, tmc=tmc, scheme=scheme):
                    cfg = H.make_configs(sy, process="NC", projectile=proj, pto=pto, tmc=tmc, scheme=scheme)
                    kin = {"x": sy.x, "Q2": sy.Q2, "y": sy.y}
                    requests = []
                    basis = ("g4", "gL", "g1") if kind == "g5" else ("F2", "FL", "F3")

                    def get_esf(on, k):
                        requests.append((on.name, k is kin))
                        i = basis.index(on.kind)
                        orders = {key: (sy.U("v", on.kind, str(key)), sy.U("e", on.kind, str(key))) for key in keysets[i]}
                        return _FakeSF(ESFResult(k["x"], k["Q2"], 4, orders))

                    from pvc.stubs import NumpyShim, rebind as _rebind

                    with _rebind(*([] if sy.is_numeric or not hasattr(exs, "np") else [(exs, "np", NumpyShim())])):
                        xs = exs.EvaluatedCrossSection(kin, H.obs_name(kind, flavor), cfg, get_esf)
                        sigma = xs.get_result()
                    if kind == "g5":
                        c = spec.coeffs_polarized(kind)
                    else:
                        c = spec.coeffs(kind, sy.y, sy.x, sy.Q2, pid, sy.M2target, sy.MW2, sy.GF, sqrt=_sqrt(sy))
                    need3 = not (isinstance(c[2], int) and c[2] == 0)
                    exp_req = [(f"{basis[0]}_{flavor}", True), (f"{basis[1]}_{flavor}", True)] + ([(f"{basis[2]}_{flavor}", True)] if need3 else [])
                    out = [
                        ("requests(same heavyness, same kinematics object)", requests, exp_req),
                        ("type", type(sigma) is EXSResult, True),
                        ("x", sigma.x, sy.x), ("Q2", sigma.Q2, sy.Q2), ("y", sigma.y, sy.y), ("nf", sigma.nf, 4),
                    ]
                    allkeys = sorted(set(keysets[0]) | set(keysets[1]) | (set(keysets[2]) if need3 else set()))
                    out.append(("order-keys", sorted(sigma.orders), allkeys))
                    for key in allkeys:
                        if key not in sigma.orders:
                            continue
                        v = 0
                        for i in range(3):
                            if key in keysets[i] and (i < 2 or need3):
                                v = v + c[i] * sy.U("v", basis[i], str(key))
                        out.append((f"value{key}", sigma.orders[key][0], v))
                    return out

                extra = [Not(Eq(sy.y**2 / 2 + (1 - sy.y) - sy.M2target * (sy.x * sy.y) ** 2 / sy.Q2, 0))] if kind == "FW" else []
                rep.check(f"C11/get_result/post/{kind}_{flavor}/{proj}" + ("" if (pto, tmc) == (1, 0) else f"/pto={pto},TMC={tmc}") + ("" if scheme == "ZM-VFNS" else f"/{scheme}"), case, sy, pre + extra)


def sec_xs(rep):
    """xs.CrossSection: load builds one EvaluatedCrossSection per kinematic point bound to
    get_esf; get_esf delegates to runner.get_sf(name).get_esf(name, kin, use_raw=False) so that
    TMC applies; get_result maps over the elements in order."""
    from yadism import xs
    from yadism.esf import exs

    rep.under_contract(xs.CrossSection.load, xs.CrossSection.get_esf, xs.CrossSection.get_result)
    calls = []

    class SFStub:
        def __init__(self, name):
            self.name = name

        def get_esf(self, on, kin, *a, **kw):
            calls.append((self.name, on.name, kin, a, kw))
            return ("esf", on.name)

    class RunnerStub:
        configs = object()

        def get_sf(self, on):
            return SFStub(on.name)

    r = RunnerStub()
    o = xs.CrossSection(H.obs_name("XSHERANC", "charm"), r)
    kins = [{"x": 0.1, "Q2": 10.0, "y": 0.5}, {"x": 0.2, "Q2": 20.0, "y": 0.3}]
    o.load(kins)
    rep.cases += 1
    ok = len(o) == 2 and all(isinstance(e, exs.EvaluatedCrossSection) for e in o.elements) and all(e.kin is k for e, k in zip(o.elements, kins)) and all(e.get_esf == o.get_esf for e in o.elements) and all(e.info.configs is r.configs for e in o.elements)
    rep.add(ob_eval("C11/CrossSection.load/post", ok, detail="one EvaluatedCrossSection per kinematics, same kin object, bound to self.get_esf and the runner configs"))
    name = H.obs_name("F2", "charm")
    res = o.get_esf(name, kins[0])
    ok = res == ("esf", "F2_charm") and calls == [("F2_charm", "F2_charm", kins[0], (), {"use_raw": False})] and calls[0][2] is kins[0]
    rep.add(ob_eval("C11/CrossSection.get_esf/post", ok, detail=f"delegates with use_raw=False (TMC applies): {calls}"))
    # history: the three structure functions of one point, then another point -- EVERY request goes to
    # the manager of the structure function asked for (the manager's own hand-over to a sibling does
    # not forward use_raw=False, so a remembered manager would silently drop the TMC of FL and F3)
    del calls[:]
    seq = [("F2", kins[0]), ("FL", kins[0]), ("F3", kins[0]), ("F2", kins[1]), ("F3", kins[1]), ("FL", kins[0])]
    got = [o.get_esf(H.obs_name(k, "charm"), kin) for k, kin in seq]
    exp_calls = [(f"{k}_charm", f"{k}_charm", kin, (), {"use_raw": False}) for k, kin in seq]
    ok = got == [("esf", f"{k}_charm") for k, _ in seq] and calls == exp_calls and all(c[2] is e[2] for c, e in zip(calls, exp_calls))
    rep.cases += 1
    rep.add(ob_eval("C11/CrossSection.get_esf/history(F2, FL, F3 of one point, then other points): each request reaches the manager of the structure function asked for, with use_raw=False", ok, detail=f"(manager, requested) = {[(c[0], c[1], c[4]) for c in calls]}", inputs={} if ok else {"sequence": str([k for k, _ in seq]), "observed (manager, requested, kwargs)": str([(c[0], c[1], c[4]) for c in calls])}, replay={"confirmed": True, "python": "CrossSection(XSHERANC_charm, runner).get_esf(F2_charm, kin); .get_esf(FL_charm, kin); ..."}))
    o.exss = [type("E", (), {"get_result": lambda self, i=i: i})() for i in range(3)]
    rep.add(ob_eval("C11/CrossSection.get_result/post", o.get_result() == [0, 1, 2]))


def sec_selfcheck(rep, seed):
    from pvc.core import Report
    from canaries import c11 as canary

    sy = H.Sy()
    scratch = Report(rep.pid, rep.tier, seed)

    def case(sy):
        params = dict(projectilePID=-11, M2target=sy.M2target, M2W=sy.MW2, GF=sy.GF)
        got = canary.xs_coeffs_wrong_sign("XSHERANC", sy.y, params)
        exp = spec.coeffs("XSHERANC", sy.y, sy.x, sy.Q2, -11, sy.M2target, sy.MW2, sy.GF)
        return [(f"c{i}", got[i], exp[i]) for i in range(3)]

    scratch.check("canary", case, sy, kin_pre(sy))
    bad = [o for o in scratch.obs if o.status == REFUTED]
    good = len(bad) == 1 and bad[0].name.endswith("c2") and bad[0].replay.get("confirmed")
    rep.add(Ob("C11/selfcheck/canary-refuted-and-replayed", "canary", PROVED if good else "error", "ratfun+replay", 0, f"wrong F3 sign for antileptons: refuted={[o.name for o in bad]}"))


def run(rep, tier, seed, only=None):
    rep.assume(
        "spec/xs.py typed from docs/source/theory/intro.rst; XSFPFCC uses 4*pi (page prints 8*pi: typo, DESIGN 6)",
        "FW: the denominator y^2/2+(1-y)-(M x y)^2/Q2 is assumed non-zero (physical region)",
        "structure functions entering get_result are abstract (contract of get_esf); their content is C01-C10 matter",
        "np.pi and the conversion constants are read as the exact rationals of their doubles on both sides",
    )
    for nm, f in (("coeffs", sec_coeffs), ("get_result", sec_get_result), ("xs", sec_xs), ("names", H.observable_names_contract)):
        if only and only not in nm:
            continue
        rep.add(guarded(f"C11/{nm}", lambda f=f: (f(rep), [])[1]))
    if not only and rep.replay_target is None:
        rep.add(guarded("C11/selfcheck", lambda: (sec_selfcheck(rep, seed), [])[1]))
    rep.extra["rule"] = "cases = 10 cross-section kinds x 4 projectiles x heavyness; y, x, Q2, M2, MW2, GF symbolic"
