"""C07 -- heavyness, FONLL-part and coupling-restricted results add up.

Functions under contract: Combiner.{collect, light_component, heavylight_components,
heavy_components}, every *.kernels.generate* reached from them, Kernel, and the
nc_pos_charge early return of get_weight / get_fl11_weight (through its contract stub).

The *view* of a kernel list is the formal sum  sum_k partons_k (x) coeff-id_k , a finite map
(coefficient class + constructor data, order window) -> weight vector; two kernel lists with
equal views give equal operators entry by entry (compute_local is linear in the weights and
reads a kernel only through partons, coeff and the order window: C01).

Interpretation of "wherever the scheme defines a partition" (DESIGN C07): F_light of this code
base already contains the ZM-treated flavours and the "missing" diagrams, so in FFNS/FFN0
  view(total) = view(light) + sum over the *massive* flavours h of view(h),
and for a ZM-treated flavour h <= NfFF, view(h) is the restriction of the massless part of
view(light) to that quark's couplings (not a further summand).
"""
from __future__ import annotations

import ast
import inspect
import os

import numpy as np

from pvc.core import ob_eval, guarded, Ob, PROVED, REFUTED, UNDECIDED, parallel
from pvc.explore import explore
from pvc.sym import R

from . import harness as H
from pvc import boot

LEVEL = "proof"
FLAVOR_OF = {4: "charm", 5: "bottom", 6: "top"}


def add_views(*views):
    out = {}
    for v in views:
        for key, d in v.items():
            o = out.setdefault(key, {})
            for p, w in d.items():
                o[p] = o.get(p, 0) + w
    return out


def view_triples(prefix, got, exp):
    """Equality of two views: same coefficient ids (ignoring all-zero vectors), entry-wise identity."""
    out = []
    keys = sorted(set(got) | set(exp), key=repr)
    for key in keys:
        g, e = got.get(key, {}), exp.get(key, {})
        nm = f"{prefix}/{key[0][0]}.{key[0][1]}[{key[1]},{key[2]}]"
        for p in sorted(set(g) | set(e)):
            out.append((f"{nm}/pid={p}", g.get(p, 0), e.get(p, 0)))
    return out or [(prefix + "/both-empty", True, True)]


def get_view(sy, c, flavor, **kw):
    cfg = H.cell_configs(sy, c, **kw)
    ks, _ = H.collect(sy, cfg, c["kind"], flavor, c["nf"], what="collect")
    return H.kernel_view(ks)


def massless_part(view):
    return {k: v for k, v in view.items() if k[0][0].startswith("light.")}


def _pre(sy):
    return [sy.x > 0, sy.x <= 1, sy.Q2 > 0] + sy.mass_pre()


def raises_internal(sy, c, flavors, **kw):
    """cells whose dispatch raises are C16's matter."""
    def trial():
        for f in flavors:
            get_view(sy, c, f, **kw)

    return any(p.exc is not None for p in explore(trial, _pre(sy)))


def worker_heavyness(sub, c):
    sy = H.Sy()
    scheme, nf_ff = c["scheme"], c["nf_ff"]
    name = H.cell_name(c).replace(f"/{c['kind']}_{c['flavor']}", f"/{c['kind']}")
    cc = c["process"] == "CC"
    kw = dict(cc_spec=cc)
    if sub.replay_target is None and raises_internal(sy, c, ("total", "light", "charm", "bottom", "top"), **kw):
        sub.extra["cells_skipped_raising"] = sub.extra.get("cells_skipped_raising", 0) + 1
        return
    sub.cases += 1
    masses = {4: nf_ff < 4, 5: nf_ff < 5, 6: True} if scheme in ("FFNS", "FFN0") else None

    def case(sy, c=c):
        vt = get_view(sy, c, "total", **kw)
        vl = get_view(sy, c, "light", **kw)
        if scheme == "ZM-VFNS":
            return view_triples("total=light", vt, vl)
        vh = {h: get_view(sy, c, FLAVOR_OF[h], **kw) for h in (4, 5, 6)}
        out = view_triples("total=light+sum(massive flavours)", vt, add_views(vl, *[vh[h] for h in (4, 5, 6) if masses[h]]))
        for h in (4, 5, 6):
            if not masses[h]:
                if cc:
                    vr = get_view(sy, c, "light", cc_spec=True, ckm_only=h)
                else:
                    vr = get_view(sy, c, "light", pos_charge=FLAVOR_OF[h])
                out += view_triples(f"{FLAVOR_OF[h]}(ZM-treated)=restriction of massless light", vh[h], massless_part(vr))
        return out

    sub.check(f"C07/heavyness/{name}", case, sy, _pre(sy), kind="lemma", max_paths=64)


def worker_fonll(sub, c):
    sy = H.Sy()
    name = H.cell_name(c)
    kw = dict(cc_spec=c["process"] == "CC")
    cs = {p: dict(c, fonllparts=p) for p in ("full", "massless", "massive")}
    if sub.replay_target is None and any(raises_internal(sy, cs[p], (c["flavor"],), **kw) for p in cs):
        sub.extra["cells_skipped_raising"] = sub.extra.get("cells_skipped_raising", 0) + 1
        return
    sub.cases += 1

    def case(sy):
        v = {p: get_view(sy, cs[p], c["flavor"], **kw) for p in cs}
        return view_triples("full=massless+massive", v["full"], add_views(v["massless"], v["massive"]))

    sub.check(f"C07/fonll-parts/{name}", case, sy, _pre(sy), kind="lemma", max_paths=64)


def worker_poscharge(sub, c):
    sy = H.Sy()
    name = H.cell_name(c)
    if sub.replay_target is None and raises_internal(sy, c, (c["flavor"],)):
        sub.extra["cells_skipped_raising"] = sub.extra.get("cells_skipped_raising", 0) + 1
        return
    sub.cases += 1

    def case(sy):
        full = get_view(sy, c, c["flavor"])
        parts = [get_view(sy, c, c["flavor"], pos_charge=q) for q in ("down", "up", "strange", "charm", "bottom", "top")]
        out = view_triples("sum_q(NCPositivityCharge=q)=unrestricted", add_views(*parts), full)
        out += view_triples("'all'=unrestricted", get_view(sy, c, c["flavor"], pos_charge="all"), full)
        return out

    sub.check(f"C07/poscharge/{name}", case, sy, _pre(sy), kind="lemma", max_paths=64)


def sec_lattices(rep, tier):
    thorough = tier == "thorough"
    kinds = H.SF_KINDS if thorough else ("F2", "FL", "F3", "g1")
    ptos = ((0, 0), (1, 1), (2, 2), (3, 2), (3, 3)) if thorough else ((1, 1), (3, 2))
    # heavyness: one cell per (process, projectile, scheme, NfFF, nf, kind, orders); flavors are compared inside
    cells = [c for c in H.lattice(tier, kinds=kinds, flavors=("total",), ptos=ptos, with_fonllparts=False) if not c["scheme"].startswith("FONLL")]
    parallel(rep, cells, worker_heavyness)
    fon = [c for c in H.lattice(tier, kinds=kinds, flavors=H.HEAVYNESS if thorough else ("total", "light", "charm", "bottom"), ptos=ptos, with_fonllparts=False) if c["scheme"].startswith("FONLL")]
    parallel(rep, fon, worker_fonll)
    pc_ = [c for c in H.lattice(tier, processes=("EM", "NC"), kinds=kinds, flavors=H.HEAVYNESS if thorough else ("total", "light", "charm", "bottomlight"), ptos=ptos, with_fonllparts=False)]
    parallel(rep, pc_, worker_poscharge)
    rep.sample({"heavyness cells": len(cells), "FONLL cells": len(fon), "positivity-charge cells": len(pc_)})


def sec_poscharge_contract(rep):
    """The contract the lattice lemmas assume of the REAL coupling object: with NCPositivityCharge = p
    get_weight / get_fl11_weight return [|pid| = p] times their unrestricted value (and 'all' /
    None are the same) -- relational, so it needs no electroweak oracle."""
    from yadism.coefficient_functions.coupling_constants import CouplingConstants as CC
    from .c02 import ew_pre

    rep.under_contract(CC.get_weight, CC.get_fl11_weight)
    sy = H.Sy()
    pre = ew_pre(sy)
    names = {"down": 1, "up": 2, "strange": 3, "charm": 4, "bottom": 5, "top": 6}
    for process in ("EM", "NC"):
        for proj in ("electron", "positron", "neutrino"):
            for ct in H.COUPLING_TYPES:
                rep.cases += 1

                def case(sy, process=process, proj=proj, ct=ct):
                    free = H.coupling_constants(sy, process, proj, None)
                    allc = H.coupling_constants(sy, process, proj, "all")
                    out = []
                    for q in range(1, 7):
                        for s_ in (1, -1):
                            w = free.get_weight(s_ * q, sy.Q2, ct)
                            out.append((f"get_weight[{s_*q}]: 'all' = None", allc.get_weight(s_ * q, sy.Q2, ct), w))
                            for nm, p in names.items():
                                r = H.coupling_constants(sy, process, proj, nm)
                                out.append((f"get_weight[{s_*q}] restricted to {nm}", r.get_weight(s_ * q, sy.Q2, ct), w if p == q else 0))
                            for nf in (3, 6):
                                w11 = free.get_fl11_weight(s_ * q, sy.Q2, nf, ct)
                                out.append((f"get_fl11_weight[{s_*q},nf={nf}]: 'all' = None", allc.get_fl11_weight(s_ * q, sy.Q2, nf, ct), w11))
                                for nm, p in names.items():
                                    r = H.coupling_constants(sy, process, proj, nm)
                                    out.append((f"get_fl11_weight[{s_*q},nf={nf}] restricted to {nm}", r.get_fl11_weight(s_ * q, sy.Q2, nf, ct), w11 if p == q else 0))
                    return out

                rep.check(f"C07/poscharge-contract/{process}/{proj}/{ct}", case, sy, pre)


def sec_kernel(rep):
    """Kernel: arithmetic and order window."""
    from yadism.coefficient_functions.kernels import Kernel

    rep.under_contract(Kernel.__init__, Kernel.has_order, Kernel.__rmul__, Kernel.__neg__, Kernel.__mul__)
    sy = H.Sy(extra="a b f")

    def case(sy):
        k = Kernel({1: sy.a, -2: sy.b}, "coeff", max_order=2, min_order=1)
        m = 3.0 * k
        n = -k
        return [
            ("rmul[1]", m.partons[1], 3 * sy.a), ("rmul[-2]", m.partons[-2], 3 * sy.b), ("neg[1]", n.partons[1], -sy.a),
            ("rmul keeps window and coeff", (m.max_order, m.min_order, m.coeff), (2, 1, "coeff")),
            ("frame: original untouched", (k.partons[1], k.partons[-2]), (sy.a, sy.b)),
            ("fresh partons dict", m.partons is not k.partons, True),
            ("has_order window", [k.has_order(o) for o in range(4)], [False, True, True, False]),
            ("has_order unbounded", [Kernel({}, None).has_order(o) for o in range(4)], [True] * 4),
        ]

    rep.cases += 1
    rep.check("C07/Kernel/post", case, sy)


def sec_readset(rep):
    """Generators read the observable name only through kind / is_parity_violating (never its
    flavour), so the kernel list of a component does not depend on which heavyness asked for it."""
    import yadism.coefficient_functions as cf
    from yadism.coefficient_functions import kernels, light, heavy, asy, intrinsic

    mods = [kernels, light.kernels, heavy.kernels, asy.kernels, intrinsic.kernels]
    bad = []
    n = 0
    for m in mods:
        tree = ast.parse(inspect.getsource(m))
        for node in ast.walk(tree):
            if isinstance(node, ast.Attribute) and isinstance(node.value, ast.Attribute) and node.value.attr == "obs_name":
                n += 1
                if node.attr not in ("kind", "is_parity_violating"):
                    bad.append((m.__name__, node.attr, node.lineno))
    rep.cases += 1
    rep.add(ob_eval("C07/read-set/generators-read-only-kind-and-parity-of-obs_name", not bad and n > 5, kind="frame", detail=f"{n} reads; offending: {bad}", inputs={} if not bad else {"offending": bad}))
    # Combiner reads flavour only through flavor_family / hqnumber
    tree = ast.parse(inspect.getsource(cf.Combiner))
    attrs = sorted({node.attr for node in ast.walk(tree) if isinstance(node, ast.Attribute) and isinstance(node.value, ast.Attribute) and node.value.attr == "obs_name"})
    rep.add(ob_eval("C07/read-set/Combiner-reads-flavor_family-and-hqnumber", attrs == ["flavor_family", "hqnumber"], kind="frame", detail=str(attrs)))


def sec_selfcheck(rep, seed):
    from pvc.core import Report

    sy = H.Sy()
    scratch = Report(rep.pid, rep.tier, seed)
    c = dict(process="NC", projectile="electron", scheme="FFNS", nf_ff=3, nf=3, kind="F2", flavor="total", pto=1, pto_evol=1, fonllparts="full")

    def case(sy):
        vt = get_view(sy, c, "total")
        vl = get_view(sy, c, "light")
        vh = {h: get_view(sy, c, FLAVOR_OF[h]) for h in (4, 5)}  # canary: top forgotten
        return view_triples("total=light+charm+bottom", vt, add_views(vl, vh[4], vh[5]))

    scratch.check("canary", case, sy, _pre(sy), max_paths=64)
    bad = [o for o in scratch.obs if o.status == REFUTED]
    rep.add(Ob("C07/selfcheck/canary-missing-summand-refuted", "canary", PROVED if bad else "error", "ratfun", 0, f"refuted={len(bad)}"))


def sec_finite_kernels(rep, tier):
    """Additivity of the OPERATORS follows from additivity of the kernel lists only while every
    kernel value is finite: Runner.replace_nans_with_0 zeroes non-finite entries AFTER the kernels of
    an observable are summed, and nan_to_0(a + b) != nan_to_0(a) + nan_to_0(b) when b is NaN -- the
    total would lose its light part where a heavy kernel is NaN.  In-repo closed formulas are finite
    on their domain (C03 definedness); the one tabulated coefficient, the N3LO massive gluon/singlet
    spline of heavy/n3lo, is finite everywhere iff all its B-spline coefficients and knots are."""
    from yadism.coefficient_functions.heavy import n3lo

    rep.under_contract(n3lo.interpolator)
    n3lo.interpolators.clear()
    for coeff in ("C2g", "C2q", "CLg", "CLq"):
        for nf in (3, 4, 5):
            for var in (-1, 0, 1):
                rep.cases += 1
                try:
                    it = n3lo.interpolator(coeff, nf=nf, variation=var)
                    # inside the table, on its edges and OUTSIDE it (the coefficient functions ask at
                    # eta down to the pair threshold and up to xi/(4z)): a number everywhere
                    samples = [(xi, eta, float(np.asarray(it(xi, eta)).ravel()[0])) for xi in (1e-4, 1e-3, 0.5, 8.77, 2.0e3, 1.0e7, 1.0e9, 1.0e11) for eta in (1e-8, 1e-5, 1e-3, 1.0, 50.0, 9.9e5, 1.0e8)]
                    bad = [s_ for s_ in samples if not np.isfinite(s_[2])]
                    if hasattr(it, "get_coeffs"):  # a FITPACK spline: finite everywhere iff its coefficients and knots are
                        tx, ty = it.get_knots()
                        c = it.get_coeffs()
                        spline_ok = bool(np.isfinite(c).all() and np.isfinite(tx).all() and np.isfinite(ty).all())
                        detail = f"{c.size} spline coefficients, {int((~np.isfinite(c)).sum())} non-finite; {len(samples)} evaluations inside, on the edges of and outside the table, {len(bad)} non-finite"
                    else:
                        spline_ok = True
                        detail = f"{len(samples)} evaluations inside, on the edges of and outside the table, {len(bad)} non-finite (interpolator {type(it).__name__}: no coefficient-level argument, lattice only)"
                    ok = bool(spline_ok and not bad)
                    inputs = {} if ok else {"coeff": coeff, "nf": nf, "variation": var, "xi": (bad or samples)[0][0], "eta": (bad or samples)[0][1], "value": repr((bad or samples)[0][2])}
                except Exception as e:  # noqa
                    ok, detail, inputs = False, f"{type(e).__name__}: {e}", {"coeff": coeff, "nf": nf, "variation": var}
                rep.add(ob_eval(f"C07/finite-kernels/heavy.n3lo.interpolator({coeff}, nf={nf}, variation={var}) is finite everywhere", ok, detail=detail, inputs=inputs, replay={"confirmed": True, "python": f"from yadism.coefficient_functions.heavy.n3lo import interpolator; interpolator('{coeff}', nf={nf}, variation={var})(8.77, 1.0)"}))
    n3lo.interpolators.clear()
    # bounded companion on a real run: FFNS, three light flavours, all four orders
    import warnings

    import yadism

    pts = [{"x": 0.1, "Q2": 20.0}]
    for kind in ("F2", "FL") if tier == "thorough" else ("F2",):
        rep.cases += 1
        names = [f"{kind}_{fl}" for fl in ("total", "light", "charm", "bottom", "top")]
        try:
            with warnings.catch_warnings():
                warnings.simplefilter("ignore")
                out = yadism.run_yadism(H.base_theory(FNS="FFNS", NfFF=3, PTO=3, PTODIS=3), H.base_obs(prDIS="EM", interpolation_xgrid=[1e-3, 1e-2, 0.1, 0.3, 0.6, 1.0], interpolation_polynomial_degree=2, observables={n: pts for n in names}))
            tot = out[names[0]][0].orders
            worst, where = 0.0, None
            keys = set(tot)
            for n in names[1:]:
                keys |= set(out[n][0].orders)
            for k in sorted(keys):
                parts = sum(out[n][0].orders[k][0] for n in names[1:] if k in out[n][0].orders)
                t = tot[k][0] if k in tot else 0.0
                scale = max(1e-12, float(np.max(np.abs(parts))), float(np.max(np.abs(t))))
                dev = float(np.max(np.abs(t - parts))) / scale
                if dev > worst:
                    worst, where = dev, k
            ok = worst <= 1e-8 and (3, 0, 0, 0) in tot and float(np.max(np.abs(tot[(3, 0, 0, 0)][0]))) > 0
            detail = f"max relative deviation {worst:.2e} at order {where}; |total(3,0,0,0)|max = {float(np.max(np.abs(tot[(3, 0, 0, 0)][0]))):.3g}"
        except Exception as e:  # noqa
            ok, worst, where, detail = False, None, None, f"{type(e).__name__}: {e}"
        o = ob_eval(f"C07/bounded/real FFNS NfFF=3 run at N3LO: {kind}_total = light + charm + bottom + top per operator entry (x=0.1, Q2=20, 6-node grid)", ok, kind="bounded", detail=detail, inputs={} if ok else {"kind": kind, "x": 0.1, "Q2": 20.0, "order": str(where), "observed": detail}, replay={"confirmed": True, "python": "run_yadism(FFNS NfFF=3 PTO=3, {kind}_total/light/charm/bottom/top at x=0.1, Q2=20) and compare total with the sum"})
        o.bounded = True
        rep.add(o)


def _ops(th_over, ob_over, names, pts):
    """Real run -> {name: [orders dict per point]} (after the runner's NaN clean-up)."""
    import warnings

    import yadism

    with warnings.catch_warnings():
        warnings.simplefilter("ignore")
        out = yadism.run_yadism(H.base_theory(**th_over), H.base_obs(interpolation_xgrid=[1e-3, 1e-2, 0.1, 0.3, 0.6, 1.0], interpolation_polynomial_degree=2, observables={n: pts for n in names}, **ob_over))
    return {n: [r.orders for r in out[n]] for n in names}


def _dev(lhs, parts):
    """max relative deviation of lhs from the sum of parts over all points, order keys and entries."""
    worst, where = 0.0, None
    for i, tot in enumerate(lhs):
        keys = set(tot)
        for p in parts:
            keys |= set(p[i])
        for k in sorted(keys):
            sm = sum(p[i][k][0] for p in parts if k in p[i])
            t = tot[k][0] if k in tot else 0.0
            scale = max(1e-12, float(np.max(np.abs(sm))), float(np.max(np.abs(t))))
            d = float(np.max(np.abs(t - sm))) / scale
            if d > worst:
                worst, where = d, (i, k)
    return worst, where


def sec_real_runs(rep, tier):
    """BOUNDED companions on real runs (real LeProHQ, real quadrature, real NaN clean-up): the four
    partitions of the statement, per operator entry, on a 6-node grid at two points."""
    pts = [{"x": 0.1, "Q2": 20.0}, {"x": 0.3, "Q2": 90.0}]
    thorough = tier == "thorough"
    scen = []
    for pto in (1, 2) if thorough else (1,):
        for pr, proj in (("NC", "electron"), ("CC", "neutrino"), ("EM", "positron")) if thorough else (("NC", "electron"),):
            for kind in ("F2", "FL", "F3") if thorough else ("F2",):
                if pr == "EM" and kind == "F3":
                    continue
                for nf_ff in (3, 4):
                    massive = [f for h, f in FLAVOR_OF.items() if h > nf_ff or h == 6]
                    scen.append((f"FFNS NfFF={nf_ff} {pr} {kind} pto={pto}: total = light + {' + '.join(massive)}", dict(FNS="FFNS", NfFF=nf_ff, PTO=pto, PTODIS=pto), dict(prDIS=pr, ProjectileDIS=proj), [f"{kind}_total", f"{kind}_light"] + [f"{kind}_{f}" for f in massive], None))
                scen.append((f"ZM-VFNS {pr} {kind} pto={pto}: total = light", dict(FNS="ZM-VFNS", NfFF=4, PTO=pto, PTODIS=pto), dict(prDIS=pr, ProjectileDIS=proj), [f"{kind}_total", f"{kind}_light"], None))
    for nm, th, ob, names, _ in scen:
        rep.cases += 1
        try:
            o_ = _ops(th, ob, names, pts)
            worst, where = _dev(o_[names[0]], [o_[n] for n in names[1:]])
            ok, detail = worst <= 1e-8, f"max relative deviation {worst:.2e} at (point, order) {where}"
        except Exception as e:  # noqa
            ok, detail = False, f"{type(e).__name__}: {e}"
        o = ob_eval(f"C07/bounded/real run/{nm}", ok, kind="bounded", detail=detail, inputs={} if ok else {"scenario": nm, "observed": detail}, replay={"confirmed": True, "python": f"run_yadism(base_theory(**{th}), base_obs(**{ob}, observables={names})) at {pts}"})
        o.bounded = True
        rep.add(o)
    # FONLL parts: full = massless + massive (three runs)
    for pto in (1, 2) if thorough else (1,):
        for name in ("F2_charm", "F2_total", "FL_total") if thorough else ("F2_total",):
            rep.cases += 1
            try:
                runs = {p: _ops(dict(FNS="FONLL-FFNS", NfFF=4, PTO=pto, PTODIS=pto, FONLLParts=p), dict(prDIS="NC"), [name], pts)[name] for p in ("full", "massless", "massive")}
                worst, where = _dev(runs["full"], [runs["massless"], runs["massive"]])
                ok, detail = worst <= 1e-8, f"max relative deviation {worst:.2e} at (point, order) {where}"
            except Exception as e:  # noqa
                ok, detail = False, f"{type(e).__name__}: {e}"
            o = ob_eval(f"C07/bounded/real run/FONLL-FFNS NfFF=4 NC {name} pto={pto}: full = massless + massive", ok, kind="bounded", detail=detail, inputs={} if ok else {"observable": name, "pto": pto, "observed": detail})
            o.bounded = True
            rep.add(o)
    # coupling restriction: six restricted runs sum to the unrestricted one
    for pr in ("NC", "EM") if thorough else ("NC",):
        for name in ("F2_total", "F3_total") if thorough else ("F2_total",):
            if pr == "EM" and name.startswith("F3"):
                continue
            rep.cases += 1
            try:
                th = dict(FNS="ZM-VFNS", NfFF=5, PTO=1, PTODIS=1)
                full = _ops(th, dict(prDIS=pr), [name], pts)[name]
                parts = [_ops(th, dict(prDIS=pr, NCPositivityCharge=q), [name], pts)[name] for q in ("down", "up", "strange", "charm", "bottom", "top")]
                worst, where = _dev(full, parts)
                ok, detail = worst <= 1e-8, f"max relative deviation {worst:.2e} at (point, order) {where}"
            except Exception as e:  # noqa
                ok, detail = False, f"{type(e).__name__}: {e}"
            o = ob_eval(f"C07/bounded/real run/ZM-VFNS {pr} {name} NLO: sum of the six coupling-restricted runs = unrestricted run", ok, kind="bounded", detail=detail, inputs={} if ok else {"observable": name, "process": pr, "observed": detail})
            o.bounded = True
            rep.add(o)


def run(rep, tier, seed, only=None):
    rep.assume(
        "finite kernels: additivity of the kernel lists lifts to the operators because the NaN clean-up acts after the sum and is the identity on finite values -- in-repo formulas finite on their domain (C03), the tabulated N3LO massive coefficient finite everywhere (checked: all B-spline coefficients finite), LeProHQ values finite away from the documented small-x region (A-ext, unchecked)",
        "views: equal (coefficient class, constructor data, order window) denote equal distributions (read-set lemma + C03); compute_local is linear in the parton weights (C01)",
        "NC/EM weights are the uninterpreted contract values w(|pid|,type) of get_weight with the nc_pos_charge early return [|pid|=q]*w (proved under C02); CC weights are their contract values 2*sum(masked |V|^2) with a symbolic CKM matrix",
        "interpretation of the FFNS partition as in DESIGN C07 (massive flavours are summands; ZM-treated flavours are restrictions of the massless light part; missing diagrams live in F_light)",
        "cells whose dispatch raises are C16's matter and are skipped here (counted)",
    )
    rep.stub("CouplingConstants -> WStub", "eko nf_default -> enumerated nf", "LeProHQ/adani/splines never evaluated (only kernels are collected)")
    for nm, f in (("lattices", lambda r: sec_lattices(r, tier)), ("poscharge", sec_poscharge_contract), ("kernel", sec_kernel), ("readset", sec_readset), ("weightsframe", H.weights_frame), ("names", H.observable_names_contract), ("xslift", lambda r: __import__("contracts.c11", fromlist=["x"]).sec_get_result(r)), ("schemedispatch", lambda r: H.scheme_families(r, tier)), ("finitekernels", lambda r: sec_finite_kernels(r, tier)), ("computelocal", lambda r: __import__("contracts.c01", fromlist=["x"]).sec_compute_local(r)), ("realruns", lambda r: sec_real_runs(r, tier))):
        if only and only not in nm:
            continue
        rep.add(guarded(f"C07/{nm}", lambda f=f: (f(rep), [])[1]))
    if not only and rep.replay_target is None:
        rep.add(guarded("C07/selfcheck", lambda: (sec_selfcheck(rep, seed), [])[1]))
    rep.extra["rule"] = "cases = process x projectile x scheme x NfFF x nf x kind x heavyness x (pto,pto_evol); weights symbolic/uninterpreted"
