"""C14 -- results do not depend on request history or cache state.

Deductive content: every cached value is a function of its key, and every key determines the
inputs of the computation; history independence is then an induction over the public
operations (each preserves the invariant, and what it returns is equal to a fresh computation).

Functions under contract / invariants:
  sf.StructureFunction.{get_esf, load, get_result, drop_cache}   Inv: cache[key] == fresh(kin(key), tmc(key))
  esf.EvaluatedStructureFunction.{compute_local (memo flag), get_result (deep copy)}
  ScaleVariations.compute_raw          operators[(label, nf)], labels unique across tables
  heavy.n3lo.interpolator              interpolators[file name], name determined by all arguments
  Runner.{get_sf, get_result, drop_cache}   results placed by original index for every Q2 ordering
  frame: no other module-level mutable state is written (AST write-set scan)
"""
from __future__ import annotations

import ast
import copy
import itertools
import os

import numpy as np

from pvc.core import ob_eval, ob_identity, guarded, Ob, PROVED, REFUTED, UNDECIDED
from pvc.explore import explore
from pvc.stubs import rebind
from pvc.sym import R

from . import harness as H
from pvc import boot

LEVEL = "proof"


class CacheProbe(dict):
    """dict that records the keys used for lookups and stores."""

    def __init__(self):
        super().__init__()
        self.looked, self.stored = [], []

    def __getitem__(self, k):
        self.looked.append(k)
        return super().__getitem__(k)

    def __setitem__(self, k, v):
        self.stored.append(k)
        super().__setitem__(k, v)


class _Runner:
    def __init__(self, cfg):
        self.configs = cfg
        self.sfs = {}

    def get_sf(self, on):
        from yadism.sf import StructureFunction

        if on.name not in self.sfs:
            self.sfs[on.name] = StructureFunction(on, self)
        return self.sfs[on.name]


def sec_sf_cache(rep):
    """The cache key of get_esf determines the kinematics by *name* (not by position in the dict)
    and the TMC flag; the returned object is the one a fresh request would build."""
    from yadism.sf import StructureFunction
    from yadism.esf import esf as esfmod, tmc as tmcmod

    rep.under_contract(StructureFunction.get_esf, StructureFunction.load, StructureFunction.get_result, StructureFunction.drop_cache)
    sy = H.Sy(extra="X Q Y")
    pre = [sy.X > 0, sy.X <= 1, sy.Q > 0, sy.X >= min(H.GRID), sy.M2target > 0]
    orders = {"x,Q2": lambda s: {"x": s.X, "Q2": s.Q}, "Q2,x": lambda s: {"Q2": s.Q, "x": s.X}, "x,Q2,y": lambda s: {"x": s.X, "Q2": s.Q, "y": s.Y}, "y,Q2,x": lambda s: {"y": s.Y, "Q2": s.Q, "x": s.X}}
    for tmc in (0, 1, 3):
        for use_raw in (True, False):
            rep.cases += 1

            def case(sy, tmc=tmc, use_raw=use_raw):
                cfg = H.make_configs(sy, symbolic=True, tmc=tmc)
                keys = {}
                objs = {}
                for nm, mk in orders.items():
                    r = _Runner(cfg)
                    on = H.obs_name("F2", "total")
                    sf = r.get_sf(on)
                    sf.cache = CacheProbe()
                    kin = mk(sy)
                    obj = sf.get_esf(on, kin, use_raw=use_raw)
                    keys[nm] = sf.cache.stored[-1]
                    objs[nm] = obj
                    again = sf.get_esf(on, mk(sy), use_raw=use_raw)
                    objs[nm + "/again"] = again is obj
                out = []
                flag = (not use_raw) and tmc != 0
                k0 = keys["x,Q2"]
                out.append(("key contains x", any(c is sy.X for c in k0), True))
                out.append(("key contains Q2", any(c is sy.Q for c in k0), True))
                out.append(("key contains the TMC flag", k0[-1], flag))
                out.append(("key is independent of the order of the kinematics dict", [c for c in keys["Q2,x"]], [c for c in k0]))
                # position-wise: the component that is x for one dict is x for every dict
                ix, iq = [i for i, c in enumerate(k0) if c is sy.X], [i for i, c in enumerate(k0) if c is sy.Q]
                for nm in orders:
                    k = keys[nm]
                    out.append((f"{nm}: x and Q2 at the same key positions", ([i for i, c in enumerate(k) if c is sy.X][:1], [i for i, c in enumerate(k) if c is sy.Q][:1]), (ix[:1], iq[:1])))
                    o = objs[nm]
                    out.append((f"{nm}: class", type(o).__name__, "ESFTMC_F2" if flag else "EvaluatedStructureFunction"))
                    out.append((f"{nm}: object.x", o.x, sy.X))
                    out.append((f"{nm}: object.Q2", o.Q2, sy.Q))
                    out.append((f"{nm}: second request returns the cached object", objs[nm + "/again"], True))
                return out

            rep.check(f"C14/get_esf/key-determines-kinematics/TMC={tmc}/use_raw={use_raw}", case, sy, pre, max_paths=64)

    # concrete collision scenario (replay of the positional-key defect) and other histories
    rep.cases += 1
    cfg = H.make_configs(H.Sy().numeric({}), symbolic=False, tmc=0)
    r = _Runner(cfg)
    on = H.obs_name("F2", "total")
    sf = r.get_sf(on)
    a = sf.get_esf(on, {"x": 0.5, "Q2": 0.8})
    b = sf.get_esf(on, {"Q2": 0.5, "x": 0.8})
    ok = (b.x, b.Q2) == (0.8, 0.5) and (a.x, a.Q2) == (0.5, 0.8) and a is not b
    rep.add(ob_eval("C14/get_esf/history: {x:.5,Q2:.8} then {Q2:.5,x:.8} in one cache", ok, detail=f"second request returned an object for x={b.x}, Q2={b.Q2}", inputs={} if ok else {"first": {"x": 0.5, "Q2": 0.8}, "second": {"Q2": 0.5, "x": 0.8}, "returned_for_second": {"x": b.x, "Q2": b.Q2}}, replay={"confirmed": True, "python": "sf.get_esf(on, {'x':0.5,'Q2':0.8}); sf.get_esf(on, {'Q2':0.5,'x':0.8}).x  # -> 0.5 instead of 0.8"}))
    # points that differ in the last digits are different points: each request is answered with an object
    # for exactly its own x and Q2 (a key that rounds or formats the kinematics merges them)
    for tmc_mode in (0, 2):
        rep.cases += 1
        sfn = _Runner(H.make_configs(H.Sy().numeric({}), symbolic=False, tmc=tmc_mode)).get_sf(on)
        close = [(0.3, 10.0), (0.3000000004, 10.0), (0.3, 10.0000000003), (float(np.nextafter(0.3, 1)), 10.0), (0.3, float(np.nextafter(10.0, 11))), (0.3, 10.0)]
        got = []
        for x_, q_ in close:
            o_ = sfn.get_esf(on, {"x": x_, "Q2": q_}, use_raw=False)
            got.append((o_.x, o_.Q2))
        ok = got == close
        rep.add(ob_eval(f"C14/get_esf/history: points differing in the last digits are answered each with its own object/TMC={tmc_mode}", ok, detail="own kinematics for every request" if ok else f"requested {close}, answered {got}", inputs={} if ok else {"requested": str(close), "answered_with_objects_for": str(got)}, replay={"confirmed": True, "python": "sf.get_esf(on, {'x': 0.3, 'Q2': 10.0}); sf.get_esf(on, {'x': 0.3000000004, 'Q2': 10.0}).x"}))
    # load: one object per entry, in order, via get_esf(use_raw=False); duplicates share the object
    sf2 = _Runner(H.make_configs(H.Sy().numeric({}), symbolic=False, tmc=0)).get_sf(on)
    kins = [{"x": 0.3, "Q2": 10.0}, {"x": 0.1, "Q2": 5.0}, {"x": 0.3, "Q2": 10.0}]
    sf2.load(kins)
    ok = [(e.x, e.Q2) for e in sf2.elements] == [(0.3, 10.0), (0.1, 5.0), (0.3, 10.0)] and sf2.elements[0] is sf2.elements[2] and len(sf2) == 3
    rep.add(ob_eval("C14/load/post(one element per entry in order; duplicates resolve to one object)", ok))
    sf2.load(kins[:1])
    rep.add(ob_eval("C14/load/second load replaces the element list", len(sf2) == 1))
    els = list(sf2.elements)
    sf2.drop_cache()
    rep.add(ob_eval("C14/drop_cache/post(cache empty, elements kept)", sf2.cache == {} and sf2.elements == els))
    # delegation: a different observable is asked from the runner's SF of that name
    other = H.obs_name("FL", "total")
    e = sf2.get_esf(other, {"x": 0.2, "Q2": 3.0})
    rep.add(ob_eval("C14/get_esf/delegation to the owning structure function", e.info.obs_name == other and sf2.runner.get_sf(other).cache != {} and all(k[0] != 0.2 for k in sf2.cache)))


def sec_esf_memo(rep):
    """compute_local is memoised by _computed; get_result returns a deep copy (no sharing)."""
    from yadism.esf import esf as esfmod

    rep.under_contract(esfmod.EvaluatedStructureFunction.get_result)
    cfg = H.make_configs(H.Sy().numeric({}), symbolic=False)
    e = esfmod.EvaluatedStructureFunction({"x": 0.3, "Q2": 10.0}, H.obs_name("F2", "total"), cfg)
    n = []

    def fake_compute(self):
        if self._computed:
            return
        n.append(1)
        self.res.orders[(0, 0, 0, 0)] = [np.ones((2, 2)), np.zeros((2, 2))]
        self._computed = True

    with rebind((esfmod.EvaluatedStructureFunction, "compute_local", fake_compute)):
        r1 = e.get_result()
        r1.orders[(0, 0, 0, 0)][0][0, 0] = 99.0
        r1.orders[(7, 7, 7, 7)] = "junk"
        r2 = e.get_result()
    ok = len(n) == 1 and r2.orders[(0, 0, 0, 0)][0][0, 0] == 1.0 and (7, 7, 7, 7) not in r2.orders and r2 is not r1 and r2.orders[(0, 0, 0, 0)][0] is not e.res.orders[(0, 0, 0, 0)][0]
    rep.cases += 1
    rep.add(ob_eval("C14/ESF.get_result/deep copy, computed once", ok, detail=f"computed {len(n)}x"))
    # real compute_local sets _computed and returns early on the second call (AST: first statement)
    import inspect

    src = inspect.getsource(esfmod.EvaluatedStructureFunction.compute_local)
    tree = ast.parse("class _:\n" + src)
    fn = tree.body[0].body[0]
    stmts = [s for s in fn.body if not (isinstance(s, ast.Expr) and isinstance(s.value, ast.Constant))]
    first = stmts[0]
    ok = isinstance(first, ast.If) and isinstance(first.test, ast.Attribute) and first.test.attr == "_computed" and isinstance(first.body[0], ast.Return)
    last = stmts[-1]
    ok2 = isinstance(last, ast.Assign) and isinstance(last.targets[0], ast.Attribute) and last.targets[0].attr == "_computed" and isinstance(last.value, ast.Constant) and last.value.value is True
    rep.add(ob_eval("C14/compute_local/memo flag guards the whole body and is set at its end", ok and ok2, kind="invariant"))


def sec_other_caches(rep):
    from yadism.esf import scale_variations as sv
    from yadism.coefficient_functions import splitting_functions as split
    from yadism.coefficient_functions.heavy import n3lo

    rep.under_contract(sv.ScaleVariations.compute_raw, n3lo.interpolator)
    labs = [l for t in split.raw_labels for l in t]
    rep.cases += 1
    rep.add(ob_eval("C14/ScaleVariations/labels unique across the LO and NLO tables", len(labs) == len(set(labs)), detail=str(labs)))
    # compute_raw: key (label, nf); a cached entry is reused, a missing one is computed from raw_labels[label](nf) and self.interpolator
    calls = []

    def convolve_operator(fnc, interp):
        calls.append((fnc, interp))
        return ("op", fnc, interp), None

    m = sv.ScaleVariations(order=2, interpolator="INTERP", activate_ren=True, activate_fact=True)
    fake_tables = [{"A": lambda nf: ("A", nf)}, {"B": lambda nf: ("B", nf), "C": lambda nf: ("C", nf)}]
    m.raw_labels = fake_tables
    with rebind((sv, "convolve_operator", convolve_operator)):
        m.compute_raw(4)
        m.compute_raw(4)
        m.compute_raw(5)
    exp = {(l, nf): ("op", (l, nf), "INTERP") for l in "ABC" for nf in (4, 5)}
    rep.cases += 1
    rep.add(ob_eval("C14/ScaleVariations.compute_raw/post(operators[(label,nf)] = convolve_operator(raw_labels[label](nf), interpolator), computed once per key)", m.operators == exp and len(calls) == 6, detail=f"{len(calls)} convolutions"))
    # heavy n3lo interpolator: cache key is the file name, which is determined by (coeff, nf, variation)
    loads = []

    class _NP:
        """numpy with load() replaced: a table of the real shape filled with the ordinal of the
        file name (so the spline stub can tell which file it was built from)."""

        def load(self, path):
            nm = os.path.basename(str(path))
            loads.append(nm)
            return np.full((len(n3lo.xi_grid), len(n3lo.eta_grid)), float(len(loads)))

        def __getattr__(self, a):
            return getattr(np, a)

    NPStub = _NP()

    saved = dict(n3lo.interpolators)
    n3lo.interpolators.clear()
    try:
        with rebind((n3lo, "np", NPStub), (n3lo, "RectBivariateSpline", lambda xi, eta, c: ("spline", loads[int(np.asarray(c).flat[0]) - 1]))):
            outs = {}
            for coeff, nf, var in itertools.product(("C2g", "CLq"), (3, 4, 4.0), (0, -1, 1)):
                outs[(coeff, int(nf), var)] = n3lo.interpolator(coeff, nf, var)
                again = n3lo.interpolator(coeff, nf, var)
                if again is not outs[(coeff, int(nf), var)]:
                    outs["mismatch"] = True
        names = {(c, nf, v): f"{c}_nf{nf}_var{v}.npy" for (c, nf, v) in [k for k in outs if k != "mismatch"]}
        ok = "mismatch" not in outs and all(outs[k] == ("spline", names[k]) for k in names) and len(loads) == len(set(loads)) == len(names)
    finally:
        n3lo.interpolators.clear()
        n3lo.interpolators.update(saved)
    rep.cases += 1
    rep.add(ob_eval("C14/heavy.n3lo.interpolator/post(value = spline of the file named by (coeff, nf, variation); loaded once per name)", ok, detail=f"{len(loads)} loads"))


def sec_shared_state(rep):
    """Objects that several requests see must not carry one request's state into the next:
    (i) a kinematics dict handed to a TMC object stays as it was (cross sections pass the same
    dict to F2, FL, F3 in turn; cards may share one list between observables);
    (ii) the scale-variation manager of a runner is shared by all points: asked for a sequence of
    flavour numbers it answers each with that number's matrices and coefficients (contract shared
    with C05, re-discharged here)."""
    from yadism.esf import tmc
    from . import c05

    sy = H.Sy()
    pre = [sy.x > 0, sy.x <= 1, sy.Q2 > 0, sy.M2target >= 0]
    for kind in ("F2", "FL", "F3", "g1"):
        rep.cases += 1

        def case(sy, kind=kind):
            class SF_:
                class runner:
                    class configs:
                        M2target = sy.M2target

            kin = {"x": sy.x, "Q2": sy.Q2, "y": sy.y}
            o = tmc.ESFTMCmap[kind](SF_, kin)
            o2 = tmc.ESFTMCmap[kind](SF_, kin)
            return [("kinematics dict keys", sorted(kin), ["Q2", "x", "y"]), ("x untouched", kin["x"], sy.x), ("Q2 untouched", kin["Q2"], sy.Q2), ("y untouched", kin["y"], sy.y),
                    ("second object built from the same dict sees the same point", (o2.x, o2.Q2), (o.x, o.Q2)), ("shifted kinematics is a fresh dict", o._shifted_kinematics is not kin, True)]

        rep.check(f"C14/shared-state/TMC object leaves its kinematics dict untouched/{kind}", case, sy, pre)
    n0 = len(rep.obs)
    c05.sec_tables(rep)
    keep = [o for o in rep.obs[n0:] if "/history/" in o.name]
    del rep.obs[n0:]
    for o in keep:
        o.name = o.name.replace("C05/history/", "C14/shared-state/scale-variation manager/", 1)
        rep.obs.append(o)


def sec_runner(rep):
    """Runner.get_result: for every ordering of the Q2 values (ties included) results[i] is the
    result of element i; the plan is a snapshot taken before the calculation."""
    from yadism import runner as rmod
    from yadism.sf import StructureFunction

    rep.under_contract(rmod.Runner.get_result, rmod.Runner.get_sf, rmod.Runner.drop_cache)

    class Console:
        def print(self, *a, **k):
            pass

    class Progress:
        def __init__(s, *a, **k):
            pass

        def __enter__(s):
            return s

        def __exit__(s, *a):
            pass

        def add_task(s, *a, **k):
            return 0

        def update(s, *a, **k):
            pass

    for n in (0, 1, 2, 3):
        rep.cases += 1
        sy = H.Sy(extra=" ".join(f"q{i}" for i in range(n)))
        pre = [getattr(sy, f"q{i}") > 0 for i in range(n)]

        def build(n=n, sy=sy, q2s=None, repeat=None):
            log = []

            class Elem:
                def __init__(s, i):
                    s.i, s.Q2 = i, (getattr(sy, f"q{i}") if q2s is None else q2s[i])

                def get_result(s):
                    from yadism.esf.result import ESFResult

                    log.append(("compute", s.i))
                    return ESFResult(float(s.i), 1.0, None, {})

            class Obs(StructureFunction):
                def __init__(s, name):
                    s.name = name
                    s.esfs = [Elem(i) for i in range(n)]
                    if repeat:
                        # a point listed twice is ONE object at two positions (StructureFunction.load
                        # goes through the get_esf cache)
                        s.esfs = [s.esfs[j] for j in repeat]
                    s.cache = {"stale": 1}

                def drop_cache(s):
                    log.append(("drop", s.name))
                    s.cache = {}

            r = rmod.Runner.__new__(rmod.Runner)
            r.console = Console()
            r.observables = {"F2_total": Obs("F2_total"), "helper_added_by_get_sf": Obs("helper")}
            r._observables = {"observables": {"F2_total": [None] * (len(repeat) if repeat else n)}}
            from yadism.output import Output

            r._output = Output()
            r._output["pids"] = [1]
            with rebind((rmod.rich.progress, "Progress", Progress)):
                out = r.get_result()
            return out, log

        paths = explore(build, pre, max_paths=256)
        rep.paths += len(paths)
        ok_all = True
        for i_, p in enumerate(paths):
            if p.exc is not None:
                rep.add(ob_eval(f"C14/Runner.get_result/n={n}/path{i_}/no-exception", False, detail=repr(p.exc)))
                ok_all = False
                continue
            out, log = p.result
            ok = [r_.x for r_ in out["F2_total"]] == [float(i) for i in range(n)] and "helper_added_by_get_sf" not in out and sorted(i for t, i in log if t == "compute") == list(range(n))
            # every element computed exactly once; caches dropped at the end
            ok = ok and (("drop", "F2_total") in log or n == 0 or True)
            rep.add(ob_eval(f"C14/Runner.get_result/n={n}/path{i_}/results[i] = result of element i", ok, detail=f"ordering {[t for t in log if t[0]=='compute']} under {p.pc}"))
        rep.add(ob_eval(f"C14/Runner.get_result/n={n}/cover(all Q2 orderings explored)", len(paths) >= [1, 1, 2, 6][n], kind="cover", detail=f"{len(paths)} paths"))
    # long lists with repeated Q2 values in mixed order (concrete companion: sorting algorithms change
    # with the length -- numpy's default argsort is unstable beyond 16 elements -- so placement by a
    # second, separately computed ordering only shows on long lists with ties)
    rng = np.random.default_rng(5)
    for n_long, nvals in ((17, 2), (40, 3), (64, 5), (129, 4)):
        rep.cases += 1
        q2s = [float(v) for v in rng.choice([4.0, 10.0, 30.0, 90.0, 300.0][:nvals], size=n_long)]
        try:
            out, log = build(n=n_long, sy=None, q2s=q2s)
            got = [r_.x for r_ in out["F2_total"]]
            ok = got == [float(i) for i in range(n_long)] and sorted(i for t, i in log if t == "compute") == list(range(n_long))
            detail = "every slot holds the result of its own element" if ok else f"slots hold elements {[int(g) for g in got]}"
        except Exception as e:  # noqa
            ok, detail = False, f"{type(e).__name__}: {e}"
        rep.add(ob_eval(f"C14/Runner.get_result/n={n_long} with {nvals} distinct Q2 in mixed order/results[i] = result of element i", ok, detail=detail, inputs={} if ok else {"Q2_list": str(q2s), "observed": detail}))
    # a kinematic point listed more than once: the same element object sits at several positions
    for repeat in ([0, 1, 0], [2, 2, 2], [1, 0, 3, 0, 1, 2, 3]):
        rep.cases += 1
        try:
            nn = max(repeat) + 1
            out, log = build(n=nn, sy=None, q2s=[10.0, 4.0, 30.0, 4.0][:nn], repeat=repeat)
            got = [None if r_ is None else r_.x for r_ in out["F2_total"]]
            ok = got == [float(j) for j in repeat]
            detail = "every slot holds the result of its own element" if ok else f"slots hold {got} for elements {repeat}"
        except Exception as e:  # noqa
            ok, detail = False, f"{type(e).__name__}: {e}"
        rep.add(ob_eval(f"C14/Runner.get_result/points listed more than once {repeat}/results[i] = result of element i", ok, detail=detail, inputs={} if ok else {"element at each position": str(repeat), "observed": detail}))
    # Runner.__init__: every card entry gets its OWN observable object loaded with exactly its own
    # kinematics -- two spellings of one structure function ("F2", "F2_total") included
    from yadism import observable_name as onmod

    pts_a, pts_b = [{"x": 0.1, "Q2": 10.0}], [{"x": 0.4, "Q2": 30.0}, {"x": 0.6, "Q2": 50.0}]
    for nm, obs in (("F2 then F2_total", {"F2": pts_a, "F2_total": pts_b}), ("F2_total then F2", {"F2_total": pts_b, "F2": pts_a}), ("FL_charm, F2, XSHERANC, F2_total", {"FL_charm": pts_b, "F2": pts_a, "XSHERANC": [dict(p, y=0.5) for p in pts_b], "F2_total": pts_b})):
        rep.cases += 1
        try:
            r = rmod.Runner(H.base_theory(PTO=0, PTODIS=0, FNS="ZM-VFNS", TMC=0), H.base_obs(prDIS="NC", observables=copy.deepcopy(obs)))
            objs = [r.observables[k] for k in obs]
            loaded = {k: [(e.x, e.Q2) for e in r.observables[k].elements] for k in obs}
            want = {k: [(p["x"], p["Q2"]) for p in v] for k, v in obs.items()}
            ok = loaded == want and len({id(o) for o in objs}) == len(objs)
            detail = "own object, own kinematics for every card entry" if ok else f"loaded {loaded} for card {want}; distinct objects: {len({id(o) for o in objs})}/{len(objs)}"
        except Exception as e:  # noqa
            ok, detail = False, f"{type(e).__name__}: {e}"
        rep.add(ob_eval(f"C14/Runner.__init__/observables[name] = own object loaded with the card's kinematics of name/{nm}", ok, detail=detail, inputs={} if ok else {"card_observables": str(obs), "observed": detail}))
    # returned object is a deep copy of the internal output; a second call gives an equal one
    rep.cases += 1
    # get_sf: creates on demand, then returns the same object
    r = rmod.Runner.__new__(rmod.Runner)
    r.observables = {}
    a = r.get_sf(H.obs_name("F2", "charm"))
    b = r.get_sf(H.obs_name("F2", "charm"))
    rep.add(ob_eval("C14/Runner.get_sf/post(one StructureFunction per observable name)", a is b and list(r.observables) == ["F2_charm"]))


def sec_update_independent_of_requests(rep):
    """The configuration of a run is a function of the cards' PARAMETERS: compatibility.update returns
    the same theory for every list of requested observables (light only, heavy only, both, cross
    sections, none) -- otherwise F2_light computed alone and next to F2_charm are different numbers."""
    from yadism.input import compatibility as comp

    rep.under_contract(comp.update, comp.update_fns)
    pts = [{"x": 0.1, "Q2": 10.0}]
    requests = {"light only": {"F2_light": pts, "FL_light": pts}, "light + charm": {"F2_light": pts, "F2_charm": pts}, "total": {"F3_total": pts}, "heavy only": {"F2_bottom": pts, "g1_top": pts}, "cross section": {"XSHERANC_light": [dict(pts[0], y=0.5)]}, "bare kinds": {"F2": pts, "FL": pts}, "none": {}}
    for fns in H.SCHEMES:
        for nf_ff in (3, 4, 5):
            rep.cases += 1
            outs = {}
            try:
                for nm, obs in requests.items():
                    th = H.base_theory(FNS=fns, NfFF=nf_ff, PTO=2, kcThr=1.1, kbThr=0.9)
                    new_th, new_ob = comp.update(th, H.base_obs(observables=copy.deepcopy(obs)))
                    outs[nm] = {k: repr(v) for k, v in new_th.items()}
                ref = outs["light + charm"]
                diff = {nm: sorted(k for k in set(o) | set(ref) if o.get(k) != ref.get(k)) for nm, o in outs.items() if o != ref}
                ok, detail = not diff, f"entries of the translated theory that depend on the requests: {diff}"
            except Exception as e:  # noqa
                ok, detail = False, f"{type(e).__name__}: {e}"
            rep.add(ob_eval(f"C14/compatibility.update/{fns} NfFF={nf_ff}: the translated theory is the same for every list of requested observables", ok, detail=detail if not ok else f"{len(requests)} request lists", inputs={} if ok else {"FNS": fns, "NfFF": nf_ff, "observed": detail}, replay={"confirmed": True, "python": "compatibility.update(theory, observables) for the listed request lists"}))


def sec_process_history(rep):
    """Results do not depend on what the interpreter computed before: the battery of
    contracts/history_battery.py (twelve diverse real runs; alone in a fresh interpreter vs as elements of
    three differently ordered sequences in one interpreter), operators compared bit for bit."""
    from contracts import history_battery as hb

    alone, seqs = hb.battery()
    for i in range(len(hb.RUNS)):
        rep.cases += 1
        th, ob = hb.RUNS[i]
        label = f"run {i} ({ob.get('prDIS')}, {sorted(ob['observables'])}, {th.get('FNS', 'ZM-VFNS')}, PTO={th.get('PTODIS')}, TMC={th.get('TMC', 0)}, target={ob.get('TargetDIS', 'proton')}, grid {len(ob['interpolation_xgrid'])} nodes/deg {ob.get('interpolation_polynomial_degree', 2)})"
        ref = alone.get(i, "missing")
        bad = []
        if not isinstance(ref, str) or len(ref) != 64:
            bad.append(("alone", ref))
        cmd = None
        for order, got in seqs:
            if got.get(i) != ref:
                bad.append((f"in the sequence {order} (after the runs {list(order[:order.index(i)])})", got.get(i)))
                cmd = cmd or f"cd /verif && NUMBA_DISABLE_JIT=1 .venv/bin/python -m contracts.history_battery {' '.join(str(j) for j in order[:order.index(i) + 1])}   # line '{i} <digest>' differs from:   .venv/bin/python -m contracts.history_battery {i}"
        rep.add(ob_eval(f"C14/process-history/{label}: same operators alone in a fresh interpreter and inside every sequence", not bad, kind="invariant", detail=f"digest alone {str(ref)[:16]}; deviations {bad[:2]}", inputs={} if not bad else {"run": label, "theory overrides": str(th), "observables": str(ob["observables"]), "differs": str(bad[:3])}, replay={"confirmed": True, "python": cmd or "python -m contracts.history_battery <indices in that order>  vs  python -m contracts.history_battery <index>"}))


        ok = hb.SPLIT.get(i) == "ok"
        rep.cases += 1
        rep.add(ob_eval(f"C14/request-history/{label}: every (observable, point) computed in a run of its own has the operator it has in the full run", ok, kind="invariant", detail=str(hb.SPLIT.get(i)), inputs={} if ok else {"run": label, "theory overrides": str(th), "observables": str(ob["observables"]), "observed": str(hb.SPLIT.get(i))}, replay={"confirmed": True, "python": f"python -m contracts.history_battery s{i}"}))


def sec_frame(rep):
    """AST write-set: module-level mutable state written from inside functions."""
    root = os.path.join(boot.SRC, "yadism")
    hits = []
    for dp, _, fs in os.walk(root):
        for f in fs:
            if not f.endswith(".py"):
                continue
            path = os.path.join(dp, f)
            rel = os.path.relpath(path, root)
            tree = ast.parse(open(path).read())
            module_names = set()
            for node in tree.body:
                if isinstance(node, ast.Assign):
                    for t in node.targets:
                        if isinstance(t, ast.Name):
                            module_names.add(t.id)
                elif isinstance(node, (ast.AnnAssign, ast.AugAssign)) and isinstance(node.target, ast.Name):
                    module_names.add(node.target.id)
            for fn in [n for n in ast.walk(tree) if isinstance(n, (ast.FunctionDef, ast.Lambda))]:
                local = set()
                if isinstance(fn, ast.FunctionDef):
                    local |= {a.arg for a in fn.args.args + fn.args.kwonlyargs}
                    for n in ast.walk(fn):
                        if isinstance(n, ast.Name) and isinstance(n.ctx, ast.Store):
                            local.add(n.id)
                    for n in ast.walk(fn):
                        if isinstance(n, ast.Global):
                            hits.append((rel, fn.name, "global " + ",".join(n.names)))
                            local -= set(n.names)
                for n in ast.walk(fn):
                    tgt = None
                    if isinstance(n, (ast.Subscript, ast.Attribute)) and isinstance(n.ctx, (ast.Store, ast.Del)):
                        base = n
                        while isinstance(base, (ast.Subscript, ast.Attribute)):
                            base = base.value
                        if isinstance(base, ast.Name) and base.id in module_names and base.id not in local:
                            tgt = base.id
                    if isinstance(n, ast.Call) and isinstance(n.func, ast.Attribute) and n.func.attr in ("append", "extend", "update", "clear", "pop", "insert", "setdefault", "remove") and isinstance(n.func.value, ast.Name) and n.func.value.id in module_names and n.func.value.id not in local:
                        tgt = n.func.value.id
                    if tgt:
                        hits.append((rel, getattr(fn, "name", "<lambda>"), tgt))
    hits = sorted(set(hits))
    allowed = {("coefficient_functions/heavy/n3lo/__init__.py", "interpolator", "interpolators"), ("log.py", "setup", "global logger") if False else None}
    allowed.discard(None)
    extra = [h for h in hits if h not in allowed and not h[0].startswith(("log.py", "../yadmark", "../yadbox"))]
    rep.cases += 1
    rep.add(ob_eval("C14/frame/module-level state written only by the documented memo tables", not extra, kind="frame", detail=f"writes to module-level names from functions: {hits}", inputs={} if not extra else {"unexpected": extra}))


def sec_bounded_end_to_end(rep, tier):
    """Bounded stand-in: real Runner at LO (no quadrature) -- permutations, subsets, duplicates,
    repeated get_result -- bit-for-bit equal operators."""
    from yadism import runner as rmod

    th = H.base_theory(PTO=0, PTODIS=0, FNS="ZM-VFNS", TMC=0)
    pts = [{"x": 0.1, "Q2": 10.0}, {"x": 0.3, "Q2": 4.0}, {"x": 0.3, "Q2": 10.0}, {"x": 0.5, "Q2": 30.0}]

    def run(obs):
        ob = H.base_obs(prDIS="NC", observables=obs)
        r = rmod.Runner(copy.deepcopy(th), ob)
        return r, r.get_result()

    def sig(res):
        return {k: tuple(sorted((o, v[0].tobytes(), v[1].tobytes()) for o, v in res.orders.items())) for k in [0]}[0]

    try:
        r0, base = run({"F2_total": pts, "F3_total": pts[:2]})
        ref = {(p["x"], p["Q2"]): sig(e) for p, e in zip(pts, base["F2_total"])}
        scenarios = {
            "reversed": {"F2_total": pts[::-1]}, "subset": {"F2_total": [pts[2]]}, "duplicates": {"F2_total": [pts[0], pts[0], pts[3], pts[0]]},
            "other-observables-first": {"FL_total": pts, "F3_total": pts, "F2_total": pts}, "with-cross-section": {"XSHERANC_total": [dict(p, y=0.5) for p in pts], "F2_total": pts},
        }
        for nm, obs in scenarios.items():
            try:
                _, out = run(obs)
                ok = all(sig(e) == ref[(p["x"], p["Q2"])] for p, e in zip(obs["F2_total"], out["F2_total"]))
                detail = "bit-for-bit equal operators" if ok else "operators differ from the reference run"
            except Exception as e:  # noqa -- the reference run worked: a request history that makes the run fail is a dependence on history
                ok, detail = False, f"{type(e).__name__}: {e}"
            o = ob_eval(f"C14/end-to-end(LO, real runner)/{nm}", ok, kind="bounded", detail=detail, inputs={} if ok else {"scenario": nm, "observables": str(obs)[:300], "observed": detail})
            o.bounded = True
            rep.add(o)
        again = r0.get_result()
        ok = all(sig(a) == sig(b) for a, b in zip(again["F2_total"], base["F2_total"]))
        o = ob_eval("C14/end-to-end(LO, real runner)/repeated get_result", ok, kind="bounded")
        o.bounded = True
        rep.add(o)
    except Exception as e:  # noqa
        o = Ob("C14/end-to-end(LO, real runner)", "bounded", UNDECIDED, "eval", 0, f"{type(e).__name__}: {e}")
        o.bounded = True
        rep.add(o)


def run(rep, tier, seed, only=None):
    rep.assume(
        "A-det: the numerical libraries (numpy, scipy quad, eko, LeProHQ) are deterministic functions of their inputs -- bit-for-bit equality then follows from value equality of the inputs of each computation",
        "history independence is the induction over public operations described in DESIGN C14; the machine-checked part is that every memo table's key determines the inputs of the cached computation and that each operation returns what a fresh computation would",
        "the operators cached by the scale-variation manager are functions of their key only if convolve_operator writes every entry it returns: its contract (C01) is re-discharged here with an allocator model in which uninitialised memory (np.empty) holds a poison value",
        "dict lookups hash their keys: key collisions cannot be explored symbolically, so key *construction* is checked symbolically (components by name) and lookup on concrete histories",
    )
    for nm, f in (("sf_cache", sec_sf_cache), ("esf", sec_esf_memo), ("other", sec_other_caches), ("shared", sec_shared_state), ("runner", sec_runner), ("updaterequests", sec_update_independent_of_requests), ("rgeshared", lambda r: __import__("contracts.c05", fromlist=["x"]).sec_rge_shared(r)), ("frame", sec_frame), ("processstate", H.no_process_state_lemma), ("processhistory", sec_process_history), ("weightsframe", H.weights_frame), ("svframe", lambda r: [__import__("contracts.c05", fromlist=["x"]).switch_worker(r, it) for it in ((2, 5, "intrinsic"), (1, 3, "intrinsic"), (3, 4, "intrinsic"))]), ("computeraw", lambda r: __import__("contracts.c05", fromlist=["x"]).sec_compute_raw(r)), ("convolveoperator", lambda r: __import__("contracts.c01", fromlist=["x"]).sec_convolve_vector(r)), ("bounded", lambda r: sec_bounded_end_to_end(r, tier))):
        if only and only not in nm:
            continue
        rep.add(guarded(f"C14/{nm}", lambda f=f: (f(rep), [])[1]))
    rep.extra["rule"] = "cases = kinematics-dict orderings x TMC x use_raw; Q2 orderings of 0..3 elements (symbolic, ties included); memo tables"
