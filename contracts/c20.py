"""C20 -- the runner leaves its inputs untouched and echoes them in the output.

Functions under contract: input.compatibility.{update, update_fns, update_scale_variations,
update_target}, Runner.{__init__, get_result}, sf.StructureFunction.load, xs.CrossSection.load,
EvaluatedStructureFunction.__init__, EvaluatedCrossSection.__init__, TMC __init__.

  frame      modifies = {} on the caller's theory / observables cards, top level and nested
             (write-recording dict/list proxies over the exhaustively enumerated card lattice
             + AST lemma: the originals are only read / copied / stored by reference)
  idempotent update(*update(t, o)) == update(t, o)
  echo       output.theory is theory, output.observables is observables, output contains the
             interpolator description, pids = flavor_basis_pids, projectilePID of the card's
             projectile; get_result returns a deep copy equal by value
"""
from __future__ import annotations

import ast
import copy
import inspect
import itertools
import math

import numpy as np

from pvc.core import ob_eval, guarded, Ob, PROVED, REFUTED, UNDECIDED, parallel

from . import harness as H

LEVEL = "proof"
WRITES = []


class RDict(dict):
    """dict recording every mutating operation (identity-tagged)."""

    def _w(self, op, *a):
        WRITES.append((id(self), op, a[:1]))

    def __setitem__(self, k, v):
        self._w("__setitem__", k)
        super().__setitem__(k, v)

    def __delitem__(self, k):
        self._w("__delitem__", k)
        super().__delitem__(k)

    def pop(self, *a):
        self._w("pop", *a)
        return super().pop(*a)

    def popitem(self):
        self._w("popitem")
        return super().popitem()

    def update(self, *a, **k):
        self._w("update")
        super().update(*a, **k)

    def setdefault(self, *a):
        self._w("setdefault", *a)
        return super().setdefault(*a)

    def clear(self):
        self._w("clear")
        super().clear()

    def __ior__(self, o):
        self._w("__ior__")
        return super().__ior__(o)

    def __deepcopy__(self, memo):
        return {copy.deepcopy(k, memo): copy.deepcopy(v, memo) for k, v in self.items()}


class RList(list):
    def _w(self, op, *a):
        WRITES.append((id(self), op, ()))

    def __deepcopy__(self, memo):
        return [copy.deepcopy(v, memo) for v in self]


for _m in ("append", "extend", "insert", "remove", "pop", "sort", "reverse", "clear", "__setitem__", "__delitem__", "__iadd__", "__imul__"):
    def _mk(m):
        def f(self, *a, **k):
            self._w(m)
            return getattr(list, m)(self, *a, **k)

        return f

    setattr(RList, _m, _mk(_m))


def wrap(x, ids):
    if isinstance(x, dict):
        d = RDict()
        for k, v in x.items():
            dict.__setitem__(d, k, wrap(v, ids))
        ids.add(id(d))
        return d
    if isinstance(x, list):
        l = RList(wrap(v, ids) for v in x)
        ids.add(id(l))
        return l
    return x


def plain(x):
    if isinstance(x, dict):
        return {k: plain(v) for k, v in x.items()}
    if isinstance(x, (list, tuple)):
        return [plain(v) for v in x]
    if isinstance(x, np.ndarray):
        return ("ndarray", [plain(v) for v in x.tolist()])  # the TYPE is part of the comparison
    if isinstance(x, float) and math.isinf(x):
        return "inf"
    return x


TARGETS = ("proton", "neutron", "isoscalar", "iron", "lead", "neon", "marble", {"Z": 3.0, "A": 7.0})
OPTIONALS = ("PTODIS", "FONLLParts", "RenScaleVar", "FactScaleVar", "alphaqed", "QED")


def cards(fns, nf_ff, target, present, obs=None):
    th = H.base_theory(FNS=fns, NfFF=nf_ff, PTO=1)
    th.update(PTODIS=1, FONLLParts="full", RenScaleVar=True, FactScaleVar=False)
    for k in OPTIONALS:
        if k not in present:
            th.pop(k, None)
    ob = H.base_obs(TargetDIS=copy.deepcopy(target), observables=obs if obs is not None else {"F2_total": [{"x": 0.3, "Q2": 10.0}, {"x": 0.1, "Q2": 5.0}]})
    return th, ob


def sec_update(rep, tier):
    from yadism.input import compatibility as comp

    rep.under_contract(comp.update, comp.update_fns, comp.update_scale_variations, comp.update_target)
    subsets = [(), OPTIONALS] + ([tuple(c) for r in (1, 5) for c in itertools.combinations(OPTIONALS, r)] if True else [])
    n = 0
    bad_frame, bad_idem, bad_fresh, bad_content = [], [], [], []
    for fns in H.SCHEMES:
        for nf_ff in (3, 4, 5, 6):
            for tgt in TARGETS:
                for present in subsets:
                    n += 1
                    th, ob = cards(fns, nf_ff, tgt, present)
                    ids = set()
                    wt, wo = wrap(th, ids), wrap(ob, ids)
                    before = (plain(wt), plain(wo))
                    del WRITES[:]
                    nt, no = comp.update(wt, wo)
                    w = [x for x in WRITES if x[0] in ids]
                    cell = (fns, nf_ff, str(tgt), present)
                    if w or (plain(wt), plain(wo)) != before:
                        bad_frame.append((cell, w[:3]))
                    if nt is wt or no is wo:
                        bad_fresh.append(cell)
                    nt2, no2 = comp.update(nt, no)
                    if plain(nt2) != plain(nt) or plain(no2) != plain(no):
                        bad_idem.append(cell)
                    # content: documented renames / defaults
                    ok = ("alphaqed" not in nt) and (("alphaem" in nt) == ("alphaqed" in present)) and ("QED" not in nt) and (("order" in nt) == ("QED" in present))
                    ok = ok and nt["RenScaleVar"] == (True) and nt["FactScaleVar"] == (False if "FactScaleVar" in present else True) and nt["PTODIS"] == 1 and nt["FONLLParts"] == "full"
                    ok = ok and isinstance(no["TargetDIS"], dict) and set(no["TargetDIS"]) == {"Z", "A"}
                    if not ok:
                        bad_content.append(cell)
    rep.cases += n
    rep.add(ob_eval("C20/update/frame(modifies nothing reachable from the arguments)", not bad_frame, kind="frame", detail=f"{n} cards; writes: {bad_frame[:2]}", inputs={} if not bad_frame else {"cards": [str(b[0]) for b in bad_frame[:5]], "writes": str(bad_frame[0][1])}, replay={"confirmed": True}))
    rep.add(ob_eval("C20/update/returns new dictionaries", not bad_fresh, detail=str(bad_fresh[:2])))
    rep.add(ob_eval("C20/update/idempotent: update(*update(t,o)) == update(t,o)", not bad_idem, detail=str(bad_idem[:2]), inputs={} if not bad_idem else {"cards": [str(b) for b in bad_idem[:5]]}, replay={"confirmed": True}))
    rep.add(ob_eval("C20/update/post(renames alphaqed->alphaem, QED->order, defaults for PTODIS, FONLLParts, scale-variation switches, TargetDIS as (Z,A))", not bad_content, detail=str(bad_content[:2])))
    rep.sample({"update lattice": f"{n} cards = 5 schemes x NfFF 3..6 x 8 target spellings x {len(subsets)} optional-key subsets"})
    # AST lemma: the originals only occur as receivers of .copy()
    tree = ast.parse(inspect.getsource(comp.update))
    fn = tree.body[0]
    params = [a.arg for a in fn.args.args]
    uses = [n_ for n_ in ast.walk(fn) if isinstance(n_, ast.Name) and n_.id in params]
    copies = [n_.func.value for n_ in ast.walk(fn) if isinstance(n_, ast.Call) and isinstance(n_.func, ast.Attribute) and n_.func.attr == "copy" and isinstance(n_.func.value, ast.Name)]
    rep.add(ob_eval("C20/update/AST: the argument dictionaries occur only as receivers of .copy()", len(uses) == len(copies) == 2 and all(u in copies for u in uses), kind="frame", detail=f"{len(uses)} uses, {len(copies)} copies"))


def ast_readonly(fn, params):
    """No store / delete / mutating-method call whose root is one of ``params``."""
    src = inspect.getsource(fn)
    tree = ast.parse("class _:\n" + src if src.startswith("    ") else src)
    bad = []
    mut = ("pop", "update", "setdefault", "clear", "popitem", "append", "extend", "insert", "remove", "sort", "reverse")
    for n in ast.walk(tree):
        root = None
        if isinstance(n, (ast.Subscript, ast.Attribute)) and isinstance(n.ctx, (ast.Store, ast.Del)):
            b = n
            while isinstance(b, (ast.Subscript, ast.Attribute)):
                b = b.value
            if isinstance(b, ast.Name):
                root = b.id
        if isinstance(n, ast.Call) and isinstance(n.func, ast.Attribute) and n.func.attr in mut:
            b = n.func.value
            while isinstance(b, (ast.Subscript, ast.Attribute)):
                b = b.value
            if isinstance(b, ast.Name):
                root = b.id
        if root in params:
            bad.append((root, getattr(n, "lineno", 0)))
    return bad


def sec_ast(rep):
    from yadism import runner as rmod, sf, xs
    from yadism.esf import esf as esfmod, exs, tmc

    items = [
        (rmod.Runner.__init__, ("theory", "observables")), (sf.StructureFunction.load, ("kinematic_configs",)), (sf.StructureFunction.get_esf, ("kinematics",)),
        (xs.CrossSection.load, ("kinematic_configs",)), (esfmod.EvaluatedStructureFunction.__init__, ("kinematics",)), (exs.EvaluatedCrossSection.__init__, ("kin",)),
        (tmc.EvaluatedStructureFunctionTMC.__init__, ("kinematics",)),
    ]
    for fn, params in items:
        rep.cases += 1
        rep.under_contract(fn)
        bad = ast_readonly(fn, params)
        rep.add(ob_eval(f"C20/AST/{fn.__qualname__}: no write whose root is {params}", not bad, kind="frame", detail=str(bad), inputs={} if not bad else {"writes": bad}))
    # attributes through which kinematics objects are retained: never written through
    for cls, attr in ((exs.EvaluatedCrossSection, "kin"), (tmc.EvaluatedStructureFunctionTMC, "_shifted_kinematics")):
        rep.cases += 1
        tree = ast.parse(inspect.getsource(inspect.getmodule(cls)))
        bad = []
        for n in ast.walk(tree):
            if isinstance(n, ast.Subscript) and isinstance(n.ctx, (ast.Store, ast.Del)) and isinstance(n.value, ast.Attribute) and n.value.attr == attr:
                bad.append(n.lineno)
            if isinstance(n, ast.Call) and isinstance(n.func, ast.Attribute) and n.func.attr in ("update", "pop", "setdefault", "clear") and isinstance(n.func.value, ast.Attribute) and n.func.value.attr == attr:
                bad.append(n.lineno)
        rep.add(ob_eval(f"C20/AST/{cls.__name__}.{attr} is never written through", not bad, kind="frame", detail=str(bad)))
    # the shifted kinematics of TMC is a fresh dict
    class SF_:
        class runner:
            class configs:
                M2target = 0.88

    kin = {"x": 0.3, "Q2": 10.0}
    o = tmc.ESFTMC_F2(SF_, kin)
    rep.add(ob_eval("C20/TMC.__init__: shifted kinematics is a fresh dictionary", o._shifted_kinematics is not kin and kin == {"x": 0.3, "Q2": 10.0}, kind="frame"))


def runner_worker(sub, item):
    from yadism import runner as rmod
    from eko import basis_rotation as br

    fns, nf_ff, tgt, proj, tmc, compute = item
    sub.cases += 1
    obs = {"F2_total": [{"x": 0.3, "Q2": 10.0}, {"x": 0.1, "Q2": 5.0}, {"x": 0.3, "Q2": 10.0}], "XSHERANC_total": [{"x": 0.3, "Q2": 10.0, "y": 0.4}], "F3_charm": []}
    th, ob = cards(fns, nf_ff, tgt, OPTIONALS, obs)
    th.update(PTO=0, PTODIS=0, TMC=tmc)
    ob.update(ProjectileDIS=proj, prDIS="NC")
    if (nf_ff + tmc + len(str(tgt))) % 2 == 0:
        # a legal, unsorted grid (eko sorts it): the card is echoed as given, the recorded grid is the
        # one the operators are indexed on
        g = list(ob["interpolation_xgrid"])
        ob["interpolation_xgrid"] = g[1::2] + g[0::2][::-1]
    if (nf_ff + tmc + len(str(tgt))) % 3 == 0:
        # a grid given as a numpy array (np.geomspace, ...): the card keeps the very object it came with
        ob["interpolation_xgrid"] = np.array(ob["interpolation_xgrid"], dtype=float)
    grid_obj = ob["interpolation_xgrid"]
    ids = set()
    wt, wo = wrap(th, ids), wrap(ob, ids)
    before = (plain(wt), plain(wo))
    del WRITES[:]
    name = f"C20/Runner/{fns}{nf_ff}/{tgt if isinstance(tgt, str) else 'dict'}/{proj}/TMC={tmc}/{'get_result' if compute else 'init'}"
    try:
        r = rmod.Runner(wt, wo)
        w_init = [x for x in WRITES if x[0] in ids]
        same_grid_object = isinstance(grid_obj, np.ndarray) is isinstance(dict.__getitem__(ob, "interpolation_xgrid"), np.ndarray) and type(dict.__getitem__(ob, "interpolation_xgrid")) is type(grid_obj)
        sub.add(ob_eval(f"{name}/frame: __init__ writes nothing into the cards", not w_init and same_grid_object and (plain(wt), plain(wo)) == before, kind="frame", detail=str(w_init[:3]), inputs={} if not w_init else {"writes": str(w_init[:5])}, replay={"confirmed": True}))
        out = r._output
        pid = H.PROJECTILES[proj]
        echo = out.theory is wt and out.observables is wo and out["pids"] == br.flavor_basis_pids and out["projectilePID"] == pid
        interp = r.configs.managers["interpolator"].to_dict()
        echo = echo and all(k in out and plain(out[k]) == plain(interp[k]) for k in interp)
        used = [float(v) for v in r.configs.managers["interpolator"].xgrid.raw]
        echo = echo and used == sorted(float(v) for v in wo["interpolation_xgrid"]) and [float(v) for v in plain(out["xgrid"])["grid"]] == used
        # ... and that description is the one of THIS card (log flag, degree), not merely of whatever
        # interpolator the runner holds
        po = plain(out)
        echo_card = bool(po["xgrid"]["log"]) == bool(wo["interpolation_is_log"]) and int(po["polynomial_degree"]) == int(wo["interpolation_polynomial_degree"]) and bool(po["is_log"]) == bool(wo["interpolation_is_log"])
        sub.add(ob_eval(f"{name}/echo: cards by reference, interpolator description, pids, projectilePID", echo and echo_card))
        r2 = rmod.Runner(wt, wo)
        same = plain(r2._theory) == plain(r._theory) and plain(r2._observables) == plain(r._observables)
        sub.add(ob_eval(f"{name}/repeated construction from the same objects gives equal internal cards", same))
        if compute:
            res = r.get_result()
            w_all = [x for x in WRITES if x[0] in ids]
            sub.add(ob_eval(f"{name}/frame: get_result writes nothing into the cards (nested kinematics included)", not w_all and (plain(wt), plain(wo)) == before, kind="frame", detail=str(w_all[:3]), inputs={} if not w_all else {"writes": str(w_all[:5])}, replay={"confirmed": True}))
            ok = res is not r._output and res.theory is not wt and plain(res.theory) == before[0] and plain(res.observables) == before[1] and res["pids"] == br.flavor_basis_pids and res["projectilePID"] == pid
            ok = ok and len(res["F2_total"]) == 3 and len(res["XSHERANC_total"]) == 1 and res["F3_charm"] == []
            sub.add(ob_eval(f"{name}/get_result returns a deep copy equal by value (cards, metadata, one result per requested point)", ok))
            res["F2_total"][0].orders.clear()
            res.theory["PTO"] = 99
            again = r.get_result()
            sub.add(ob_eval(f"{name}/mutating the returned output does not affect the runner", len(again["F2_total"][0].orders) > 0 and again.theory["PTO"] == 0 and wt["PTO"] == 0))
    except Exception as e:  # noqa
        import traceback

        sub.add(Ob(name, "post", "error", "engine", 0, f"{type(e).__name__}: {e} {traceback.format_exc()[-600:]}"))


def sec_runner_history(rep):
    """Several runners built one after the other in ONE process from cards that differ in one
    interpolation entry only (log flag, one node by a few 1e-9, degree): each runner's interpolator and
    each output's echo belong to its own card -- nothing is carried over from an earlier runner."""
    from yadism import runner as rmod

    g = [1e-9, 1e-6, 1e-3, 1e-2, 0.1, 0.3, 0.6, 1.0]
    seq = [
        ("log grid", dict(interpolation_xgrid=list(g), interpolation_is_log=True, interpolation_polynomial_degree=3)),
        ("same nodes, linear", dict(interpolation_xgrid=list(g), interpolation_is_log=False, interpolation_polynomial_degree=3)),
        ("lowest node 4e-9", dict(interpolation_xgrid=[4e-9] + g[1:], interpolation_is_log=True, interpolation_polynomial_degree=3)),
        ("degree 2", dict(interpolation_xgrid=list(g), interpolation_is_log=True, interpolation_polynomial_degree=2)),
        ("log grid again", dict(interpolation_xgrid=list(g), interpolation_is_log=True, interpolation_polynomial_degree=3)),
    ]
    for i, (nm, over) in enumerate(seq):
        rep.cases += 1
        th, ob = cards("ZM-VFNS", 3, "proton", OPTIONALS)
        th.update(PTO=0, PTODIS=0)
        ob.update(over)
        try:
            r = rmod.Runner(th, ob)
            it = r.configs.managers["interpolator"]
            po = plain(r._output)  # pylint: disable=protected-access
            got = dict(nodes=[float(v) for v in it.xgrid.raw], log=bool(it.xgrid.log), degree=int(it.polynomial_degree), echoed_nodes=[float(v) for v in po["xgrid"]["grid"]], echoed_log=bool(po["xgrid"]["log"]), echoed_is_log=bool(po["is_log"]), echoed_degree=int(po["polynomial_degree"]))
            want = dict(nodes=[float(v) for v in over["interpolation_xgrid"]], log=over["interpolation_is_log"], degree=over["interpolation_polynomial_degree"], echoed_nodes=[float(v) for v in over["interpolation_xgrid"]], echoed_log=over["interpolation_is_log"], echoed_is_log=over["interpolation_is_log"], echoed_degree=over["interpolation_polynomial_degree"])
            ok = got == want
            detail = "own interpolator, own echo" if ok else str({k: (got[k], want[k]) for k in got if got[k] != want[k]})[:400]
        except Exception as e:  # noqa
            ok, detail = False, f"{type(e).__name__}: {e}"
        rep.add(ob_eval(f"C20/Runner/history[{i}: {nm}]/interpolator and echo are those of this card", ok, detail=detail, inputs={} if ok else {"sequence": str([n_ for n_, _ in seq[: i + 1]]), "observed (got, card)": detail}, replay={"confirmed": True, "python": "the listed runners constructed in this order in one process"}))


def sec_runner(rep, tier):
    from yadism import runner as rmod

    rep.under_contract(rmod.Runner.__init__, rmod.Runner.get_result)
    sec_runner_history(rep)
    items = []
    for fns in H.SCHEMES:
        for nf_ff in (3, 4, 5):
            for tgt in (("proton", "iron", {"Z": 3.0, "A": 7.0}) if tier == "quick" else TARGETS):
                items.append((fns, nf_ff, tgt, "electron", 0, False))
    for fns, nf_ff, tgt, proj, tmc in (("ZM-VFNS", 3, "proton", "electron", 0), ("ZM-VFNS", 3, "isoscalar", "positron", 1), ("FFNS", 4, "lead", "neutrino", 0), ("FONLL-FFN0", 4, {"Z": 1.0, "A": 2.0}, "antineutrino", 0), ("FFN0", 3, "neutron", "electron", 3)):
        items.append((fns, nf_ff, tgt, proj, tmc, True))
    parallel(rep, items, runner_worker, chunk=2)
    rep.sample({"runner": "real Runner at LO (delta kernels, no quadrature beyond the TMC integrals) constructed from write-recording card proxies; get_result on 3 structure-function points (one duplicate), a cross section and an empty observable"})


def sec_selfcheck(rep, seed):
    """Canary: an update that pops from its argument must be caught by the proxies."""
    th, ob = cards("FFNS", 3, "proton", OPTIONALS)
    ids = set()
    wt = wrap(th, ids)
    del WRITES[:]

    def bad_update(theory):
        theory["alphaem"] = theory.pop("alphaqed")

    bad_update(wt)
    w = [x for x in WRITES if x[0] in ids]
    rep.add(Ob("C20/selfcheck/canary-in-place-update-recorded", "canary", PROVED if len(w) == 2 else "error", "eval", 0, str(w)))


def run(rep, tier, seed, only=None):
    rep.assume(
        "frame conditions are decided by write-recording proxies on the exhaustively enumerated discrete card lattice (the card-handling code does not branch on continuous values) plus AST lemmas (the originals occur only as .copy() receivers / are never the root of a store or mutating call)",
        "Runner runs for real at LO with eko's interpolator (small grid); heavier orders do not touch the cards differently (the cards are read only in Runner.__init__, compatibility.update and CouplingConstants.from_dict: AST)",
    )
    for nm, f in (("update", lambda r: sec_update(r, tier)), ("ast", sec_ast), ("runner", lambda r: sec_runner(r, tier))):
        if only and only not in nm:
            continue
        rep.add(guarded(f"C20/{nm}", lambda f=f: (f(rep), [])[1]))
    if not only and rep.replay_target is None:
        rep.add(guarded("C20/selfcheck", lambda: (sec_selfcheck(rep, seed), [])[1]))
    rep.extra["rule"] = "cases = scheme x NfFF x target spelling x optional-key subset (update); scheme x NfFF x target (Runner.__init__); five full LO runs incl. TMC, cross sections, duplicates, empty observables"
