"""C08 -- FFN0 is the high-virtuality limit of the massive (FFNS) calculation.

Contract on the REAL kernel generators, per heavy flavour ihq, kind, process and order k:

    for every parton pid and every z in (0,1), as eps = m^2/Q^2 -> 0+ :
        sum over heavy.kernels.generate(esf, nf, ihq)            of  w[pid] * part_k(z)
      - sum over asy.kernels.generate_heavy_asy(esf, nf, pto_evol, ihq) of  w[pid] * part_k(z)
      = O(eps log^n eps)            for part in {reg + sing, loc}

(and the same for intrinsic.kernels.generate / generate_intrinsic_asy where within reach).
The limit is taken mechanically (pvc.limit, lemma L-lim): both sides are brought to their normal
form over atoms, log(eps) is split off by the z3-proved log expansion, every other atom is
evaluated at eps = 0, and the two results -- polynomials in log(eps) with coefficients in
Q(z, Q2, w, log z, log(1-z), Li2 ...) -- must be the same element of that field.  Equality of
``reg + sing`` and of ``loc`` for every z, together with C03 (d loc/dz = -sing) on both sides,
is equality of the two distributions, so the statement holds "for any PDF".

Reach (stated in the evidence):
  * CC heavy (Gluck-Kretzer-Reya, in-repo closed forms): F2, FL, F3, quark + gluon, orders 0, 1;
  * NC heavy O(a_s): F2, FL, g1, VV and AA, through the REAL LeProHQ.cg0 source (pure Python once
    the JIT is disabled -- the dependency is executed, not stubbed);
  * NC heavy O(a_s^2): LeProHQ returns interpolated numerical tables inside its grid: out of
    reach of any contract (assumption A-LeProHQ-grid); only the weight structure is checked;
  * weights: per channel the massive and the asymptotic kernels carry the same parton weights.
A refuted obligation is replayed natively: the real massive and asymptotic kernels are evaluated
with floats at eps = 1e-8 (Q2/m2 = 1e8), where the clean tree agrees to better than 1e-5.
"""
from __future__ import annotations

import importlib

import numpy as np

from pvc.core import ob_eval, guarded, Ob, PROVED, UNDECIDED, parallel
from pvc.limit import limit0
from pvc.stubs import rebind
from pvc.sym import R, OutOfReach

from . import harness as H
from . import sites as S

LEVEL = "proof"
EPS_NATIVE = 1e-8
EPS_NATIVE_OVERRIDE = [None]  # CC closed forms are replayed at Q2/m2 = 1e9 with a tighter tolerance (see _compare)
ORDER = ("LO", "NLO", "NNLO", "N3LO")
TAU = 1e-10
HQ_NAME = {4: "charm", 5: "bottom", 6: "top"}


def _parts(sy, coeff, order):
    """{'reg','sing','loc'} of the REAL order method of one coefficient object at z (0 if absent)."""
    rsl = getattr(coeff, ORDER[order])()
    out = {"reg": 0, "sing": 0, "loc": 0}
    if rsl is None:
        return out
    for part in ("reg", "sing", "loc"):
        f = getattr(rsl, part)
        if f is None:
            continue
        a = rsl.args[part]
        if sy.is_numeric:
            a = np.array(a, dtype=float)
            out[part] = (lambda f=f, a=a: (lambda t: float(f(t, a))))()
        else:
            out[part] = f(sy.z, a)
    return out


def _kernel_sum(sy, kernels, order):
    """pid -> {'reg','sing','loc'} of sum_k w_k[pid] * part_k  (functions of z when numeric)"""
    tot = {}
    for k in kernels:
        if not k.has_order(order):
            continue
        p = _parts(sy, k.coeff, order)
        for pid, w in k.partons.items():
            d = tot.setdefault(pid, {"reg": [], "sing": [], "loc": []})
            for key in ("reg", "sing", "loc"):
                d[key].append((w, p[key]))
    out = {}
    for pid, d in tot.items():
        out[pid] = {}
        for key, lst in d.items():
            if sy.is_numeric:
                out[pid][key] = (lambda lst=lst: (lambda t: sum(float(w) * (f(t) if callable(f) else float(f)) for w, f in lst)))()
            else:
                out[pid][key] = sum((w * v for w, v in lst), 0)
    return out


def _unit_functional(part, z):
    """T[1_[z,1]] = loc(z) + int_z^1 reg  (the plus distribution does not see a constant): the
    quantity that fixes the delta coefficient.  Log substitution resolves the region 1-z ~ eps."""
    import math

    from scipy.integrate import quad

    lo = math.log(1e-14)
    hi = math.log(1.0 - z)
    edges = [lo] + [p for p in (math.log((EPS_NATIVE_OVERRIDE[0] or EPS_NATIVE) * k) for k in (1e-3, 1e-2, 1e-1, 1, 10, 100, 1e3)) if lo < p < hi] + [hi]
    integ = 0.0
    import warnings

    with warnings.catch_warnings():
        warnings.simplefilter("ignore")
        for u, v in zip(edges[:-1], edges[1:]):
            integ += quad(lambda t: part["reg"](1.0 - math.exp(t)) * math.exp(t), u, v, limit=400, epsabs=1e-10, epsrel=1e-10)[0]
    return part["loc"](z) + integ


SOFT = []  # names of cases whose delta coefficient is outside the pointwise method (per process)


NON_LIMIT_PATHS = [0]


def _limit_path_guard(sy, pre):
    """The statement is a limit eps -> 0+ at fixed z, x: an execution path is part of it only if its
    path condition holds for all sufficiently small eps.  A branch of the code under analysis taken on
    a comparison that involves eps (e.g. a cut-off 'eta <= 1e8' with eta ~ 1/eps) is EVENTUALLY false:
    such a path is dropped (counted), its sibling is the limit path.  Decided by evaluating every
    eps-dependent literal of the path condition at eps = 1e-30 and 1e-45 on 40 sample points that
    satisfy the precondition; a literal that is neither always true nor always false there leaves the
    case undecided."""
    import math
    import random

    from pvc import sym
    from pvc.numeval import evalb
    from pvc.sym import free_vars, Infeasible

    ctx = sym.CTX
    if ctx is None or sy.is_numeric:
        return
    lits = [l for l in ctx.pc if not isinstance(l, bool) and any(repr(v) == repr(sy.eps) for v in free_vars(l))]
    if not lits:
        return
    rnd = random.Random(11)
    for lit in lits:
        vs = set(free_vars(lit))
        for c in pre:
            if not isinstance(c, bool):
                vs |= free_vars(c)
        verdicts = set()
        n = 0
        for _ in range(4000):
            if n >= 40:
                break
            env = {}
            for v in vs:
                nm = v.args[0] if v.op == "v" else repr(v)
                env[nm] = rnd.uniform(0.02, 0.98) if nm in ("z", "x") else math.exp(rnd.uniform(-1, 7))
            ok = True
            for e in (1e-30, 1e-45):
                env["eps"] = e
                try:
                    if not all(evalb(c, env) for c in pre if not isinstance(c, bool)):
                        ok = False
                        break
                    verdicts.add(bool(evalb(lit, env)))
                except Exception:  # noqa
                    ok = False
                    break
            if ok:
                n += 1
        if verdicts == {False}:
            NON_LIMIT_PATHS[0] += 1
            raise Infeasible()
        if verdicts != {True}:
            raise OutOfReach(f"path condition literal neither eventually true nor eventually false as eps -> 0: {sym.showb(lit)[:200]}")


def _compare(sy, hs, as_, pre, tag=""):
    """Obligation triples: the two weighted kernel sums are the same distribution in the limit.

    With T = (r, s, l) acting on g supported in [z,1]:  T[g] = int (r+s)(g - g(1)) + g(1) (l(z) + int_z^1 r).
      (i)   r1 + s1 == r2 + s2 pointwise on (0,1) in the limit           [first term]
      (ii)  d/dz (l1 - l2) == -(s1 - s2) on the limit forms               [second term up to a constant]
      (iii) lim_{z -> 1-} (l1 - l2)(z) == 0                               [the constant]
    (iii) is the delta coefficient *provided* the regular parts converge dominatedly; the mechanical
    guard for that is integrability of the pointwise limit of r at z = 1 ((1-z) r_lim -> 0).  Where the
    guard fails (mass-regulated soft region: the limit of r contains log(1-z)/(1-z)) the delta
    coefficient is outside the reach of the pointwise method: (iii) is NOT generated and the case
    is listed for the bounded stand-in.
    Natively (replay, floats at eps = 1e-8) (ii)+(iii) are checked through T[1_[z,1]]."""
    from pvc.diff import d as ddz
    from pvc.limit import subst
    from pvc.ratfun import Normaliser

    _limit_path_guard(sy, pre)
    # native replay: the in-repo CC closed forms keep ~1e-7 at Q2/m2 = 1e9, where the genuine
    # O(eps log^2 eps) remainder is 4e-7: a relative 5e-6 decides; NC (LeProHQ, massive NC intrinsic
    # with its cancellations) is replayed at 1e8 with 2e-4
    cc = "/CC/" in tag
    opts = {"tol": TAU, "replay_tol": 5e-6 if cc else 2e-4, "nocross": True, "need_replay": True}
    out = [("same partons", sorted(hs), sorted(as_))] if (hs or as_) else []
    done = {}
    for pid in sorted(set(hs) & set(as_)):
        h, a = hs[pid], as_[pid]
        if not sy.is_numeric:
            # rows that are the same symbolic expressions on both sides (e.g. the singlet weight of
            # every light quark) are one obligation: the repeated row is identified, not re-proved
            key = repr([(k, repr(h[k]), repr(a[k])) for k in ("reg", "sing", "loc")])
            if key in done:
                out.append((f"pid={pid}/same expressions as pid={done[key]} (decided there)", True, True))
                continue
            done[key] = pid
        if sy.is_numeric:
            z = sy.z
            out.append((f"pid={pid}/reg+sing", h["reg"](z) + h["sing"](z), a["reg"](z) + a["sing"](z), opts))
            mh, ma = _unit_functional(h, z), _unit_functional(a, z)
            for nm in ("dloc", "loc@1"):
                out.append((f"pid={pid}/{nm}", mh, ma, opts))
            continue
        lim = {k: (_checked_limit(sy, h[k], pre, f"{tag}/pid={pid}/massive {k}"), _checked_limit(sy, a[k], pre, f"{tag}/pid={pid}/asymptotic {k}")) for k in ("reg", "sing", "loc")}
        out.append((f"pid={pid}/reg+sing", lim["reg"][0] + lim["sing"][0], lim["reg"][1] + lim["sing"][1], opts))
        dloc = R.lift(lim["loc"][0] - lim["loc"][1])
        dsing = R.lift(lim["sing"][0] - lim["sing"][1])
        out.append((f"pid={pid}/dloc", ddz(dloc, sy.z), -dsing, opts))
        delta = R.var("eps1")  # z = 1 - eps1, eps1 -> 0+
        pre1 = [delta > 0, delta < 1] + [c for c in pre if not _mentions(c, sy.z)]
        guard_ok = True
        for v in lim["reg"]:
            g = limit0(subst(R.lift(v), sy.z, 1 - delta) * delta, delta, pre1)
            if Normaliser(pre1).identity(R.lift(g), R.const(0), 1e-9)[0] != "proved":
                guard_ok = False
        if not guard_ok:
            SOFT.append(f"{tag}/pid={pid}")
            continue
        at1 = [limit0(subst(R.lift(v), sy.z, 1 - delta), delta, pre1) for v in lim["loc"]]
        out.append((f"pid={pid}/loc@1", at1[0], at1[1], opts))
    return out


class LimitSelfCheckError(Exception):
    pass


SELFCHECKS = [0]


def _checked_limit(sy, v, pre, what):
    """limit0 with an engine self-check: the limit form evaluated at LOG_EPS = log(eps0) must agree
    with the ORIGINAL symbolic term evaluated at eps = eps0 (eps0 = 1e-9, 40-digit arithmetic, random admissible z, Q2, x;
    uninterpreted atoms get the same pseudo-values on both sides) up to the O(eps log^k eps) the
    lemma allows.  A disagreement is a defect of the limit engine: the case becomes undecided."""
    import math

    from pvc.core import find_witness
    from pvc.numeval import evalf

    v = R.lift(v)
    lim = limit0(v, sy.eps, pre)
    if v.is_const:
        return lim
    eps0 = 1e-9  # evaluated with 40 digits (below): the genuine remainder C eps log^2 eps is then ~1e-5 even for C ~ 10
    env = find_witness(R.const(0), R.const(1), [c for c in pre if not _mentions(c, sy.eps)], tries=200, seed=7)
    if env:
        env.pop("_lhs", None), env.pop("_rhs", None)
        env["eps"] = eps0
        env["LOG_EPS"] = math.log(eps0)
        class PseudoValues(dict):
            """any uninterpreted name -> deterministic pseudo-value of (name, evaluated arguments)"""

            def __contains__(self, name):
                return True

            def __getitem__(self, name):
                import zlib

                return lambda *args: 0.25 + (zlib.crc32(repr((name,) + tuple(round(float(x), 9) if isinstance(x, (int, float)) else x for x in args)).encode()) % 10007) / 10007.0

        try:
            # 40-digit arithmetic: the massive NC expressions lose up to 1e-3 of their value to
            # cancellation in doubles at eps = 1e-6, which is not what is being checked here
            a = float(evalf(v, dict(env), ufs=PseudoValues(), mp=True))
            b = float(evalf(R.lift(lim), dict(env), ufs=PseudoValues(), mp=True))
        except Exception:  # noqa  (a function outside its float domain at the random point: no verdict)
            return lim
        import math as _m

        if not (_m.isfinite(a) and _m.isfinite(b)):
            return lim  # the 40-digit evaluation left the real domain at this random point: no verdict
        SELFCHECKS[0] += 1
        scale = max(1.0, abs(a), abs(b))
        if not abs(a - b) <= 2e-3 * scale:
            raise LimitSelfCheckError(f"limit engine self-check failed for {what}: term at eps=1e-9 = {a!r}, limit form = {b!r}")
    return lim


def _mentions(cond, var):
    from pvc.sym import free_vars

    return (not isinstance(cond, bool)) and var in free_vars(cond)


def _cfg(sy, process, pto_evol):
    c = dict(process=process, projectile="electron", scheme="FFNS", nf_ff=3, pto=3, pto_evol=pto_evol, fonllparts="full")
    return H.cell_configs(sy, c)


def _binds(sy):
    import LeProHQ

    H.all_partonic_channel_classes()  # import every coefficient module before scanning for rebindings

    return S.stub_binds(sy, lep=LeProHQ)  # the REAL LeProHQ module (no stub)


def _set_mass(sy):
    eps = (EPS_NATIVE_OVERRIDE[0] or EPS_NATIVE) if sy.is_numeric else sy.eps
    sy.m2c = sy.m2b = sy.m2t = eps * sy.Q2
    return eps


def _pre(sy, process):
    pre = [sy.x > 0, sy.x < 1, sy.Q2 > 0, sy.z > 0, sy.z < 1, sy.eps > 0, sy.eps < 1]
    if process == "NC":
        # above the hadronic and the partonic pair threshold (always true for eps small enough)
        pre += [(1 - sy.x) > 4 * sy.eps * sy.x, (1 - sy.z) > 4 * sy.eps * sy.z]
    else:
        pre += [sy.x * (1 + sy.eps) < 1]
    return pre


def _lim(sy, v, pre):
    if sy.is_numeric:
        return float(v)
    return limit0(R.lift(v), sy.eps, pre)


def heavy_case(process, kind, ihq, nf, order, pto_evol):
    """case closure for rep.check: massive vs asymptotic kernels of one heavy flavour."""

    def case(sy):
        from yadism.coefficient_functions import heavy
        from yadism.coefficient_functions.asy import kernels as asyk

        EPS_NATIVE_OVERRIDE[0] = 1e-9 if process == "CC" else None
        _set_mass(sy)
        cfg = _cfg(sy, process, pto_evol)
        esf = H.FakeESF(sy.x, sy.Q2, H.obs_name(kind, HQ_NAME[ihq]), cfg)
        pre = _pre(sy, process)
        with rebind(*_binds(sy)):
            hk = heavy.kernels.generate(esf, nf, ihq)
            ak = asyk.generate_heavy_asy(esf, nf, pto_evol, ihq)
            hs = _kernel_sum(sy, hk, order)
            as_ = _kernel_sum(sy, ak, order)
            out = _compare(sy, hs, as_, pre, f"heavy/{process}/{kind}/ihq={ihq}/order={order}")
        return out

    return case


def intrinsic_case(process, kind, ihq, nf, order, pto_evol):
    """massive heavy-quark-initiated kernels vs their asymptotic (matching + light) counterpart"""

    def case(sy):
        from yadism.coefficient_functions import intrinsic
        from yadism.coefficient_functions.asy import kernels as asyk

        EPS_NATIVE_OVERRIDE[0] = 1e-9 if process == "CC" else None
        _set_mass(sy)
        cfg = _cfg(sy, process, pto_evol)
        esf = H.FakeESF(sy.x, sy.Q2, H.obs_name(kind, HQ_NAME[ihq]), cfg)
        pre = _pre(sy, "CC")
        with rebind(*_binds(sy)):
            hk = intrinsic.kernels.generate(esf, ihq)
            ak = asyk.generate_intrinsic_asy(esf, nf, pto_evol, ihq)
            hs = _kernel_sum(sy, hk, order)
            as_ = _kernel_sum(sy, ak, order)
            out = _compare(sy, hs, as_, pre, f"intrinsic/{process}/{kind}/ihq={ihq}/order={order}")
        return out

    return case


def _intrinsic_worker(sub, item):
    process, kind, ihq, nf, order, pto_evol = item
    sy = H.Sy(extra="z eps")
    sub.cases += 1
    del SOFT[:]
    case = intrinsic_case(*item)
    sub.check(f"C08/intrinsic/{process}/{kind}/ihq={ihq}/order={order}", case, sy, _pre(sy, "CC"), tol=TAU)
    _soft_standin(sub, f"C08/intrinsic/{process}/{kind}/ihq={ihq}/order={order}", case, sy)
    _native_fallback(sub, f"C08/intrinsic/{process}/{kind}/ihq={ihq}/order={order}", case, sy)
    sub.extra["limit_selfchecks"] = sub.extra.get("limit_selfchecks", 0) + SELFCHECKS[0]
    sub.extra["paths_dropped_as_eventually_false_when_eps_to_0"] = sub.extra.get("paths_dropped_as_eventually_false_when_eps_to_0", 0) + NON_LIMIT_PATHS[0]
    NON_LIMIT_PATHS[0] = 0
    SELFCHECKS[0] = 0


def _soft_standin(sub, name, case, sy):
    """BOUNDED stand-in for the delta coefficient where the pointwise method does not reach it:
    T[1_[z,1]] of the real massive and asymptotic kernels with floats at eps = 1e-4 and 1e-5, z in
    {0.2, 0.55, 0.9}: the difference must shrink with eps and be below 1e-2 at eps = 1e-5
    (measured on the clean tree: ~1e-2 at 1e-4, ~1.5e-3 at 1e-5; below 1e-6 the massive formulas
    lose their digits to cancellation)."""
    global EPS_NATIVE
    if not SOFT or sub.replay_target is not None:
        return
    soft = sorted(set(SOFT))
    del SOFT[:]
    sub.extra["soft_region_cases"] = sub.extra.get("soft_region_cases", 0) + len(soft)
    bad = []
    n = 0
    keep = EPS_NATIVE
    try:
        for zval in (0.2, 0.55, 0.9):
            diffs = {}
            for eps in (1e-4, 1e-5):
                EPS_NATIVE = eps
                res = case(sy.numeric({"z": zval, "x": 0.1, "Q2": 30.0}))
                for nm, got, exp, *_ in res:
                    if nm.endswith("/loc@1") and any(t.endswith(nm.split("/")[0]) for t in soft):
                        diffs.setdefault(nm, []).append(abs(got - exp))
            for nm, (d4, d5) in diffs.items():
                n += 1
                if not (d5 <= 1e-2 and (d5 < d4 or d4 < 1e-6)):
                    bad.append((zval, nm, d4, d5))
    finally:
        EPS_NATIVE = keep
    o = Ob(f"{name}/delta-coefficient[bounded: T[1_[z,1]] at eps=1e-4,1e-5; z=0.2,0.55,0.9]", "bounded", PROVED if (n and not bad) else "refuted" if bad else UNDECIDED, "native", 0, f"{n} comparisons; cases outside the pointwise method: {soft}" + (f"; |difference| at eps=1e-4, 1e-5: {bad[:3]}" if bad else ""), {} if not bad else {"z": bad[0][0], "difference_eps_1e-4": bad[0][2], "difference_eps_1e-5": bad[0][3]}, {"confirmed": True} if bad else {})
    o.bounded = True
    sub.add(o)


def _native_fallback(sub, name, case, sy):
    """When the limit engine's self-check refuses a case (the symbolic limit form and the term itself
    disagree at eps = 1e-9 -- e.g. because the code under analysis now cuts a variable off at a constant,
    so that there IS no limit of the expected form), the case is undecided for the engine.  It is then
    looked at natively: the real massive and asymptotic kernels with floats at Q2/m2 = 1e6 and 1e8,
    z in {0.01, 0.1, 0.5}.  Not approaching each other there (relative difference above 1e-2 at 1e8 and
    not halved from 1e6) is a violation with a failing input on the real code (bounded); approaching
    each other leaves the case undecided."""
    global EPS_NATIVE
    und = [o for o in sub.obs if o.name.startswith(name) and o.status == UNDECIDED and "LimitSelfCheckError" in (o.detail or "")]
    if not und or sub.replay_target is not None:
        return
    keep = EPS_NATIVE
    keep_over = EPS_NATIVE_OVERRIDE[0]
    bad, n = [], 0
    try:
        for zval in (0.01, 0.1, 0.5):
            diffs = {}
            for eps in (1e-6, 1e-8):
                EPS_NATIVE = eps
                try:
                    res = case(sy.numeric({"z": zval, "x": 0.1, "Q2": 30.0}))  # (CC cases pin Q2/m2 = 1e9 themselves)
                except Exception:  # noqa
                    continue
                for nm, got, exp, *_ in res:
                    try:
                        g, e = float(got), float(exp)
                    except Exception:  # noqa
                        continue
                    if np.isfinite(g) and np.isfinite(e):
                        diffs.setdefault(nm, {})[eps] = abs(g - e) / max(1.0, abs(g), abs(e))
            for nm, d in diffs.items():
                if len(d) == 2:
                    n += 1
                    if d[1e-8] > 1e-2 and d[1e-8] > 0.5 * d[1e-6]:
                        bad.append((zval, nm, d[1e-6], d[1e-8]))
    finally:
        EPS_NATIVE = keep
        EPS_NATIVE_OVERRIDE[0] = keep_over
    if bad:
        o = Ob(f"{name}/massive->asymptotic natively[bounded: Q2/m2=1e6,1e8; z=0.01,0.1,0.5; after the limit engine refused the case]", "bounded", "refuted", "native", 0, f"{n} comparisons; relative differences at Q2/m2 = 1e6, 1e8: {bad[:3]}", {"z": bad[0][0], "x": 0.1, "Q2": 30.0, "quantity": bad[0][1], "relative_difference_at_Q2/m2=1e6": bad[0][2], "relative_difference_at_Q2/m2=1e8": bad[0][3]}, {"confirmed": True, "cmd": "./check C08 --only heavy"})
        o.bounded = True
        sub.add(o)


def sec_intrinsic(rep, tier):
    from yadism.coefficient_functions import intrinsic
    from yadism.coefficient_functions.asy import kernels as asyk

    rep.under_contract(intrinsic.kernels.generate, asyk.generate_intrinsic_asy)
    items = []
    ihqs = (4, 5, 6) if tier == "thorough" else (4,)
    for process, kinds in (("CC", ("F2", "FL", "F3")), ("NC", ("F2", "FL", "F3", "g1"))):
        for kind in kinds:
            for ihq in ihqs:
                for order in (0, 1):
                    items.append((process, kind, ihq, ihq - 1, order, 1))
    if rep.extra.get("_gather") is not None:
        rep.extra["_gather"] += [("intrinsic", it) for it in items]
        return len(items)
    parallel(rep, items, _intrinsic_worker)
    return len(items)


def _history_worker(sub, seq):
    """One process, one sequence of (family, item): every obligation of every item is discharged again AFTER
    the earlier items of the sequence were evaluated in the same interpreter -- a coefficient class must not
    remember what another kind / process / order asked before (class-level or module-level memos)."""
    done = []
    for fam, item in seq:
        n0 = len(sub.obs)
        {"heavy": _heavy_worker, "intrinsic": _intrinsic_worker}[fam](sub, item)
        for o in sub.obs[n0:]:
            o.name = o.name.replace("C08/", "C08/history/", 1) + f"/evaluated after {[f'{f}:{i[0]}-{i[1]}@{i[4]}' for f, i in done] or 'nothing'}"
        done.append((fam, item))


def sec_history(rep, tier):
    """'order by order, for every contribution' also after other contributions were computed: sequences of
    kinds (F2, FL, F3 -- whose leading orders differ -- in two orders), of families and of perturbative orders,
    each sequence in one process."""
    ih = lambda proc, kind, order: ("intrinsic", (proc, kind, 4, 3, order, 1))  # noqa: E731
    hv = lambda proc, kind, order: ("heavy", (proc, kind, 4, 3, order, max(order, 1)))  # noqa: E731
    seqs = [
        tuple(ih("CC", k, o) for k in ("F2", "FL", "F3") for o in (0, 1)),
        tuple(ih("CC", k, o) for k in ("FL", "F3", "F2") for o in (1, 0)),
        tuple(ih("NC", k, o) for k in ("F2", "FL", "F3", "g1") for o in (1,)),
        tuple(ih("NC", k, o) for k in ("g1", "F3", "FL", "F2") for o in (1,)),
        tuple(hv("CC", k, o) for k in ("F2", "FL", "F3") for o in (1,)) + tuple(ih("CC", k, 1) for k in ("F3", "FL")),
        tuple(hv("CC", k, o) for k in ("F3", "FL", "F2") for o in (1, 0)),
    ]
    if rep.extra.get("_gather") is not None:
        rep.extra["_gather"] += [("history", s_) for s_ in seqs]
        return len(seqs)
    parallel(rep, seqs, _history_worker, chunk=1)
    return len(seqs)


def sec_heavy(rep, tier):
    """Massive vs asymptotic heavy kernels, orders within reach."""
    from yadism.coefficient_functions import heavy
    from yadism.coefficient_functions.asy import kernels as asyk

    rep.under_contract(heavy.kernels.generate, asyk.generate_heavy_asy, heavy.kernels.nc_weights)
    items = []
    ihqs = (4, 5, 6) if tier == "thorough" else (4,)
    for process, kinds, orders in (("CC", ("F2", "FL", "F3"), (0, 1)), ("NC", ("F2", "FL", "g1"), (0, 1))):
        for kind in kinds:
            for ihq in ihqs:
                for order in orders:
                    items.append((process, kind, ihq, ihq - 1, order, max(order, 1)))
    if rep.extra.get("_gather") is not None:
        rep.extra["_gather"] += [("heavy", it) for it in items]
        return len(items)
    parallel(rep, items, _heavy_worker)
    return len(items)


def _heavy_worker(sub, item):
    process, kind, ihq, nf, order, pto_evol = item
    sy = H.Sy(extra="z eps")
    sub.cases += 1
    del SOFT[:]
    case = heavy_case(*item)
    sub.check(f"C08/heavy/{process}/{kind}/ihq={ihq}/order={order}", case, sy, _pre(sy, process), tol=TAU)
    _soft_standin(sub, f"C08/heavy/{process}/{kind}/ihq={ihq}/order={order}", case, sy)
    _native_fallback(sub, f"C08/heavy/{process}/{kind}/ihq={ihq}/order={order}", case, sy)
    sub.extra["limit_selfchecks"] = sub.extra.get("limit_selfchecks", 0) + SELFCHECKS[0]
    sub.extra["paths_dropped_as_eventually_false_when_eps_to_0"] = sub.extra.get("paths_dropped_as_eventually_false_when_eps_to_0", 0) + NON_LIMIT_PATHS[0]
    NON_LIMIT_PATHS[0] = 0
    SELFCHECKS[0] = 0


def _lepro_grid_bound():
    """largest ln(xi) covered by any LeProHQ bulk grid: beyond it LeProHQ evaluates its exact
    high-virtuality expressions (cg1hv / cq1hv) instead of interpolating tables"""
    import glob
    import os

    import LeProHQ

    mx = 0.0
    for f in glob.glob(os.path.join(os.path.dirname(LeProHQ.__file__), "data", "c?1", "*bulk.dat")):
        with open(f) as fh:
            first = fh.readline().split()
        mx = max(mx, float(first[-1]))
    return mx


def _binds_nnlo(sy):
    """as _binds, plus LeProHQ's own Nielsen / dilogarithm routines mapped to the same atoms as
    yadism's (A-special: both implement S_{n,p} and Li2)"""
    import LeProHQ
    import LeProHQ.bmsn
    import LeProHQ.raw.cgBar1 as rb
    import LeProHQ.raw.cqBarF1 as rq
    import LeProHQ.utils
    from pvc.sym import fn

    b = _binds(sy)
    if sy.is_numeric:
        return b
    nst = [v for (_m, n, v) in b if n == "nielsen"][0]
    li2s = lambda x: fn("li2", x) if isinstance(x, R) else LeProHQ.utils.Li2(x)  # noqa: E731
    return b + [(LeProHQ.bmsn, "nielsen", nst), (rb, "Li2", li2s), (rq, "Li2", li2s)]


def nnlo_case(kind, ihq, nf, channel):
    """O(a_s^2) NC gluon / singlet beyond LeProHQ's interpolation grids (Q2/m2 > exp(11.52) = 1e5):
    the massive side is FHprefactor/z (4 pi)^2 [c1hv + cBar1 log(xi)] with closed-form pieces, executed
    from LeProHQ's source; the asymptotic side is yadism's own asy/raw_nc.py formulas."""
    import math

    K = math.exp(_lepro_grid_bound() + 0.1)

    def pre(sy):
        return [sy.x > 0, sy.x < 1, sy.Q2 > 0, sy.z > 0, sy.z < 1, sy.eps > 0, sy.eps * K * 2 < 1, (1 - sy.x) > 4 * sy.eps * sy.x, (1 - sy.z) > 12 * sy.eps * sy.z]

    def case(sy):
        from yadism.coefficient_functions import heavy
        from yadism.coefficient_functions.asy import kernels as asyk

        _set_mass(sy)
        cfg = _cfg(sy, "NC", 2)
        esf = H.FakeESF(sy.x, sy.Q2, H.obs_name(kind, HQ_NAME[ihq]), cfg)
        with rebind(*_binds_nnlo(sy)):
            hk = heavy.kernels.generate(esf, nf, ihq)
            ak = asyk.generate_heavy_asy(esf, nf, 2, ihq)
            hs = _kernel_sum(sy, hk, 2)
            as_ = _kernel_sum(sy, ak, 2)
            keep = (lambda p: p == 21) if channel == "gluon" else (lambda p: p != 21)
            hs = {p: v for p, v in hs.items() if keep(p)}
            as_ = {p: v for p, v in as_.items() if keep(p)}
            return _compare(sy, hs, as_, pre(sy), f"heavy-nnlo/{kind}/ihq={ihq}/{channel}")

    return case, pre


def _nnlo_worker(sub, item):
    kind, ihq, nf, channel = item
    sy = H.Sy(extra="z eps")
    sub.cases += 1
    del SOFT[:]
    case, pre = nnlo_case(*item)
    sub.check(f"C08/heavy/NC/{kind}/ihq={ihq}/order=2/{channel}[beyond the LeProHQ grids]", case, sy, pre(sy), tol=TAU, timeout_ms=20000)
    _native_fallback(sub, f"C08/heavy/NC/{kind}/ihq={ihq}/order=2/{channel}[beyond the LeProHQ grids]", case, sy)
    sub.extra["limit_selfchecks"] = sub.extra.get("limit_selfchecks", 0) + SELFCHECKS[0]
    sub.extra["paths_dropped_as_eventually_false_when_eps_to_0"] = sub.extra.get("paths_dropped_as_eventually_false_when_eps_to_0", 0) + NON_LIMIT_PATHS[0]
    NON_LIMIT_PATHS[0] = 0
    SELFCHECKS[0] = 0


def sec_heavy_nnlo(rep, tier):
    items = [(kind, 4, 3, ch) for kind in ("F2", "FL") for ch in ("gluon", "singlet")]
    if tier == "thorough":
        items += [(kind, 5, 4, ch) for kind in ("F2", "FL") for ch in ("gluon", "singlet")]
    if rep.extra.get("_gather") is not None:
        rep.extra["_gather"] += [("nnlo", it) for it in items]
        return len(items)
    parallel(rep, items, _nnlo_worker, chunk=1)
    return len(items)


def sec_missing(rep, tier):
    """'Missing' diagrams (a light quark couples to the boson, the heavy quark runs in the loop):
    heavy.kernels.generate_missing vs asy.kernels.generate_missing_asy.  Their O(a_s^2) coefficient
    functions are LeProHQ tables (Adler spline) -- out of reach -- but the statement 'the difference
    vanishes for any PDF' needs, before anything else, that every asymptotic kernel carries the parton
    weights of the massive kernel it replaces: decided here for every heavy flavour / nf / kind."""
    from yadism.coefficient_functions import heavy
    from yadism.coefficient_functions.asy import kernels as asyk

    rep.under_contract(heavy.kernels.generate_missing, asyk.generate_missing_asy)
    sy = H.Sy()
    for kind in ("F2", "FL", "F3", "g1"):
        for nf in (3, 4, 5):
            for ihq in range(nf + 1, 7):
                for pto_evol in (1, 2):
                    rep.cases += 1

                    def case(sy, kind=kind, nf=nf, ihq=ihq, pto_evol=pto_evol):
                        cfg = _cfg(sy, "NC", pto_evol)
                        esf = H.FakeESF(sy.x, sy.Q2, H.obs_name(kind, "light"), cfg)
                        with rebind(*_binds(sy)):
                            try:
                                hk = heavy.kernels.generate_missing(esf, nf, ihq)
                                ak = asyk.generate_missing_asy(esf, nf, ihq, pto_evol)
                            except NotImplementedError:
                                return [("explicitly unavailable", True, True)]
                        out = [("one massive kernel, one asymptotic kernel per logarithmic accuracy", (len(hk), len(ak)), (1, pto_evol + 1))]
                        if len(hk) == 1:
                            w = hk[0].partons
                            for i, k in enumerate(ak):
                                out.append((f"asymptotic kernel {i}: same partons", sorted(k.partons), sorted(w)))
                                for pid in sorted(set(w) & set(k.partons)):
                                    out.append((f"asymptotic kernel {i}: weight[{pid}]", k.partons[pid], w[pid]))
                        return out

                    rep.check(f"C08/missing/weights/{kind}/nf={nf}/ihq={ihq}/pto_evol={pto_evol}", case, sy, [sy.x > 0, sy.x <= 1, sy.Q2 > 0] + sy.mass_pre())


SMALL_Z = (1e-4, 1e-3)


def sec_missing_bounded(rep, tier):
    """BOUNDED stand-in for the coefficient functions of the 'missing' channel (LeProHQ dq1 + Adler
    spline: numerical, no contract reaches them): the real massive kernel of generate_missing and the
    real asymptotic kernels of generate_missing_asy are evaluated with floats at Q2/m2 = 1e4 and 1e6,
    z in {0.01, 0.1, 0.5} (0.01 at Q2/m2 = 1e6 probes eta = 2.5e7, just below the eta = 1e8 cut-off of the code): (a) reg+sing pointwise, (b) T[1_[z,1]] = loc(z) + int_z^1 reg (fixes the local
    term).  Each must agree to 2e-3 of its size at 1e6 and not be worse than at 1e4.  Never counted
    as discharged."""
    global EPS_NATIVE
    from yadism.coefficient_functions import heavy
    from yadism.coefficient_functions.asy import kernels as asyk

    sy0 = H.Sy(extra="z eps")
    keep = EPS_NATIVE
    try:
        for kind in ("F2", "FL", "g1"):
            res = {}
            for eps in (1e-4, 1e-6):
                EPS_NATIVE = eps
                sy = sy0.numeric({"z": 0.3, "x": 0.1, "Q2": 30.0})
                _set_mass(sy)
                cfg = _cfg(sy, "NC", 2)
                esf = H.FakeESF(sy.x, sy.Q2, H.obs_name(kind, "light"), cfg)
                hk = heavy.kernels.generate_missing(esf, 3, 4)
                ak = asyk.generate_missing_asy(esf, 3, 4, 2)
                hs, as_ = _kernel_sum(sy, hk, 2), _kernel_sum(sy, ak, 2)
                pid = 1
                for z in (0.01, 0.1, 0.5):
                    res[("rs", z, eps)] = (hs[pid]["reg"](z) + hs[pid]["sing"](z), as_[pid]["reg"](z) + as_[pid]["sing"](z))
                    res[("T", z, eps)] = (_unit_functional(hs[pid], z), _unit_functional(as_[pid], z))
                for z in SMALL_Z:
                    res[("rs", z, eps)] = (hs[pid]["reg"](z) + hs[pid]["sing"](z), as_[pid]["reg"](z) + as_[pid]["sing"](z))
            for q, label in (("rs", "reg+sing-pointwise"), ("T", "T[1_[z,1]]-local-term")):
                rep.cases += 1
                bad = []
                for z in (0.01, 0.1, 0.5):
                    d4 = abs(res[(q, z, 1e-4)][0] - res[(q, z, 1e-4)][1])
                    h6, a6 = res[(q, z, 1e-6)]
                    d6 = abs(h6 - a6)
                    if not (d6 <= 2e-3 * max(1.0, abs(h6), abs(a6)) and d6 <= max(d4, 1e-6) * 1.5):
                        bad.append((z, round(h6, 4), round(a6, 4), round(d4, 4)))
                o = Ob(f"C08/missing/bounded/NC-{kind}-non-singlet/{label}/massive->asymptotic@Q2/m2=1e4,1e6", "bounded", PROVED if not bad else "refuted", "native", 0, "agree" if not bad else f"(z, massive at 1e6, asymptotic at 1e6, |difference| at 1e4): {bad}", {} if not bad else {"Q2/m2": 1e6, "z": bad[0][0], "massive": bad[0][1], "asymptotic": bad[0][2]}, {"confirmed": True, "note": "evaluated on the real kernels with floats"} if bad else {})
                o.bounded = True
                rep.add(o)
            # small z (grids reach 1e-4 and below): eta = xi/(4z) is beyond 1e8 there at Q2/m2 = 1e6; the
            # tables lose digits close to where LeProHQ stops answering, so only the relative size is asked for
            rep.cases += 1
            bad = []
            for z in SMALL_Z:
                h6, a6 = res[("rs", z, 1e-6)]
                if not abs(h6 - a6) <= 2e-3 * max(1.0, abs(h6), abs(a6)):
                    bad.append((z, round(h6, 4), round(a6, 4)))
            o = Ob(f"C08/missing/bounded/NC-{kind}-non-singlet/reg+sing-pointwise/small-z/massive->asymptotic@Q2/m2=1e6", "bounded", PROVED if not bad else "refuted", "native", 0, f"z in {SMALL_Z}: " + ("agree to 2e-3" if not bad else f"(z, massive, asymptotic): {bad}"), {} if not bad else {"Q2/m2": 1e6, "z": bad[0][0], "massive": bad[0][1], "asymptotic": bad[0][2]}, {"confirmed": True, "note": "evaluated on the real kernels with floats"} if bad else {})
            o.bounded = True
            rep.add(o)
    finally:
        EPS_NATIVE = keep


def sec_weights(rep, tier):
    """Weight correspondence for EVERY (nf, heavy flavour above nf) -- also the non-adjacent ones
    (bottom or top with nf = 3) that the limit sections do not enumerate: per channel the asymptotic
    kernels of generate_heavy_asy / generate_intrinsic_asy carry exactly the parton weights of the
    massive kernels of heavy.kernels.generate / intrinsic.kernels.generate."""
    from yadism.coefficient_functions import heavy, intrinsic
    from yadism.coefficient_functions.asy import kernels as asyk

    sy = H.Sy()

    def wkey(partons):
        return repr(sorted((pid, repr(w)) for pid, w in partons.items()))

    for process in ("NC", "CC"):
        for kind in ("F2", "FL", "F3"):
            for nf in (3, 4, 5):
                for ihq in range(nf + 1, 7):
                    rep.cases += 1

                    def case(sy, process=process, kind=kind, nf=nf, ihq=ihq):
                        cfg = _cfg(sy, process, 2)
                        esf = H.FakeESF(sy.x, sy.Q2, H.obs_name(kind, HQ_NAME[ihq]), cfg)
                        out = []
                        with rebind(*_binds(sy)):
                            for fam, gen_m, gen_a in (("heavy", lambda: heavy.kernels.generate(esf, nf, ihq), lambda: asyk.generate_heavy_asy(esf, nf, 2, ihq)), ("intrinsic", lambda: intrinsic.kernels.generate(esf, ihq), lambda: asyk.generate_intrinsic_asy(esf, nf, 2, ihq))):
                                try:
                                    mk, ak = gen_m(), gen_a()
                                except NotImplementedError:
                                    out.append((f"{fam}: explicitly unavailable", True, True))
                                    continue
                                minus = ("Sminus", "Rminus")  # weight differences that do not contribute asymptotically
                                m_keys = {wkey(k.partons): type(k.coeff).__name__ for k in mk if type(k.coeff).__name__ not in minus}
                                a_keys = {wkey(k.partons): type(k.coeff).__name__ for k in ak}
                                for key, nm in sorted(a_keys.items(), key=lambda t: t[1]):
                                    out.append((f"{fam}: the weights of asymptotic kernel {nm} are those of a massive kernel", key in m_keys, True))
                                if ak:
                                    for key, nm in sorted(m_keys.items(), key=lambda t: t[1]):
                                        out.append((f"{fam}: the weights of massive kernel {nm} are carried by an asymptotic kernel", key in a_keys, True))
                        return out

                    rep.check(f"C08/weights/{process}/{kind}/nf={nf}/ihq={ihq}", case, sy, [sy.x > 0, sy.x <= 1, sy.Q2 > 0] + sy.mass_pre())


def sec_selfcheck(rep):
    """Canaries for the limit engine: known limits must come out, wrong ones must not, and what
    the engine cannot decide must be OutOfReach (never a value)."""
    from pvc.limit import LOG_EPS
    from pvc.ratfun import Normaliser
    from pvc.sym import fn

    e, z = R.var("eps"), R.var("z")
    pre = [e > 0, e < 1, z > 0, z < 1]
    sq = fn("sqrt", 1 + 4 * e)
    good = [
        ("log(z+eps) -> log z", fn("log", z + e), fn("log", z)),
        ("eps*log(eps) -> 0", e * fn("log", e), R.const(0)),
        ("log(eps*z/(1+eps)) -> LOG_EPS + log z", fn("log", e * z / (1 + e)), LOG_EPS + fn("log", z)),
        ("(sqrt(1+4eps)-1)/eps: numerator with a hidden zero over eps is refused (no value)", None, None),
        ("log(1+2eps-sqrt(1+4eps)) -> 2 LOG_EPS + log 2  (conjugate rule: (1+2e)^2-(1+4e) = 4e^2)", fn("log", 1 + 2 * e - sq), 2 * LOG_EPS + fn("log", R.const(2))),
        ("li2(1/(1+eps)) -> pi^2/6", fn("li2", 1 / (1 + e)), R.const(3.141592653589793) ** 2 / 6),
        ("eps/(sqrt(1+4eps)-1) -> 1/2  (hidden zero of a denominator: rationalised, not 0)", e / (sq - 1), R.const(1) / 2),
        ("li2(-1/eps) -> -pi^2/6 - LOG_EPS^2/2", fn("li2", -1 / e), -(R.const(3.141592653589793) ** 2) / 6 - LOG_EPS * LOG_EPS / 2),
    ]
    for name, t, exp in good:
        if t is None:
            try:
                v = limit0((sq - 1) / e, e, pre)
                ok = False
                detail = f"returned {v!r:.80} instead of refusing"
            except OutOfReach as ex:
                ok, detail = True, f"OutOfReach: {ex}"
            rep.add(Ob(f"C08/selfcheck/{name}", "canary", PROVED if ok else "error", "limit", 0, detail))
            continue
        try:
            got = limit0(R.lift(t), e, pre)
            st = Normaliser(pre).identity(R.lift(got), R.lift(exp), 1e-12)[0]
            ok, detail = st == "proved", f"{got!r:.100}"
        except Exception as ex:  # noqa
            ok, detail = False, f"{type(ex).__name__}: {ex}"
        rep.add(Ob(f"C08/selfcheck/{name}", "canary", PROVED if ok else "error", "limit", 0, detail))
    wrong = [
        ("log(z+eps) is NOT log(2z) in the limit", fn("log", z + e), fn("log", 2 * z)),
        ("log(eps) does not vanish", fn("log", e) * z, R.const(0)),
        ("(1+eps)^2 z -> z, not 2z", (1 + e) ** 2 * z, 2 * z),
    ]
    for name, t, exp in wrong:
        try:
            got = limit0(R.lift(t), e, pre)
            st = Normaliser(pre).identity(R.lift(got), R.lift(exp), 1e-12)[0]
            ok, detail = st != "proved", f"{got!r:.100}"
        except Exception as ex:  # noqa
            ok, detail = False, f"{type(ex).__name__}: {ex}"
        rep.add(Ob(f"C08/selfcheck/{name}", "canary", PROVED if ok else "error", "limit", 0, detail))


def _any_worker(sub, tagged):
    tag, item = tagged
    {"heavy": _heavy_worker, "intrinsic": _intrinsic_worker, "nnlo": _nnlo_worker, "history": _history_worker}[tag](sub, item)


def sec_convolution_lemma(rep):
    """'for any PDF': the pointwise statements above reach the structure functions through the
    convolution, whose contract (every combination of regular / plus-distribution / local parts present or
    absent -- the asymptotic matching term is a pure plus distribution) is C01's, re-discharged here."""
    from . import c01

    c01.sec_quad_kers(rep)
    c01.sec_convolution(rep)


def run(rep, tier, seed, only=None):
    secs = {"heavy": lambda: sec_heavy(rep, tier), "intrinsic": lambda: sec_intrinsic(rep, tier), "nnlo": lambda: sec_heavy_nnlo(rep, tier), "history": lambda: sec_history(rep, tier), "missing": lambda: sec_missing(rep, tier), "weights": lambda: sec_weights(rep, tier), "missingbounded": lambda: sec_missing_bounded(rep, tier), "schemedispatch": lambda: H.scheme_families(rep, tier), "special": lambda: H.special_functions_contract(rep), "convolution": lambda: sec_convolution_lemma(rep), "selfcheck": lambda: sec_selfcheck(rep)}
    # the long O(a_s^2) items run first and share the pool with the short ones
    rep.extra["_gather"] = [] if rep.replay_target is None else None
    for name, f in secs.items():
        if only and only not in name:
            continue
        rep.add(guarded(f"C08/{name}", lambda f=f: (f(), [])[1]))
    gathered = rep.extra.pop("_gather", None)
    if gathered:
        gathered.sort(key=lambda t: 0 if t[0] == "nnlo" else (1 if t[0] == "history" else 2))
        rep.add(guarded("C08/pool", lambda: (parallel(rep, gathered, _any_worker, chunk=1), [])[1]))
    rep.assume(
        "L-lim (textbook): a polynomial in log(eps) and in atoms analytic (Li2: Hoelder) at eps = 0 over a denominator that does not vanish there differs from its value 'at eps = 0 with log(eps) kept' by O(eps log^k eps)",
        "pointwise convergence of reg+sing and loc in z plus the domination of the plus-distribution integrand by its massless limit gives convergence of the convolution for any PDF (dominated convergence; not machine-checked)",
        "A-LeProHQ-grid: at O(a_s^2) the massive NC coefficients are numerical tables (LeProHQ bulk grids, Adler spline): no contract can relate them to the asymptotic formulas -- NOT covered",
        "LeProHQ.cg0 is executed from its Python source with the JIT disabled (same source numba compiles; C18 covers the compiled/interpreted agreement only for yadism's own kernels)",
        "weights are the uninterpreted contract values w(|pid|, type) of get_weight (C02)",
        "limit paths: a branch of the code under analysis on a comparison that involves eps belongs to the limit only if its condition holds for all small eps; decided by evaluating the eps-dependent literals of the path condition at eps = 1e-30 and 1e-45 on 40 admissible sample points (sampled, not proved; mixed verdicts leave the case undecided; the number of dropped paths is reported)",
        "a case the limit engine refuses (self-check disagreement) is looked at natively at Q2/m2 = 1e6, 1e8 (bounded): a violation only with a failing float input on the real code, otherwise undecided",
    )
