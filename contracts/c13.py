"""C13 -- symmetry and decoupling relations between processes and beams.

Lemmas over the coupling/weight contracts of C02 plus the kernel collectors:
  (a) NC -> EM when the Z is decoupled (eta_gZ -> 0); EM has no parity-violating weights
  (b) positron with polarisation P  ==  electron with polarisation -P
  (c) CC: antineutrino / e+ kernels are the neutrino / e- kernels on charge-conjugated partons,
      with a sign flip exactly for the parity-violating kinds, arbitrary CKM
  (d) NC/EM massless: weights of two active quarks of equal charge type coincide, and all
      partons of a kernel share one coefficient-function object
"""
from __future__ import annotations

from pvc.core import ob_eval, guarded, Ob, PROVED, REFUTED
from pvc.diff import d as ddx
from pvc.stubs import rebind
from pvc.sym import R, Not, Eq

from . import harness as H
from .c02 import ew_pre, POS, MASKS

LEVEL = "proof"


def sec_decoupling(rep):
    from yadism.coefficient_functions.coupling_constants import CouplingConstants as CC

    rep.under_contract(CC.get_weight, CC.get_fl11_weight, CC.propagator_factor)
    sy = H.Sy(extra="eta")
    pre = ew_pre(sy)

    def prop_stub(eta):
        def f(self, mode, Q2):
            return {"phph": 1, "phZ": eta, "ZZ": eta * eta}[mode]

        return f

    # eta_gZ * (MZ2 + Q2) does not depend on MZ2  ==>  eta_gZ = K/(MZ2+Q2) -> 0 as MZ -> infinity
    def case_eta(sy):
        cc = H.coupling_constants(sy, "NC", "electron")
        if sy.is_numeric:
            a = cc.propagator_factor("phZ", sy.Q2) * (sy.MZ2 + sy.Q2)
            cc.theory_config["MZ2"] = sy.MZ2 * 3.0
            b = cc.propagator_factor("phZ", sy.Q2) * (sy.MZ2 * 3.0 + sy.Q2)
            return [("eta*(MZ2+Q2) independent of MZ2", a - b, 0)]
        e = cc.propagator_factor("phZ", sy.Q2) * (sy.MZ2 + sy.Q2)
        return [("eta*(MZ2+Q2) independent of MZ2", ddx(R.lift(e), sy.MZ2), 0), ("ZZ = phZ^2", cc.propagator_factor("ZZ", sy.Q2), cc.propagator_factor("phZ", sy.Q2) ** 2)]

    rep.cases += 1
    rep.check("C13/decoupling/propagator-vanishes", case_eta, sy, pre, kind="lemma")

    for proj in H.PROJECTILES:
        for pos in (None, "up", "strange"):
            for q in range(1, 7):
                for ct in H.COUPLING_TYPES:
                    rep.cases += 1

                    def case(sy, proj=proj, pos=pos, q=q, ct=ct):
                        nc = H.coupling_constants(sy, "NC", proj, pos)
                        em = H.coupling_constants(sy, "EM", proj, pos)
                        out = []
                        with rebind((CC, "propagator_factor", prop_stub(0))):
                            out.append(("get_weight[eta=0]=EM", nc.get_weight(q, sy.Q2, ct), em.get_weight(q, sy.Q2, ct)))
                            for nf in (3, 4, 5, 6):
                                out.append((f"get_fl11_weight[eta=0]=EM/nf={nf}", nc.get_fl11_weight(q, sy.Q2, nf, ct), em.get_fl11_weight(q, sy.Q2, nf, ct)))
                        if ct in ("VA", "AV"):
                            out.append(("EM-parity-violating-weight=0", em.get_weight(q, sy.Q2, ct), 0))
                        return out

                    rep.check(f"C13/decoupling/{proj}/pos={pos}/{q}/{ct}", case, sy, pre, kind="lemma")
    rep.sample({"decoupling": "get_weight(NC) with propagator_factor(phZ)=eta, (ZZ)=eta^2 evaluated at eta=0 equals get_weight(EM); eta*(MZ2+Q2) has zero MZ2-derivative"})


def sec_positron(rep):
    from yadism.coefficient_functions.coupling_constants import CouplingConstants as CC

    sy = H.Sy()
    pre = ew_pre(sy)
    for process in ("EM", "NC"):
        for pos in (None, "charm"):
            for q in range(1, 7):
                for ct in H.COUPLING_TYPES:
                    rep.cases += 1

                    def case(sy, process=process, pos=pos, q=q, ct=ct):
                        pos_c = H.coupling_constants(sy, process, "positron", pos)
                        ele_c = H.coupling_constants(sy, process, "electron", pos)
                        ele_c.obs_config["polarization"] = -sy.pol
                        out = [("get_weight", pos_c.get_weight(q, sy.Q2, ct), ele_c.get_weight(q, sy.Q2, ct))]
                        for nf in (3, 4, 5, 6):
                            out.append((f"get_fl11_weight/nf={nf}", pos_c.get_fl11_weight(q, sy.Q2, nf, ct), ele_c.get_fl11_weight(q, sy.Q2, nf, ct)))
                        return out

                    rep.check(f"C13/positron(P)=electron(-P)/{process}/pos={pos}/{q}/{ct}", case, sy, pre, kind="lemma")


def sec_cc_conjugation(rep):
    from yadism.coefficient_functions import kernels

    rep.under_contract(kernels.cc_weights, kernels.cc_weights_even, kernels.cc_weights_odd)
    sy = H.Sy()
    pairs = (("antineutrino", "neutrino"), ("positron", "electron"))
    for anti, part in pairs:
        for nf in range(3, 7):
            for is_pv in (False, True):
                for mask in MASKS:
                    rep.cases += 1

                    def case(sy, anti=anti, part=part, nf=nf, is_pv=is_pv, mask=mask):
                        out = []
                        sgn = -1 if is_pv else 1
                        for fn in (kernels.cc_weights, kernels.cc_weights_even, kernels.cc_weights_odd):
                            wa = fn(H.WStub(sy, "CC", H.PROJECTILES[anti]), sy.Q2, mask, nf, is_pv)
                            wp = fn(H.WStub(sy, "CC", H.PROJECTILES[part]), sy.Q2, mask, nf, is_pv)
                            out.append((f"{fn.__name__}/channels", sorted(wa), sorted(wp)))
                            used = {"cc_weights": ("ns", "g"), "cc_weights_even": ("ns",) if is_pv else ("ns", "g", "s"), "cc_weights_odd": ("ns", "v") if is_pv else ("ns",)}[fn.__name__]
                            for ch in wa:
                                if ch not in used:
                                    continue  # entries never read by any generator for this parity
                                keys = set(wa[ch]) | {(-k if k != 21 else 21) for k in wp.get(ch, {})}
                                for k in sorted(keys):
                                    ck = -k if k != 21 else 21
                                    out.append((f"{fn.__name__}/{ch}[{k}]", wa[ch].get(k, 0), sgn * wp[ch].get(ck, 0)))
                        return out

                    rep.check(f"C13/cc-conjugation/weights/{anti}/nf={nf}/pv={is_pv}/{mask}", case, sy, kind="lemma")

    # kernel level: the collected kernel lists (all schemes) are conjugate
    for anti, part in pairs:
        for scheme, nf_ff in (("ZM-VFNS", 3), ("FFNS", 3), ("FFNS", 4), ("FFN0", 3), ("FFN0", 4), ("FONLL-FFNS", 4)):
            for kind in ("F2", "FL", "F3"):
                for flavor in ("light", "total", "charm", "bottom"):
                    for nf in ((3, 4, 5) if scheme == "ZM-VFNS" else (nf_ff,)):
                        rep.cases += 1

                        def case(sy, anti=anti, part=part, scheme=scheme, nf_ff=nf_ff, kind=kind, flavor=flavor, nf=nf):
                            views = {}
                            for proj in (anti, part):
                                cfg = H.make_configs(sy, process="CC", projectile=proj, scheme=scheme, nf_ff=nf_ff, pto=1, pto_evol=1)
                                cfg.managers["coupling_constants"] = H.WStub(sy, "CC", H.PROJECTILES[proj])
                                try:
                                    ks, _ = H.collect(sy, cfg, kind, flavor, nf, what="collect")
                                except KeyError as e:
                                    # known C16 finding (parity-violating heavylight: w_odd["s"]); same on both beams
                                    views[proj] = ("KeyError", str(e))
                                    continue
                                views[proj] = H.kernel_view(ks)
                            va, vp = views[anti], views[part]
                            if isinstance(va, tuple) or isinstance(vp, tuple):
                                return [("both-raise-alike", va, vp)]
                            sgn = -1 if kind in H.PV_KINDS else 1
                            out = [("same-coefficient-objects", sorted(map(repr, va)), sorted(map(repr, vp)))]
                            for key in va:
                                if key not in vp:
                                    continue
                                ks_ = set(va[key]) | {(-k if k != 21 else 21) for k in vp[key]}
                                for k in sorted(ks_):
                                    ck = -k if k != 21 else 21
                                    out.append((f"{key[0][0]}.{key[0][1]}[{k}]", va[key].get(k, 0), sgn * vp[key].get(ck, 0)))
                            return out

                        rep.check(f"C13/cc-conjugation/kernels/{anti}/{scheme}{nf_ff}/{kind}_{flavor}/nf={nf}", case, sy, kind="lemma")


def sec_cc_conjugation_targets(rep):
    """The conjugation relation on nuclear targets: the kernels as handed to the convolution
    (Combiner.collect_elems, i.e. AFTER the isospin rotation) of an anti-lepton beam are the
    charge-conjugated ones of the lepton beam, for proton, neutron and iron alike (the rotation
    commutes with charge conjugation; a rotation applied to one beam only breaks it).  The collectors
    branch on discrete data only, so generic concrete weights (pseudo-random contract values of
    get_weight, the same for both beams) decide the linear relation."""
    sy = H.Sy().numeric({"x": 0.01, "Q2": 5.0e4, "m2c": 2.0, "m2b": 20.0, "m2t": 3.0e4})
    pairs = (("antineutrino", "neutrino"), ("positron", "electron"))
    for anti, part in pairs:
        for scheme, nf_ff in (("ZM-VFNS", 3), ("FFNS", 3), ("FFNS", 4), ("FFN0", 3), ("FONLL-FFNS", 4), ("FONLL-FFN0", 4)):
            for kind in ("F2", "FL", "F3"):
                for flavor in ("light", "total", "charm", "bottom"):
                    for target in ((1, 1), (0, 1), (26, 56), (82, 208)):
                        nf = 4 if scheme == "ZM-VFNS" else nf_ff
                        rep.cases += 1
                        name = f"C13/cc-conjugation/kernels-after-isospin/{anti}/{scheme}{nf_ff}/{kind}_{flavor}/Z={target[0]},A={target[1]}"
                        views = {}
                        try:
                            for proj in (anti, part):
                                cfg = H.make_configs(sy, process="CC", projectile=proj, scheme=scheme, nf_ff=nf_ff, pto=1, pto_evol=1, target=target)
                                cfg.managers["coupling_constants"] = H.WStub(sy, "CC", H.PROJECTILES[proj], cc_spec=True)
                                ks, _ = H.collect(sy, cfg, kind, flavor, nf, what="collect_elems")
                                views[proj] = H.kernel_view(ks)
                        except (NotImplementedError, ValueError):
                            rep.extra["cells_rejected"] = rep.extra.get("cells_rejected", 0) + 1
                            continue
                        va, vp = views[anti], views[part]
                        sgn = -1 if kind in H.PV_KINDS else 1
                        bad = []
                        if sorted(map(repr, va)) != sorted(map(repr, vp)):
                            bad.append(("coefficient objects differ", sorted(map(repr, set(va) ^ set(vp)))[:2]))
                        for key in va:
                            if key not in vp:
                                continue
                            for k in sorted(set(va[key]) | {(-k if k != 21 else 21) for k in vp[key]}):
                                ck = -k if k != 21 else 21
                                a_, p_ = float(va[key].get(k, 0)), sgn * float(vp[key].get(ck, 0))
                                if abs(a_ - p_) > 1e-12 * max(1.0, abs(a_), abs(p_)):
                                    bad.append((f"{key[0][0]}.{key[0][1]}[{k}]", a_, p_))
                        rep.add(ob_eval(name, not bad, kind="lemma", detail=f"{len(va)} kernel classes" + (f"; violated: {bad[:3]}" if bad else ""), inputs={} if not bad else {"cell": name, "violated (entry, anti-beam weight, conjugated beam weight)": str(bad[:3])}))


def sec_flavour_symmetry(rep):
    from yadism.coefficient_functions import light

    rep.under_contract(light.kernels.nc_weights, light.kernels.generate)
    sy = H.Sy()
    pre = ew_pre(sy)
    # (d1) get_weight depends on the quark only through its charge type
    for process in ("EM", "NC"):
        for proj in H.PROJECTILES:
            for ct in H.COUPLING_TYPES:
                for q, q2 in ((1, 3), (1, 5), (3, 5), (2, 4), (2, 6), (4, 6)):
                    rep.cases += 1

                    def case(sy, process=process, proj=proj, ct=ct, q=q, q2=q2):
                        cc = H.coupling_constants(sy, process, proj)
                        out = [("get_weight", cc.get_weight(q, sy.Q2, ct), cc.get_weight(q2, sy.Q2, ct))]
                        for nf in (3, 4, 5, 6):
                            out.append((f"get_fl11_weight/nf={nf}", cc.get_fl11_weight(q, sy.Q2, nf, ct), cc.get_fl11_weight(q2, sy.Q2, nf, ct)))
                        return out

                    rep.check(f"C13/flavour-symmetry/get_weight/{process}/{proj}/{ct}/{q}~{q2}", case, sy, pre, kind="lemma")
    # (d2) the massless kernel list: weight dictionaries symmetric under q <-> q' (both active), one
    # coefficient object per kernel (so exchanging the two PDFs leaves the contraction unchanged)
    for process in ("EM", "NC"):
        for kind in H.SF_KINDS:
            for nf in range(3, 7):
                for pto in (0, 3):
                    if pto == 3 and kind not in ("F2", "FL", "F3"):
                        continue  # polarised N3LO light classes do not exist (C16 finding)
                    rep.cases += 1

                    def case(sy, process=process, kind=kind, nf=nf, pto=pto):
                        cfg = H.make_configs(sy, process=process, projectile="electron", scheme="ZM-VFNS", pto=pto)
                        esf = H.FakeESF(sy.x, sy.Q2, H.obs_name(kind, "light"), cfg)
                        ks = light.kernels.generate(esf, nf)
                        out = []
                        for k in ks:
                            nm = type(k.coeff).__name__
                            for q in range(1, nf + 1):
                                for q2 in range(q + 2, nf + 1, 2):
                                    for s in (1, -1):
                                        if (s * q in k.partons) or (s * q2 in k.partons):
                                            out.append((f"{nm}[{s*q}]=[{s*q2}]", k.partons.get(s * q, 0), k.partons.get(s * q2, 0)))
                        return out or [("no-quark-weights", 0, 0)]

                    rep.check(f"C13/flavour-symmetry/kernels/{process}/{kind}/nf={nf}/pto={pto}", case, sy, pre, kind="lemma")


def sec_flavour_symmetry_tagged(rep):
    """(d3) flavour-tagged observables in the massless scheme: every kernel the REAL Combiner
    collects for F_charm / F_bottom / F_top weights two active quarks of identical charges equally,
    as long as neither is the tagged quark (whose coupling is the only one switched on)."""
    import yadism.coefficient_functions as cf

    rep.under_contract(cf.Combiner.collect, cf.Combiner.heavylight_components)
    sy = H.Sy()
    pre = [sy.x > 0, sy.x <= 1, sy.Q2 > 0] + sy.mass_pre()
    flav_q = {"charm": 4, "bottom": 5, "top": 6}
    for process in ("EM", "NC"):
        for kind in ("F2", "FL", "F3", "g1"):
            for flavor, hq in flav_q.items():
                for nf in range(hq, 7):
                    for pto in (2, 3):
                        if pto == 3 and kind not in ("F2", "FL", "F3"):
                            continue
                        rep.cases += 1

                        def case(sy, process=process, kind=kind, flavor=flavor, hq=hq, nf=nf, pto=pto):
                            c = dict(process=process, projectile="electron", scheme="ZM-VFNS", nf_ff=3, nf=nf, kind=kind, flavor=flavor, pto=pto, pto_evol=2, fonllparts="full")
                            cfg = H.cell_configs(sy, c)
                            ks, _ = H.collect(sy, cfg, kind, flavor, nf, what="collect")
                            out = [("kernels collected", len(ks) > 0, True)]
                            for k in ks:
                                nm = type(k.coeff).__name__
                                for q in range(1, nf + 1):
                                    for q2 in range(q + 2, nf + 1, 2):
                                        if hq in (q, q2):
                                            continue
                                        for s_ in (1, -1):
                                            out.append((f"{nm}[{s_*q}]=[{s_*q2}]", k.partons.get(s_ * q, 0), k.partons.get(s_ * q2, 0)))
                            return out

                        rep.check(f"C13/flavour-symmetry/tagged/{process}/{kind}_{flavor}/nf={nf}/pto={pto}", case, sy, pre, kind="lemma", max_paths=16)


def sec_selfcheck(rep, seed):
    """Canary: the wrong leptonic coupling of canaries/c02 must break positron(P)=electron(-P)."""
    from pvc.core import Report
    from yadism.coefficient_functions.coupling_constants import CouplingConstants as CC
    from canaries import c02 as canary

    sy = H.Sy()
    scratch = Report(rep.pid, rep.tier, seed)

    def case(sy):
        with rebind((CC, "leptonic_coupling", canary.leptonic_coupling_noflip)):
            pos_c = H.coupling_constants(sy, "NC", "positron")
            ele_c = H.coupling_constants(sy, "NC", "electron")
            ele_c.obs_config["polarization"] = -sy.pol
            return pos_c.get_weight(2, sy.Q2, "VV"), ele_c.get_weight(2, sy.Q2, "VV")

    scratch.check("canary", case, sy, ew_pre(sy))
    o = scratch.obs[0]
    rep.add(Ob("C13/selfcheck/canary-refuted", "canary", PROVED if o.status == REFUTED else "error", "ratfun", o.seconds, f"wrong variant: {o.status}; replay confirmed={o.replay.get('confirmed')}"))


def sec_decoupling_via_card(rep):
    """Decoupling the Z the way a user does it -- MZ = inf in the theory card -- through the real
    CouplingConstants.from_dict: the card value is used as given (infinity is a legal value, not a
    missing one), the propagator factors vanish and every NC weight equals the EM one."""
    import math

    from yadism.coefficient_functions.coupling_constants import CouplingConstants

    rep.under_contract(CouplingConstants.from_dict)
    for proj in ("electron", "positron", "neutrino"):
        for pol in (0.0, 0.7):
            rep.cases += 1
            th = H.base_theory(MZ=math.inf)
            nc = CouplingConstants.from_dict(th, H.base_obs(prDIS="NC", ProjectileDIS=proj, PolarizationDIS=pol))
            em = CouplingConstants.from_dict(th, H.base_obs(prDIS="EM", ProjectileDIS=proj, PolarizationDIS=pol))
            bad = []
            if not math.isinf(float(nc.theory_config["MZ2"])):
                bad.append(("MZ2 stored", float(nc.theory_config["MZ2"])))
            for Q2 in (1.0, 100.0, 1.0e4):
                for q in range(1, 7):
                    for ct in ("VV", "AA", "VA", "AV"):
                        a, b = float(nc.get_weight(q, Q2, ct)), float(em.get_weight(q, Q2, ct))
                        if proj == "neutrino":
                            b = 0.0  # a neutrino has no electromagnetic coupling: with the Z decoupled nothing is left
                        if abs(a - b) > 1e-14:
                            bad.append((q, Q2, ct, a, b))
            rep.add(ob_eval(f"C13/decoupling/card MZ=inf through from_dict/{proj}/pol={pol}: NC weights == EM weights", not bad, detail=str(bad[:3]), inputs={} if not bad else {"card": "MZ = inf", "violated (quark, Q2, type, NC, EM)": str(bad[:3])}))


def sec_xs_conjugation(rep):
    """Cross-section level of the conjugation relations: with abstract structure functions,
    sigma(antiparticle beam)[F2, FL, -xF3] == sigma(particle beam)[F2, FL, xF3] order key by order key,
    through the REAL EvaluatedCrossSection.get_result on both beams (no spec formula involved)."""
    from yadism.esf import exs
    from yadism.esf.result import ESFResult
    from .c11 import UNPOL, kin_pre, _FakeSF

    rep.under_contract(exs.EvaluatedCrossSection.get_result)
    keys = [(0, 0, 0, 0), (1, 0, 0, 0), (1, 0, 1, 0)]
    for kind in UNPOL:
        for part, anti in (("electron", "positron"), ("neutrino", "antineutrino")):
            for flavor in ("total", "charm"):
                rep.cases += 1
                sy = H.Sy()

                def case(sy, kind=kind, part=part, anti=anti, flavor=flavor):
                    def sigma(proj, f3sign):
                        cfg = H.make_configs(sy, process="NC", projectile=proj)
                        kin = {"x": sy.x, "Q2": sy.Q2, "y": sy.y}

                        def get_esf(on, k):
                            sg = f3sign if on.kind == "F3" else 1
                            return _FakeSF(ESFResult(k["x"], k["Q2"], 4, {key: (sg * sy.U("v", on.kind, str(key)), sy.U("e", on.kind, str(key))) for key in keys}))

                        return exs.EvaluatedCrossSection(kin, H.obs_name(kind, flavor), cfg, get_esf).get_result()

                    a, b = sigma(part, 1), sigma(anti, -1)
                    out = [("order keys", sorted(b.orders), sorted(a.orders))]
                    for key in a.orders:
                        if key in b.orders:
                            out.append((f"value{key}", b.orders[key][0], a.orders[key][0]))
                    return out

                extra = [Not(Eq(sy.y**2 / 2 + (1 - sy.y) - sy.M2target * (sy.x * sy.y) ** 2 / sy.Q2, 0))] if kind == "FW" else []
                rep.check(f"C13/xs-conjugation/{kind}_{flavor}/{anti}[F2,FL,-xF3] = {part}[F2,FL,xF3]", case, sy, kin_pre(sy) + extra)


def sec_sv_projectors(rep):
    """The flavour-exchange symmetry of the scale-variation terms rests on the flavour-space
    projectors of the point's own nf (a quark active only at the later point must not drop out):
    the shared-manager RGE history contract of C05, re-discharged here."""
    from . import c05

    c05.sec_rge_shared(rep)


def sec_real_runs(rep, tier):
    """BOUNDED companions on real runs: the four relations of the statement between the operators of
    two real runs (or between rows of one), per entry."""
    import numpy as np

    pts = [{"x": 0.1, "Q2": 20.0}, {"x": 0.3, "Q2": 3000.0}]
    thorough = tier == "thorough"
    schemes = [("ZM-VFNS", 5, 1)] + ([("FFNS", 3, 1), ("FFNS", 4, 2), ("ZM-VFNS", 4, 2)] if thorough else [])
    for scheme, nf_ff, pto in schemes:
        th = dict(FNS=scheme, NfFF=nf_ff, PTO=pto, PTODIS=pto)
        tag = f"{scheme} NfFF={nf_ff} pto={pto}"
        names = ["F2_total", "FL_total"] + (["F2_charm", "g1_total"] if thorough else [])
        # (a) Z decoupled
        H.bounded_ob(rep, f"C13/bounded/real run/{tag}/NC with MZ=inf = EM ({', '.join(names)})", lambda: max((H.ops_deviation(a[n], b[n]) for a, b in [(H.real_ops(dict(th, MZ=float("inf")), dict(prDIS="NC", PolarizationDIS=0.3), names, pts)[0], H.real_ops(th, dict(prDIS="EM", PolarizationDIS=0.3), names, pts)[0])] for n in names), key=lambda t: t[0]))
        # (b) positron P = electron -P
        nb = ["F2_total", "FL_total", "F3_total"] + (["g1_total", "F3_charm"] if thorough else [])
        for pol in (0.4,) + ((-1.0, 0.0) if thorough else ()):
            H.bounded_ob(rep, f"C13/bounded/real run/{tag}/NC positron P={pol} = electron P={-pol} ({', '.join(nb)})", lambda pol=pol: max((H.ops_deviation(a[n], b[n]) for a, b in [(H.real_ops(th, dict(prDIS="NC", ProjectileDIS="positron", PolarizationDIS=pol), nb, pts)[0], H.real_ops(th, dict(prDIS="NC", ProjectileDIS="electron", PolarizationDIS=-pol), nb, pts)[0])] for n in nb), key=lambda t: t[0]))
        # (c) charge conjugation in CC
        for pa, pb in (("antineutrino", "neutrino"),) + ((("positron", "electron"),) if thorough else ()):
            for tgt in ("proton",) + (("iron",) if thorough else ()):
                for n in ["F2_total", "F3_total"] + (["FL_total", "F2_charm", "F3_charm"] if thorough else []):
                    def fn(n=n, pa=pa, pb=pb, tgt=tgt):
                        a, pids = H.real_ops(th, dict(prDIS="CC", ProjectileDIS=pa, TargetDIS=tgt), [n], pts)
                        b, _ = H.real_ops(th, dict(prDIS="CC", ProjectileDIS=pb, TargetDIS=tgt), [n], pts)
                        perm = [pids.index(-p if abs(p) <= 6 else p) for p in pids]
                        sgn = -1.0 if n.startswith("F3") else 1.0
                        return H.ops_deviation(a[n], b[n], lambda v: sgn * np.asarray(v)[perm])

                    H.bounded_ob(rep, f"C13/bounded/real run/{tag}/CC {tgt}: {n}[{pa}][pid] = {'-' if n.startswith('F3') else '+'}{n}[{pb}][conj pid]", fn)
        # (d) equal-charge quarks in a massless scheme
        if scheme == "ZM-VFNS":
            for pr in ("NC", "EM"):
                for n in ["F2_total", "F2_light"] + (["FL_total", "F3_total"] if thorough and pr == "NC" else []):
                    def fn(n=n, pr=pr):
                        a, pids = H.real_ops(th, dict(prDIS=pr), [n], [pts[1]])  # Q2 above every threshold but top: nf = 5
                        worst, where = 0.0, None
                        for k, (v, _) in a[n][0].items():
                            scale = max(1e-12, float(np.max(np.abs(v))))
                            for grp in ((1, 3, 5), (2, 4), (-1, -3, -5), (-2, -4)):
                                grp = [g for g in grp if abs(g) <= nf_ff]
                                for g in grp[1:]:
                                    d = float(np.max(np.abs(v[pids.index(g)] - v[pids.index(grp[0])]))) / scale
                                    if d > worst:
                                        worst, where = d, (k, g)
                        return worst, where

                    H.bounded_ob(rep, f"C13/bounded/real run/{tag}/{pr} {n}: rows of equal-charge active quarks coincide (d=s=b, u=c)", fn)


def run(rep, tier, seed, only=None):
    rep.assume(
        "Z decoupling is read as eta_gammaZ -> 0 (MZ -> infinity at fixed Q2, sin2theta_w): proved as 'NC weight at eta=0 equals EM weight' plus 'eta*(MZ2+Q2) independent of MZ2'",
        "kernel-level statements use CouplingConstants.get_weight replaced by its contract value w(|pid|,type,mask) (proved under C02)",
        "coefficient-function objects are identified by (class, nf, masses, variation flag): equal ids denote equal distributions (read-set argument, C07)",
        "A-np: numpy object-dtype arithmetic is the real reading of float64 arithmetic",
    )
    rep.stub("Combiner: eko nf_default -> enumerated nf (contract: C06)", "CouplingConstants.get_weight -> uninterpreted w (kernel-level lemmas)")
    secs = [("decoupling", sec_decoupling), ("decouplingcard", sec_decoupling_via_card), ("positron", sec_positron), ("cc", sec_cc_conjugation), ("cctargets", sec_cc_conjugation_targets), ("flavour", sec_flavour_symmetry), ("tagged", sec_flavour_symmetry_tagged), ("xsconj", sec_xs_conjugation), ("svprojectors", sec_sv_projectors), ("weightshistory", H.weights_same_object_history), ("realruns", lambda r: sec_real_runs(r, tier))]
    for nm, f in secs:
        if only and only not in nm:
            continue
        rep.add(guarded(f"C13/{nm}", lambda f=f: (f(rep), [])[1]))
    if not only and rep.replay_target is None:
        rep.add(guarded("C13/selfcheck", lambda: (sec_selfcheck(rep, seed), [])[1]))
    rep.extra["rule"] = "cases = beam pair x process x quark x coupling type x nf x mask x scheme x kind x heavyness (all enumerated); reals symbolic"
