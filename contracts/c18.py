"""C18 -- compiled numerical kernels agree with their Python semantics.

What contracts decide (counted):
  index bounds   for every RSL construction site (class x order x nf, splitting labels) and every
                 part, the largest index the kernel reads from its argument array -- recorded by
                 a read-recording array while the REAL kernel runs symbolically on every path -- is
                 below the length of the array RSL.__init__ packs for that part.  This is the
                 obligation compiled code needs, because it does no bounds checking.
  no semantic fork  AST obligations on every njit function: no construct whose numba semantics
                 differs from CPython's (floor division / modulo, integer power with negative
                 exponent, `is`, global writes, containers), and module globals read by kernels
                 are never written after import.
What they cannot decide (bounded stand-ins, never counted as discharged):
  every declared signature compiles (import with the JIT on in a scratch cache) -- exhaustive;
  differential evaluation dispatcher vs py_func on N sampled arguments per kernel;
  one small end-to-end run per process with the JIT on vs off.
"""
from __future__ import annotations

import ast
import inspect
import json
import os
import shutil
import subprocess
import sys
import tempfile
import textwrap

import numpy as np

from pvc.core import ob_eval, guarded, Ob, PROVED, REFUTED, UNDECIDED, parallel, VERIF
from pvc.stubs import rebind
from pvc.sym import R

from . import harness as H
from . import sites as S
from pvc import boot

LEVEL = "other"


class RecArray:
    """Read-recording stand-in for the argument array of a kernel."""

    def __init__(self, data, log):
        self.data = list(data)
        self.log = log

    def __getitem__(self, i):
        if isinstance(i, slice):
            self.log.append(("slice", i.start, i.stop))
            return RecArray(self.data[i], self.log)
        self.log.append(int(i))
        return self.data[int(i)] if -len(self.data) <= int(i) < len(self.data) else 0.0

    def __len__(self):
        return len(self.data)

    def __iter__(self):
        self.log.append(("iter", len(self.data)))
        return iter(self.data)

    @property
    def shape(self):
        return (len(self.data),)


# ---------------------------------------------------------------- declared signatures as preconditions
SIG_VIOLATIONS = []  # (callee, position, declared type, what was passed) recorded while a case runs
_SIG_BINDS = None


def _parse_sig(txt):
    """'nb.njit("f8(f8,f8[:])", cache=True)' -> (ret, [arg types]) or None"""
    import re

    m = re.search(r"""["']\s*([\w\[\]:, ]+?)\s*\((.*)\)\s*["']""", txt)
    if not m:
        return None
    args = [a.strip() for a in m.group(2).split(",")] if m.group(2).strip() else []
    return m.group(1).strip(), args


def _conforms(t, v):
    """Would the eagerly compiled dispatcher of this declared type accept v?  (float64 accepts
    python/numpy reals -- ints are cast --; arrays must be 1-d numeric ndarrays; ints must be ints)"""
    import numbers

    if t == "f8":
        return isinstance(v, (R, numbers.Real, np.floating, np.integer)) and not isinstance(v, (np.ndarray, RecArray))
    if t in ("f8[:]", "f8[::1]"):
        return isinstance(v, RecArray) or (isinstance(v, np.ndarray) and v.ndim == 1 and (v.dtype == object or np.issubdtype(v.dtype, np.floating)))
    if t in ("i8", "i4"):
        return isinstance(v, (int, np.integer)) and not isinstance(v, bool)
    if t == "c16":
        return isinstance(v, (R, numbers.Complex, np.floating, np.integer, np.complexfloating)) or type(v).__name__ == "Cx"
    if t in ("string", "unicode_type"):
        return isinstance(v, str)
    return True  # types this contract does not model are not judged


def signature_binds():
    """Rebindings that wrap every njit-declared function of the package (plain Python with the JIT
    disabled) by a checker of its declared argument types: the compiled dispatcher has no other
    definition, so a call that does not conform raises TypeError only when the JIT is on."""
    global _SIG_BINDS
    if _SIG_BINDS is not None:
        return _SIG_BINDS
    import functools
    import sys
    import types

    H.all_partonic_channel_classes()
    wrappers = {}
    for qn, node, _tree, deco in njit_functions():
        sig = _parse_sig(deco)
        if not sig:
            continue
        modname, fname = qn.rsplit(".", 1)
        mod = sys.modules.get(modname)
        f = getattr(mod, fname, None) if mod else None
        if not isinstance(f, types.FunctionType) or len(sig[1]) != len(node.args.args):
            continue

        def mk(f=f, qn=qn, types_=sig[1]):
            @functools.wraps(f)
            def checked(*a, **kw):
                if not kw and len(a) == len(types_):
                    for i, (t, v) in enumerate(zip(types_, a)):
                        if not _conforms(t, v):
                            SIG_VIOLATIONS.append((qn, i, t, f"{type(v).__name__}: {v!r:.40}"))
                elif kw or len(a) != len(types_):
                    SIG_VIOLATIONS.append((qn, -1, f"{len(types_)} positional arguments", f"{len(a)} positional, keywords {sorted(kw)}"))
                return f(*a, **kw)

            checked.__wrapped_njit__ = f
            return checked

        wrappers[id(f)] = (f, mk())
    binds = []
    for m in list(sys.modules.values()):
        if not isinstance(m, types.ModuleType) or not getattr(m, "__name__", "").startswith(("yadism.coefficient_functions", "yadism.esf")):
            continue
        for name, val in list(m.__dict__.items()):
            w = wrappers.get(id(val))
            if w is not None and w[0] is val:
                binds.append((m, name, w[1]))
    _SIG_BINDS = binds
    return binds


def index_triples(sy, rsl, prefix=""):
    out = []
    for part in ("reg", "sing", "loc"):
        f = getattr(rsl, part)
        if f is None:
            continue
        packed = rsl.args[part]
        log = []
        f(sy.z, RecArray(list(packed), log))
        idx = [i for i in log if isinstance(i, int)]
        mx = max(idx) if idx else -1
        mn = min(idx) if idx else 0
        out.append((f"{prefix}{part}: max index read ({mx}) < packed length ({len(packed)})", mx < len(packed) and mn >= 0, True))
        out.append((f"{prefix}{part}: packed as 1-d float64 array", (getattr(packed, "ndim", None), str(getattr(packed, "dtype", "")) in ("float64", "object")), (1, True)))
    return out


def with_signature_check(sy, thunk):
    """run thunk() with every njit-declared function wrapped by its signature checker; returns
    (result triples + one pre-at-call triple)"""
    del SIG_VIOLATIONS[:]
    with rebind(*signature_binds()):
        out = thunk()
    bad = sorted(set(SIG_VIOLATIONS))
    del SIG_VIOLATIONS[:]
    out = list(out)
    out.append(("pre-at-call: every call of an njit-declared function passes arguments of its declared types", [f"{c} arg{i}: declared {t}, got {g}" for c, i, t, g in bad[:4]], []))
    return out


def site_worker(sub, site):
    sy = H.Sy(extra="z")
    sub.cases += 1

    def case(sy, site=site):
        with rebind(*S.stub_binds(sy)):
            o = site.construct(sy)

            def thunk():
                rsl = o[site.order]()
                if rsl is None:
                    return [("no-kernel-at-this-order", True, True)]
                return index_triples(sy, rsl)

            return with_signature_check(sy, thunk)

    try:
        sub.check(f"C18/index-bounds/{site.name}", case, sy, site.pre(sy), max_paths=256, timeout_ms=5000)
    except Exception as e:  # noqa
        sub.add(Ob(f"C18/index-bounds/{site.name}", "post", UNDECIDED, "engine", 0, f"{type(e).__name__}: {e}"))


def label_worker(sub, item):
    lab, f, nf = item
    sy = H.Sy(extra="z")
    sub.cases += 1

    def case(sy):
        with rebind(*S.stub_binds(sy)):
            return with_signature_check(sy, lambda: index_triples(sy, f(nf)))

    sub.check(f"C18/index-bounds/splitting/{lab}/nf={nf}", case, sy, [sy.z > 0, sy.z < 1])


def sec_index(rep, tier):
    from yadism.esf import tmc
    from yadism.coefficient_functions.partonic_channel import RSL
    import yadism.coefficient_functions.partonic_channel as pcmod
    from pvc.stubs import np_shim_for

    sites, errors = S.all_sites()
    rep.add(ob_eval("C18/module-scan-complete", not errors, detail=str(errors)[:300]))
    parallel(rep, sites, site_worker)
    parallel(rep, [(lab, f, nf) for lab, f in S.splitting_labels() for nf in (3, 4, 5, 6)], label_worker)
    # TMC kernels with the argument vector _convolve_FX packs ([xi])
    sy = H.Sy(extra="z xi")
    for name in ("h2_ker", "g2_ker", "h3_ker", "k2_ker"):
        rep.cases += 1

        def case(sy, name=name):
            with rebind(*([] if sy.is_numeric else np_shim_for(pcmod, tmc))):
                return index_triples(sy, RSL(getattr(tmc, name), args=[sy.xi]))

        rep.check(f"C18/index-bounds/tmc.{name}", case, sy, [sy.z > 0, sy.z < 1, sy.xi > 0, sy.xi < 1])
    # generic distribution helpers: coefficient vectors of length 1..4
    for n in (1, 2, 3, 4):
        rep.cases += 1
        sy2 = H.Sy(extra="z " + " ".join(f"c{i}" for i in range(n)))

        def case(sy, n=n):
            with rebind(*([] if sy.is_numeric else np_shim_for(pcmod))):
                return index_triples(sy, RSL.from_distr_coeffs(None, [getattr(sy, f"c{i}") for i in range(n)]))

        rep.check(f"C18/index-bounds/from_distr_coeffs/n={n}", case, sy2, [sy2.z > 0, sy2.z < 1])
    rep.sample({"index bounds": "light.fl_cc.NonSingletOdd.N3LO: loc = clnm3c_fl2 -> clnp3c_fl2 reads args[0]; RSL packs loc=[nf] (length 1): 0 < 1"})


def njit_functions():
    """(qualified name, function, source AST) of every njit-decorated function of the package."""
    import importlib
    import pkgutil

    import yadism

    out = []
    for m in pkgutil.walk_packages(yadism.__path__, "yadism."):
        if not m.name.startswith(("yadism.coefficient_functions", "yadism.esf")):
            continue
        try:
            mod = importlib.import_module(m.name)
            src = inspect.getsource(mod)
        except Exception:  # noqa
            continue
        tree = ast.parse(src)
        for node in ast.walk(tree):
            if isinstance(node, ast.FunctionDef):
                for d in node.decorator_list:
                    txt = ast.unparse(d)
                    if "njit" in txt or "jit(" in txt:
                        out.append((f"{m.name}.{node.name}", node, tree, txt))
    return out


def int_typed_names(node, deco):
    """Names that numba types as integers: i8 parameters of the declared signature, range() loop
    variables, and names only ever assigned integer expressions over such names."""
    import re

    ints = set()
    m = re.search(r"\(([^)]*)\)", deco.split("(", 1)[1] if "(" in deco else "")
    sig = re.search(r"[\"']\s*\w+\(([^)]*)\)", deco)
    if sig:
        types = [t.strip() for t in sig.group(1).split(",")]
        for a, t in zip(node.args.args, types):
            if t.startswith(("i", "u")) and "[" not in t:
                ints.add(a.arg)
    for n in ast.walk(node):
        if isinstance(n, ast.For) and isinstance(n.iter, ast.Call) and isinstance(n.iter.func, ast.Name) and n.iter.func.id == "range" and isinstance(n.target, ast.Name):
            ints.add(n.target.id)
    changed = True
    floats = set()
    while changed:
        changed = False
        for n in ast.walk(node):
            if isinstance(n, ast.Assign) and len(n.targets) == 1 and isinstance(n.targets[0], ast.Name):
                nm = n.targets[0].id
                if is_int_expr(n.value, ints):
                    if nm not in ints and nm not in floats:
                        ints.add(nm)
                        changed = True
                else:
                    if nm in ints:
                        ints.discard(nm)
                    if nm not in floats:
                        floats.add(nm)
                        changed = True
    return ints - floats


def is_int_expr(e, ints):
    if isinstance(e, ast.Constant):
        return isinstance(e.value, int) and not isinstance(e.value, bool)
    if isinstance(e, ast.Name):
        return e.id in ints
    if isinstance(e, ast.UnaryOp) and isinstance(e.op, (ast.USub, ast.UAdd)):
        return is_int_expr(e.operand, ints)
    if isinstance(e, ast.BinOp) and isinstance(e.op, (ast.Add, ast.Sub, ast.Mult, ast.FloorDiv, ast.Mod)):
        return is_int_expr(e.left, ints) and is_int_expr(e.right, ints)
    if isinstance(e, ast.Call) and isinstance(e.func, ast.Name) and e.func.id == "int":
        return True
    return False


def nonneg_exponent(e):
    """Exponent that is not *syntactically* negated: no unary minus, no negative literal.  (A
    variable exponent holding a negative value is beyond an AST lemma; that case is left to the
    differential stand-in.)"""
    if isinstance(e, ast.UnaryOp) and isinstance(e.op, ast.USub):
        return False
    if isinstance(e, ast.Constant) and isinstance(e.value, (int, float)) and e.value < 0:
        return False
    return True


def sec_ast(rep):
    fns = njit_functions()
    rep.add(ob_eval("C18/njit-functions-found", len(fns) >= 100, detail=f"{len(fns)} njit functions"))
    rep.extra["njit_functions"] = len(fns)
    module_writes = {}
    import hashlib

    for name, node, tree, deco in fns:
        rep.cases += 1
        bad = []
        ints = int_typed_names(node, deco)
        mod, _, fn = name.rpartition(".")
        rep.functions[f"{mod}:{fn}"] = hashlib.sha256(ast.unparse(node).encode()).hexdigest()[:16]
        for n in ast.walk(node):
            if isinstance(n, ast.BinOp) and isinstance(n.op, ast.Pow) and is_int_expr(n.left, ints) and not nonneg_exponent(n.right):
                bad.append(f"line {n.lineno}: integer-typed base ** negated exponent ({ast.unparse(n)[:60]}): a float in CPython, an integer power (0 for |base|>1) in numba")
            if isinstance(n, ast.BinOp) and isinstance(n.op, (ast.FloorDiv, ast.Mod)):
                bad.append(f"line {n.lineno}: floor division / modulo (sign conventions differ for floats)")
            if isinstance(n, ast.BinOp) and isinstance(n.op, ast.Pow):
                e = n.right
                neg = isinstance(e, ast.UnaryOp) and isinstance(e.op, ast.USub) and isinstance(e.operand, ast.Constant) and isinstance(e.operand.value, int)
                if neg and isinstance(n.left, ast.Constant) and isinstance(n.left.value, int):
                    bad.append(f"line {n.lineno}: integer ** negative integer (float in CPython, error/zero in numba)")
            if isinstance(n, ast.Compare) and any(isinstance(o, (ast.Is, ast.IsNot)) for o in n.ops):
                bad.append(f"line {n.lineno}: identity comparison")
            if isinstance(n, (ast.Global, ast.Nonlocal)):
                bad.append(f"line {n.lineno}: global/nonlocal statement")
            if isinstance(n, (ast.Dict, ast.Set, ast.ListComp, ast.DictComp, ast.SetComp, ast.Try, ast.With, ast.Lambda)):
                bad.append(f"line {n.lineno}: {type(n).__name__} (reflected containers / unsupported or differently typed in nopython mode)")
            if isinstance(n, ast.Call) and isinstance(n.func, ast.Name) and n.func.id in ("round", "divmod", "hash", "isinstance", "print"):
                bad.append(f"line {n.lineno}: call of {n.func.id}")
        # explicit signature declared (eager compilation => the compile-all stand-in is exhaustive)
        has_sig = '"' in deco or "'" in deco
        sig = _parse_sig(deco)
        if sig:
            import re

            narrow = [t for t in [sig[0]] + sig[1] for tok in re.findall(r"\b(f4|c8|i1|i2|i4|u1|u2|u4|u8|b1|float32|complex64|int32|int16|int8)\b", t)]
            if narrow:
                bad.append(f"declared type narrower than the Python value it stands for ({', '.join(sorted(set(narrow)))}): CPython computes in float64 / complex128 / unbounded int")
            if len(sig[1]) != len(node.args.args):
                bad.append(f"signature declares {len(sig[1])} arguments, the function takes {len(node.args.args)}")
        rep.add(ob_eval(f"C18/no-semantic-fork/{name}", not bad and has_sig, detail="; ".join(bad) or "explicit signature; no construct with diverging numba semantics", inputs={} if not bad else {"constructs": bad}))
    rep.sample({"ast": "every njit function: explicit eager signature; no //, %, int**(-int), `is`, global, dict/set/comprehension/lambda/try"})


def run_probe(args, jit=True, timeout=1800):
    env = dict(os.environ)
    cache = tempfile.mkdtemp(prefix="verif_numba_cache_")
    env["NUMBA_CACHE_DIR"] = cache
    env["PYTHONPATH"] = boot.SRC
    if jit:
        env.pop("NUMBA_DISABLE_JIT", None)
        env["NUMBA_DISABLE_JIT"] = "0"
    else:
        env["NUMBA_DISABLE_JIT"] = "1"
    try:
        p = subprocess.run(["/venv/bin/python", os.path.join(VERIF, "tools", "jit_probe.py")] + args, capture_output=True, text=True, env=env, timeout=timeout, cwd=VERIF)
        if p.returncode != 0:
            return None, (p.stderr or "")[-800:]
        return json.loads(p.stdout), None
    except Exception as e:  # noqa
        return None, f"{type(e).__name__}: {e}"
    finally:
        shutil.rmtree(cache, ignore_errors=True)


def sec_bounded(rep, tier, seed):
    n = 4 if tier == "quick" else 400
    doc, err = run_probe(["--samples", str(n), "--seed", str(seed), "--run"], jit=True)

    def add(name, ok, detail, status=None):
        o = Ob(name, "bounded", status or (PROVED if ok else REFUTED), "jit-probe", 0, detail, {} if ok else {"detail": detail[:500]}, {})
        o.bounded = True
        rep.add(o)

    if doc is None:
        # the compiled probe died.  If the same probe completes with the interpreter (JIT off), the two
        # semantics differ -- one raises where the other returns: a violation (bounded); if the
        # interpreted probe dies too, the probe itself is broken: undecided
        ref0, err0 = run_probe(["--samples", str(n), "--seed", str(seed), "--run", "--no-diff"], jit=False)
        if ref0 is not None:
            o = Ob("C18/bounded/compiled probe raises where the interpreted probe completes (differential + end-to-end runs)", "bounded", REFUTED, "jit-probe", 0, f"with the JIT on: {err}", {"observed_with_JIT_on": (err or "")[-600:], "with_JIT_off": "completes"}, {"confirmed": True, "cmd": "NUMBA_DISABLE_JIT=0 /venv/bin/python tools/jit_probe.py --run"})
            o.bounded = True
            rep.add(o)
        else:
            add("C18/bounded/jit-probe-ran", False, f"probe failed with the JIT on ({err}) and off ({err0})", status=UNDECIDED)
        return
    add("C18/bounded/every-declared-signature-compiles", doc["jit_enabled"] and not doc["not_compiled"] and not doc["import_errors"] and doc["dispatchers"] >= 100, f"{doc['dispatchers']} dispatchers compiled with numba {doc['numba']}; not compiled: {doc['not_compiled']}; import errors: {doc['import_errors']}")
    add(f"C18/bounded/differential-jit-vs-interpreter(N={n} per kernel)", not doc["mismatches"], f"{doc['evaluations']} evaluations, {len(doc['mismatches'])} mismatches {doc['mismatches'][:2]}")
    rep.extra["jit_dispatchers"] = doc["dispatchers"]
    rep.extra["jit_evaluations"] = doc["evaluations"]
    for s_ in doc["samples"][:3]:
        rep.sample({"jit-vs-python": s_})
    ref, err2 = run_probe(["--no-diff", "--run"], jit=False)
    if ref is None:
        add("C18/bounded/end-to-end-jit-on-vs-off", False, f"reference run failed: {err2}", status=UNDECIDED)
        return
    bad = []
    for k, v in doc.get("run", {}).items():
        w = ref["run"].get(k)
        if w is None or len(w) != len(v) or any(abs(a - b) > 1e-9 * max(1e-12, abs(a), abs(b)) and abs(a - b) > 1e-13 for a, b in zip(v, w)):
            bad.append(k)
    add("C18/bounded/end-to-end-jit-on-vs-off(NC and CC, NLO, TMC, scale variations)", not bad and len(doc.get("run", {})) > 0 and not ref["jit_enabled"], f"{len(doc.get('run', {}))} operator tensors compared; differing: {bad[:3]}")


def sec_selfcheck(rep, seed):
    """Canary: an RSL whose loc reads args[0] but packs nothing must be refuted by the index obligation."""
    from pvc.core import Report
    from yadism.coefficient_functions.partonic_channel import RSL

    sy = H.Sy(extra="z")
    scratch = Report(rep.pid, rep.tier, seed)

    def loc(x, args):
        return 0.113 + args[0] * 0.006

    scratch.check("canary", lambda sy: index_triples(sy, RSL(None, None, loc, args=dict(reg=[4]))), sy, [sy.z > 0, sy.z < 1])
    bad = [o for o in scratch.obs if o.status == REFUTED]
    rep.add(Ob("C18/selfcheck/canary-out-of-bounds-read-refuted", "canary", PROVED if bad else "error", "eval", 0, str([o.status for o in scratch.obs])))


def run(rep, tier, seed, only=None):
    rep.assume(
        "equality of the generated machine code with the Python semantics for all inputs is numba/LLVM correctness and is NOT within reach of contracts: only sampled (differential, N per kernel) -- listed as bounded stand-ins, never counted in `discharged`",
        "index-bound and AST obligations are about the source the compiler is given (the JIT is disabled while they are discharged)",
        "A-ext / A-special stubs as in C03 while the kernels run symbolically; the recording array answers out-of-range reads with 0.0 so that every read of a path is seen",
        "floating point: rounding differences between LLVM and CPython evaluation orders (fused operations) are accepted up to 1e-10 relative in the differential stand-in",
    )
    for nm, f in (("index", lambda r: sec_index(r, tier)), ("ast", sec_ast), ("bounded", lambda r: sec_bounded(r, tier, seed))):
        if only and only not in nm:
            continue
        rep.add(guarded(f"C18/{nm}", lambda f=f: (f(rep), [])[1]))
    if not only and rep.replay_target is None:
        rep.add(guarded("C18/selfcheck", lambda: (sec_selfcheck(rep, seed), [])[1]))
    rep.extra["rule"] = "cases = every RSL construction site x part (index bounds), every njit function (AST); bounded: every dispatcher x N sampled arguments, one NLO run per process with the JIT on and off"
