"""C02 -- LO parton model and electroweak / CKM coupling weights.

Functions under contract (sidecar; /repo untouched):
  CouplingConstants.{vectorial_coupling, leptonic_coupling, partonic_coupling,
      partonic_coupling_fl11, propagator_factor, get_weight, get_fl11_weight, from_dict}
  CKM2Matrix.{__getitem__, __call__, masked, from_str}
  light.kernels.{nc_weights, nc_fl11_weights, generate}
  kernels.{cc_weights, cc_weights_even, cc_weights_odd}
  heavy.kernels.nc_weights
  LO() of every PartonicChannel subclass (module scan)
  esf.conv.convolution restricted to delta kernels (grid-node lemma)
Oracle: /verif/spec/ew.py (PDG).

Every case is a closure ``case(sy)`` that runs the real code on the values in ``sy``:
symbols for the proof, floats for the native replay of a counterexample.
"""
from __future__ import annotations

from fractions import Fraction as Fr

import numpy as np

from pvc.core import ob_identity, ob_eval, guarded, Ob, PROVED, REFUTED
from pvc.explore import explore
from pvc.stubs import rebind, np_shim_for
from pvc.sym import R, uf, Not, Eq, compare
from spec import ew

from . import harness as H

LEVEL = "proof"
MODES = ("phph", "phZ", "ZZ", "WW")
POS = (None, "all", "down", "up", "strange", "charm", "bottom", "top")
MASKS = ("dus", "dusc", "duscb", "duscbt", "c", "b", "t")


def ew_pre(sy):
    pre = sy.ew_pre()
    return [c for c in pre if c is not (sy.pcorr < 1)] + [Not(Eq(sy.pcorr, 1))]


def eff_pol(pid, pol):
    # neutrino "polarization" convention: sign opposite to the charged lepton of equal pid sign
    return pol if abs(pid) in (11, 13, 15) else -pol


def spec_leptonic(mode, ctype, pid, pol, s2w):
    if mode == "WW":
        return 2
    pc, pv = ew.lepton_factors(pid, eff_pol(pid, pol), s2w)
    l = pc if ctype in ("VV", "AA") else pv
    return {"phph": l[0], "phZ": l[1], "ZZ": l[2]}[mode]


def spec_partonic(mode, q, ctype, s2w, V, mask):
    if mode == "WW":
        return ew.cc_quark_weight(q, V, mask) / Fr(2)
    qf = ew.quark_factors(q, ctype, s2w)
    return {"phph": qf[0], "phZ": qf[1] / Fr(2), "ZZ": qf[2]}[mode]


def spec_propagator(mode, sy):
    eta = ew.eta_gZ(sy.Q2, sy.MZ2, sy.s2w, sy.pcorr)
    return {"phph": 1, "phZ": eta, "ZZ": eta**2, "WW": ew.eta_W(sy.Q2, sy.MZ2, sy.MW2, sy.s2w, sy.pcorr)}[mode]


def pos_pid(pos):
    return None if pos in (None, "all") else 1 + H.QUARK_NAMES.index(pos[0])


def spec_weight(process, pid, q, ctype, sy, pos, mask):
    if process == "CC":
        return ew.cc_quark_weight(q, sy.V.tolist(), mask)
    return ew.nc_weight(process, pid, q, ctype, sy.Q2, sy.MZ2, sy.s2w, eff_pol(pid, sy.pol), sy.pcorr, pos_pid(pos))


def spec_fl11(process, pid, q, nf, ctype, sy, pos):
    if process == "CC":
        return 0
    return ew.fl11_weight(process, pid, q, nf, ctype, sy.Q2, sy.MZ2, sy.s2w, eff_pol(pid, sy.pol), sy.pcorr, pos_pid(pos))


def spec_partonic_fl11(mode, q, nf, ct, s2w):
    if mode == "WW":
        return 0
    first, second = ct[0], ct[1]

    def g(quark, boson, t):
        if boson == "ph":
            return ew.e_q(quark) if t == "V" else 0
        return ew.gv_q(quark, s2w) if t == "V" else ew.ga_q(quark)

    boson = "ph" if mode == "phph" else "Z"
    mean = sum(g(k, boson, first) for k in range(1, nf + 1)) / Fr(nf)
    return mean * g(q, boson, second)


# ---------------------------------------------------------------------------------------
def sec_couplings(rep):
    from yadism.coefficient_functions.coupling_constants import CouplingConstants as CC

    rep.under_contract(
        CC.vectorial_coupling, CC.leptonic_coupling, CC.nc_partonic_coupling, CC.partonic_coupling,
        CC.partonic_coupling_fl11, CC.propagator_factor, CC.get_weight, CC.get_fl11_weight,
    )
    sy = H.Sy()
    pre = ew_pre(sy)

    for pid in list(range(1, 7)) + [11, 12, 13, 14, 15, 16]:
        rep.cases += 1

        def case(sy, pid=pid):
            cc = H.coupling_constants(sy, "NC", "electron")
            exp = ew.gv_q(pid, sy.s2w) if pid <= 6 else (lambda e, t3, s: t3 - 2 * e * sy.s2w)(*ew.lepton(pid))
            return cc.vectorial_coupling(pid), exp

        rep.check(f"C02/vectorial_coupling/post/pid={pid}", case, sy, pre)

    for proj, pid in H.PROJECTILES.items():
        for mode in MODES:
            for ct in H.COUPLING_TYPES:
                rep.cases += 1

                def case(sy, proj=proj, pid=pid, mode=mode, ct=ct):
                    cc = H.coupling_constants(sy, "NC", proj)
                    return cc.leptonic_coupling(mode, ct), spec_leptonic(mode, ct, pid, sy.pol, sy.s2w)

                rep.check(f"C02/leptonic_coupling/post/{proj}/{mode}/{ct}", case, sy, pre)
    rep.check("C02/leptonic_coupling/unknown-mode", lambda sy: (H.coupling_constants(sy, "NC", "electron").leptonic_coupling("XX", "VV"), None), sy, pre, exc_ok=lambda p: isinstance(p.exc, ValueError))

    for mode in MODES:
        for q in range(1, 7):
            for ct in H.COUPLING_TYPES:
                for mask in MASKS if mode == "WW" else (None,):
                    for sign in (1, -1):
                        rep.cases += 1

                        def case(sy, mode=mode, q=q, ct=ct, mask=mask, sign=sign):
                            cc = H.coupling_constants(sy, "NC", "electron")
                            return cc.partonic_coupling(mode, sign * q, ct, cc_mask=mask), spec_partonic(mode, q, ct, sy.s2w, sy.V.tolist(), mask or "")

                        rep.check(f"C02/partonic_coupling/post/{mode}/{sign*q}/{ct}/{mask}", case, sy, pre)
    for mode in MODES:
        rep.cases += 1
        rep.check(f"C02/propagator_factor/post/{mode}", lambda sy, mode=mode: (H.coupling_constants(sy, "NC", "electron").propagator_factor(mode, sy.Q2), spec_propagator(mode, sy)), sy, pre, sides=True)
        # float companion: from Q2 -> 0 (eta ~ Q2/MZ2) to Q2 >> MZ2, small and large corrections
        basev = dict(s2w=0.23121, MZ2=8315.178, MW2=6463.8, pol=0.0, pcorr=0.0)
        envs = [dict(basev, Q2=q, pcorr=pc) for q in (1e-6, 1.0, 8315.178, 1e8) for pc in (0.0, 0.0361)]
        rep.float_companion(f"C02/propagator_factor/{mode}", lambda sy, mode=mode: [("eta", H.coupling_constants(sy, "NC", "electron").propagator_factor(mode, sy.Q2), spec_propagator(mode, sy))], sy, pre, envs, rtol=1e-12)
    rep.check("C02/propagator_factor/unknown-mode", lambda sy: (H.coupling_constants(sy, "NC", "electron").propagator_factor("XX", sy.Q2), None), sy, pre, exc_ok=lambda p: isinstance(p.exc, ValueError))

    # NOTE: the photon-Z interference modes ("phZ", "Zph") of the fl11 class are NOT given a
    # postcondition: no property in properties.jsonl constrains the N3LO fl11 interference
    # weight, and the code disagrees with its own docstring there (observation in DESIGN 6).
    for mode in ("phph", "ZZ", "WW"):
        for q in range(1, 7):
            for nf in range(3, 7):
                for ct in H.COUPLING_TYPES:
                    rep.cases += 1
                    rep.check(
                        f"C02/partonic_coupling_fl11/post/{mode}/{q}/{nf}/{ct}",
                        lambda sy, mode=mode, q=q, nf=nf, ct=ct: (H.coupling_constants(sy, "NC", "electron").partonic_coupling_fl11(mode, q, nf, ct), spec_partonic_fl11(mode, q, nf, ct, sy.s2w)),
                        sy, pre,
                    )

    # get_weight: modular (callees replaced by their contracts) and inlined; get_fl11_weight (EM)
    n_w = 0
    for process in H.PROCESSES:
        for proj, pid in H.PROJECTILES.items():
            for pos in POS:
                for q in range(1, 7):
                    for ct in H.COUPLING_TYPES:
                        for sign in (1, -1):
                            for mask in MASKS if process == "CC" else (None,):
                                if process == "CC" and (ct != "VV" or pos is not None):
                                    continue
                                rep.cases += 1
                                n_w += 1
                                name = f"{process}/{proj}/pos={pos}/{sign*q}/{ct}/{mask}"

                                def case_mod(sy, process=process, proj=proj, pid=pid, pos=pos, q=q, ct=ct, sign=sign, mask=mask):
                                    cc = H.coupling_constants(sy, process, proj, pos)
                                    with rebind(*_callee_stubs(cc, sy, pid)):
                                        got = cc.get_weight(sign * q, sy.Q2, ct, cc_mask=mask)
                                    return got, spec_weight(process, pid, q, ct, sy, pos, mask or "")

                                def case_inl(sy, process=process, proj=proj, pid=pid, pos=pos, q=q, ct=ct, sign=sign, mask=mask):
                                    cc = H.coupling_constants(sy, process, proj, pos)
                                    return cc.get_weight(sign * q, sy.Q2, ct, cc_mask=mask), spec_weight(process, pid, q, ct, sy, pos, mask or "")

                                rep.check(f"C02/get_weight/post/{name}", case_mod, sy, pre)
                                rep.check(f"C02/get_weight/post-inlined/{name}", case_inl, sy, pre, sides=(q == 1 and sign == 1))
                            if process == "EM":
                                for nf in range(3, 7):
                                    rep.cases += 1
                                    rep.check(
                                        f"C02/get_fl11_weight/post/{process}/{proj}/pos={pos}/{sign*q}/{ct}/nf={nf}",
                                        lambda sy, process=process, proj=proj, pid=pid, pos=pos, q=q, ct=ct, sign=sign, nf=nf: (
                                            H.coupling_constants(sy, process, proj, pos).get_fl11_weight(sign * q, sy.Q2, nf, ct),
                                            spec_fl11(process, pid, q, nf, ct, sy, pos),
                                        ),
                                        sy, pre,
                                    )
                if process == "CC":
                    rep.check(f"C02/get_fl11_weight/post/CC/{proj}/pos={pos}", lambda sy, proj=proj, pos=pos: (H.coupling_constants(sy, "CC", proj, pos).get_fl11_weight(1, sy.Q2, 4, "VV"), 0), sy, pre)
    # native companion (the code runs with floats only; the PDG value is computed separately): every sign
    # region of the lepton couplings -- polarisation of either sign and size, sin2theta_w on both sides of
    # 1/4 (where the electron's vector coupling changes sign), Q2 from the photon-dominated region to far
    # above MZ2 -- so that a rewrite the symbolic engine cannot follow (vectorised numpy, masks, casts) is
    # still compared with the specification
    envs = [dict(s2w=s2w, MZ2=8315.178, MW2=6463.8, pol=pol, pcorr=pc, Q2=q2) for s2w in (0.1, 0.23121, 0.31, 0.6) for pol in (-1.0, -0.6, -0.1, 0.0, 0.1, 0.37, 1.0) for q2 in (10.0, 8000.0, 1.0e5) for pc in ((0.0, 0.0361) if (pol, q2) == (0.37, 8000.0) else (0.0,))]
    worst = {}
    for process in ("EM", "NC"):
        for proj, pid in H.PROJECTILES.items():
            bad, n_ = [], 0
            for env in envs:
                syn = sy.numeric(env)
                try:
                    cc = H.coupling_constants(syn, process, proj, None)
                    for q in range(1, 7):
                        for ct in H.COUPLING_TYPES:
                            for sign in (1, -1):
                                got = float(cc.get_weight(sign * q, syn.Q2, ct))
                                exp = float(spec_weight(process, pid, q, ct, syn, None, ""))
                                n_ += 1
                                if abs(got - exp) > 1e-11 * max(1.0, abs(exp)):
                                    bad.append((dict(env), sign * q, ct, got, exp))
                except Exception as e:  # noqa
                    bad.append((dict(env), None, None, f"{type(e).__name__}: {e}", None))
            rep.cases += 1
            ok = not bad
            rep.add(ob_eval(f"C02/get_weight/native companion over the sign regions of the lepton couplings/{process}/{proj}", ok, detail=f"{n_} evaluations over {len(envs)} parameter points" + ("" if ok else f"; first mismatch (parameters, pid, type, got, PDG): {bad[0]}"), inputs={} if ok else {"parameters": str(bad[0][0]), "pid": bad[0][1], "coupling_type": bad[0][2], "got": repr(bad[0][3]), "PDG": repr(bad[0][4])}, replay={"confirmed": True, "python": "CouplingConstants.get_weight at the listed parameters"}))
    # history on ONE coupling object (a run asks the same object for every flavour mask it meets:
    # light and heavy contributions, nf on both sides of a threshold): each answer is the one a fresh
    # object gives
    masks_seq = ("dus", "c", "dusc", "b", "duscb", "dus", "t", "duscbt", "c")
    for proj in ("electron", "positron", "neutrino", "antineutrino"):
        rep.cases += 1
        syn = sy.numeric(dict(s2w=0.23121, MZ2=8315.178, MW2=6463.8, pol=0.0, pcorr=0.0, Q2=100.0))
        one = H.coupling_constants(syn, "CC", proj, None)
        bad = []
        try:
            for mask in masks_seq:
                for q in range(1, 7):
                    for sign in (1, -1):
                        a = float(one.get_weight(sign * q, syn.Q2, "VV", cc_mask=mask))
                        b = float(H.coupling_constants(syn, "CC", proj, None).get_weight(sign * q, syn.Q2, "VV", cc_mask=mask))
                        if a != b:
                            bad.append((mask, sign * q, a, b))
        except Exception as e:  # noqa
            bad.append(("raised", None, f"{type(e).__name__}: {e}", None))
        ok = not bad
        rep.add(ob_eval(f"C02/get_weight/history: one coupling object asked for the masks {masks_seq} answers each like a fresh object/CC/{proj}", ok, detail="" if ok else f"(mask, pid, same object, fresh object): {bad[:3]}", inputs={} if ok else {"sequence_of_masks": str(masks_seq), "first_mismatch (mask, pid, same object, fresh object)": str(bad[0])}, replay={"confirmed": True, "python": "one CouplingConstants object: get_weight(pid, Q2, 'VV', cc_mask=m) for m in the sequence"}))
    rep.check("C02/get_weight/unknown-process", lambda sy: (H.coupling_constants(sy, "XX", "electron").get_weight(1, sy.Q2, "VV"), None), sy, pre, exc_ok=lambda p: isinstance(p.exc, ValueError))
    rep.sample({"get_weight cases": n_w, "example": "C02/get_weight/post/NC/electron/pos=None/2/VV/None: result == e_q^2 l_gg + 2 e_q gV_q l_gZ eta + gV_q^2 l_ZZ eta^2 (PDG, spec/ew.py), callees replaced by their contracts"})


def _callee_stubs(cc, sy, pid):
    """Contract stubs: callees of get_weight return their *spec values*."""
    cls = type(cc)

    def lept(self, mode, ct):
        return spec_leptonic(mode, ct, pid, sy.pol, sy.s2w)

    def part(self, mode, q, ct, cc_mask=None):
        return spec_partonic(mode, abs(q), ct, sy.s2w, sy.V.tolist(), cc_mask or "")

    def prop(self, mode, Q2):
        assert Q2 is sy.Q2
        return spec_propagator(mode, sy)

    return [(cls, "leptonic_coupling", lept), (cls, "partonic_coupling", part), (cls, "propagator_factor", prop)]


# ---------------------------------------------------------------------------------------
def sec_ckm(rep):
    from yadism.coefficient_functions.coupling_constants import CouplingConstants as CC, CKM2Matrix

    rep.under_contract(CKM2Matrix.__getitem__, CKM2Matrix.__call__, CKM2Matrix.masked, CKM2Matrix.from_str, CC.from_dict)
    sy = H.Sy()

    def case_getitem(sy):
        ckm = CKM2Matrix(sy.V.copy().reshape(9))
        out = []
        for i, r in enumerate((2, 4, 6)):
            for j, c in enumerate((1, 3, 5)):
                out.append((f"{r},{c}", ckm[r, c], sy.V[i, j]))
                out.append((f"{'uct'[i]},{'dsb'[j]}", ckm["uct"[i], "dsb"[j]], sy.V[i, j]))
        for i, r in enumerate((2, 4, 6)):
            row = ckm(r)
            out += [(f"call/row{r}/{j}", row[j], sy.V[i, j]) for j in range(3)]
        for j, c in enumerate((1, 3, 5)):
            col = ckm(c)
            out += [(f"call/col{c}/{i}", col[i], sy.V[i, j]) for i in range(3)]
        return out

    rep.cases += 1
    rep.check("C02/CKM.__getitem__+__call__/post", case_getitem, sy)
    for mask in MASKS + ("", "dusct", "cb", "bt"):
        rep.cases += 1

        def case_mask(sy, mask=mask):
            ckm = CKM2Matrix(sy.V.copy().reshape(9))
            before = ckm.m.copy()
            m = ckm.masked(mask)
            sm = ew.ckm_mask(mask)
            out = [("fresh-object", isinstance(m, CKM2Matrix) and m is not ckm, True)]
            out += [(f"{i}{j}", m.m[i, j], sy.V[i, j] * sm[i][j]) for i in range(3) for j in range(3)]
            out.append(("frame", all(ckm.m[i, j] is before[i, j] or (sy.is_numeric and ckm.m[i, j] == before[i, j]) for i in range(3) for j in range(3)), True))
            return out

        rep.check(f"C02/CKM.masked/post/{mask or 'empty'}", case_mask, sy)
    s = "0.5 0.25 0.125 2 3 4 5 6 7"
    vals = [float(v) ** 2 for v in s.split()]
    m = CKM2Matrix.from_str(s)
    rep.add(ob_eval("C02/CKM.from_str/post", all(m.m.flat[k] == vals[k] for k in range(9)), detail="squared entries row-wise"))

    sy2 = H.Sy(extra="MZ MW SIN2TW")
    for proj, pid in H.PROJECTILES.items():
        for mw in (False, True):
            for ckm_in in ("str", "list", "obj"):
                rep.cases += 1

                def case_fd(sy, proj=proj, pid=pid, mw=mw, ckm_in=ckm_in):
                    th = dict(MZ=sy.MZ, SIN2TW=sy.SIN2TW, MW=sy.MW if mw else None)
                    if ckm_in == "str":
                        th["CKM"] = s
                    elif ckm_in == "list":
                        th["CKM"] = [[float(v) for v in s.split()][3 * k : 3 * k + 3] for k in range(3)]
                    else:
                        th["CKM"] = CKM2Matrix.from_str(s)
                    ob = dict(prDIS="NC", ProjectileDIS=proj, PolarizationDIS=sy.pol, PropagatorCorrection=sy.pcorr, NCPositivityCharge=None)
                    c = CC.from_dict(th, ob)
                    return [
                        ("MZ2", c.theory_config["MZ2"], sy.MZ * sy.MZ),
                        ("MW2", c.theory_config["MW2"], sy.MW * sy.MW if mw else sy.MZ * sy.MZ / (1 - sy.SIN2TW)),
                        ("s2w", c.theory_config["sin2theta_weak"], sy.SIN2TW),
                        ("ckm-squared", all(abs(c.theory_config["CKM"].m.flat[k] - vals[k]) < 1e-15 for k in range(9)), True),
                        ("pid", c.obs_config["projectilePID"], pid),
                        ("pol", c.obs_config["polarization"], sy.pol),
                        ("pcorr", c.obs_config["propagatorCorrection"], sy.pcorr),
                        ("process", c.obs_config["process"], "NC"),
                    ]

                rep.check(f"C02/from_dict/post/{proj}/MW={'given' if mw else 'default'}/ckm={ckm_in}", case_fd, sy2, [Not(Eq(sy2.SIN2TW, 1))])
    # concrete spellings a symbol cannot stand for: falsy but legal values (0, 0.0, False-like), ints,
    # numpy scalars, optional keys absent / None -- the stored configuration is the given value or the
    # documented default, never a default substituted for a legal zero
    import numpy as _np

    for proj, pid in H.PROJECTILES.items():
        for pol in (0, 0.0, -1, 1.0, _np.float64(0.0), 0.4):
            for pcorr in (0, 0.0, 0.05):
                rep.cases += 1
                th = dict(MZ=91.1876, SIN2TW=0.23121, MW=80.398, CKM=s)
                ob = dict(prDIS="NC", ProjectileDIS=proj, PolarizationDIS=pol, PropagatorCorrection=pcorr, NCPositivityCharge=None)
                try:
                    c = CC.from_dict(th, ob)
                    ok = c.obs_config["polarization"] == pol and c.obs_config["propagatorCorrection"] == pcorr and c.obs_config["projectilePID"] == pid and abs(c.theory_config["MZ2"] - 91.1876**2) < 1e-9 and abs(c.theory_config["MW2"] - 80.398**2) < 1e-9
                    detail = str({k: c.obs_config[k] for k in ("polarization", "propagatorCorrection", "projectilePID")})
                except Exception as e:  # noqa
                    ok, detail = False, repr(e)
                rep.add(ob_eval(f"C02/from_dict/concrete/{proj}/PolarizationDIS={pol!r}/PropagatorCorrection={pcorr!r}: stored as given", ok, detail=detail, inputs={} if ok else {"PolarizationDIS": repr(pol), "PropagatorCorrection": repr(pcorr), "observed": detail}))
    for missing in ((), ("MZ",), ("SIN2TW",), ("MW",), ("MZ", "SIN2TW", "MW")):
        for as_none in (False, True):
            rep.cases += 1
            th = dict(MZ=90.0, SIN2TW=0.25, MW=79.0, CKM=s)
            for k in missing:
                if as_none and k == "MW":
                    th[k] = None
                elif not as_none:
                    del th[k]
            ob = dict(prDIS="NC", ProjectileDIS="electron", PolarizationDIS=0.0, PropagatorCorrection=0.0, NCPositivityCharge=None)
            try:
                c = CC.from_dict(th, ob)
                mz = th.get("MZ", 91.1876)
                s2 = th.get("SIN2TW", 0.23121)
                mw2 = th["MW"] ** 2 if th.get("MW") is not None else mz**2 / (1 - s2)
                ok = abs(c.theory_config["MZ2"] - mz**2) < 1e-9 and abs(c.theory_config["sin2theta_weak"] - s2) < 1e-15 and abs(c.theory_config["MW2"] - mw2) < 1e-9
                detail = str({k: float(c.theory_config[k]) for k in ("MZ2", "MW2", "sin2theta_weak")})
            except Exception as e:  # noqa
                ok, detail = False, repr(e)
            rep.add(ob_eval(f"C02/from_dict/concrete/optional keys {missing or 'all given'} {'None' if as_none else 'absent'}: given value or documented default (MZ 91.1876, SIN2TW 0.23121, MW from MZ and SIN2TW)", ok, detail=detail, inputs={} if ok else {"missing": str(missing), "observed": detail}))
    rep.check(
        "C02/from_dict/unknown-projectile",
        lambda sy: (CC.from_dict(dict(CKM=s), dict(prDIS="NC", ProjectileDIS="muon", PolarizationDIS=0, PropagatorCorrection=0, NCPositivityCharge=None)), None),
        sy, exc_ok=lambda p: isinstance(p.exc, ValueError),
    )


# ---------------------------------------------------------------------------------------
class WStub:
    """Contract stub for get_weight / get_fl11_weight: uninterpreted w(|pid|, type, mask)."""

    def __init__(self, sy, process, pid):
        self.sy = sy
        self.obs_config = {"process": process, "projectilePID": pid}
        self.bad_Q2 = False

    def get_weight(self, q, Q2, ct, cc_mask=None):
        if Q2 is not self.sy.Q2:
            self.bad_Q2 = True
        return self.sy.U("w", int(abs(q)), str(ct), str(cc_mask))

    def get_fl11_weight(self, q, Q2, nf, ct):
        if Q2 is not self.sy.Q2:
            self.bad_Q2 = True
        return self.sy.U("w11", int(abs(q)), int(nf), str(ct))


def W(sy, q, ct, mask=None):
    return sy.U("w", int(q), str(ct), str(mask))


def _dict_triples(prefix, got, exp):
    out = [(f"{prefix}/keys", sorted(got.keys()), sorted(exp.keys()))]
    for k in exp:
        if k in got:
            out.append((f"{prefix}/[{k}]", got[k], exp[k]))
    return out


def cc_parton_model(sy, pid, nf, is_pv, mask):
    """spec: coefficient of each parton in the LO CC structure function (W from the stub)."""
    Wq = {q: W(sy, q, None, mask) for q in range(1, 7)}
    wplus = ew.absorbs_Wplus(pid)
    pm = {}
    for q in range(1, nf + 1):
        quark_hit = (q % 2 == 1) if wplus else (q % 2 == 0)
        if quark_hit:
            pm[q], pm[-q] = Wq[q], 0
        else:
            pm[q], pm[-q] = 0, (-Wq[q] if is_pv else Wq[q])
    return pm, Wq, wplus


def sec_weights(rep):
    from yadism.coefficient_functions import kernels, light, heavy

    rep.under_contract(
        light.kernels.nc_weights, light.kernels.nc_fl11_weights, kernels.cc_weights,
        kernels.cc_weights_even, kernels.cc_weights_odd, heavy.kernels.nc_weights,
    )
    rep.stub("CouplingConstants.get_weight / get_fl11_weight -> uninterpreted w(|pid|, type, mask) (their contracts are proved in sec_couplings)")
    sy = H.Sy()
    for nf in range(3, 7):
        for is_pv in (False, True):
            for skip in (False, True):
                rep.cases += 1

                def case(sy, nf=nf, is_pv=is_pv, skip=skip):
                    cc = WStub(sy, "NC", 11)
                    got = light.kernels.nc_weights(cc, sy.Q2, nf, is_pv, skip_heavylight=skip)
                    t = ("VA", "AV") if is_pv else ("VV", "AA")
                    Wq = {q: W(sy, q, t[0]) + W(sy, q, t[1]) for q in range(1, nf + 1)}
                    act = [q for q in range(1, nf + 1) if not (skip and q == nf)]
                    avg = sum(Wq[q] for q in act) / Fr(nf)
                    ns = {}
                    for q in act:
                        ns[q] = Wq[q]
                        ns[-q] = -Wq[q] if is_pv else Wq[q]
                    exp = {"ns": ns}
                    allq = [*range(1, nf + 1), *(-q for q in range(1, nf + 1))]
                    if is_pv:
                        exp["v"] = {q: (avg if q > 0 else -avg) for q in allq}
                    else:
                        exp["g"] = {21: avg}
                        exp["s"] = {q: avg for q in allq}
                    out = [("channels", sorted(got), sorted(exp)), ("pre-at-call/Q2", cc.bad_Q2, False)]
                    for ch in exp:
                        if ch in got:
                            out += _dict_triples(ch, got[ch], exp[ch])
                    return out

                rep.check(f"C02/nc_weights/post/nf={nf}/pv={is_pv}/skip={skip}", case, sy)
        for skip in (False, True):
            rep.cases += 1

            def case(sy, nf=nf, skip=skip):
                cc = WStub(sy, "NC", 11)
                got = light.kernels.nc_fl11_weights(cc, sy.Q2, nf, skip_heavylight=skip)
                act = [q for q in range(1, nf + 1) if not (skip and q == nf)]
                Wq = {q: sy.U("w11", q, nf, "VV") + sy.U("w11", q, nf, "AA") for q in act}
                exp = {"q": {s * q: Wq[q] for q in act for s in (1, -1)}, "g": {21: sum(Wq.values()) / Fr(nf)}}
                out = [("channels", sorted(got), sorted(exp))]
                for ch in exp:
                    if ch in got:
                        out += _dict_triples(ch, got[ch], exp[ch])
                return out

            rep.check(f"C02/nc_fl11_weights/post/nf={nf}/skip={skip}", case, sy)
        for ihq in range(4, 7):
            for is_pv in (False, True):
                rep.cases += 1

                def case(sy, nf=nf, ihq=ihq, is_pv=is_pv):
                    cc = WStub(sy, "NC", 11)
                    got = heavy.kernels.nc_weights(cc, sy.Q2, nf, ihq, is_pv)
                    if is_pv:
                        return [("empty", got, {})]
                    allq = [*range(1, nf + 1), *(-q for q in range(1, nf + 1))]
                    exp = {"gVV": {21: W(sy, ihq, "VV")}, "gAA": {21: W(sy, ihq, "AA")}, "sVV": {q: W(sy, ihq, "VV") for q in allq}, "sAA": {q: W(sy, ihq, "AA") for q in allq}}
                    out = [("channels", sorted(got), sorted(exp))]
                    for ch in exp:
                        if ch in got:
                            out += _dict_triples(ch, got[ch], exp[ch])
                    return out

                rep.check(f"C02/heavy.nc_weights/post/nf={nf}/ihq={ihq}/pv={is_pv}", case, sy)

    for proj, pid in H.PROJECTILES.items():
        for nf in range(3, 7):
            for is_pv in (False, True):
                for mask in MASKS:
                    rep.cases += 1

                    def case(sy, pid=pid, nf=nf, is_pv=is_pv, mask=mask):
                        cc = WStub(sy, "CC", pid)
                        pm, Wq, wplus = cc_parton_model(sy, pid, nf, is_pv, mask)
                        tot = sum(Wq[q] for q in range(1, min(nf + 1, 6) + 1))
                        avg = tot / Fr(len(mask)) / 2
                        got = kernels.cc_weights(cc, sy.Q2, mask, nf, is_pv)
                        exp_ns = {k: v for k, v in pm.items() if not (isinstance(v, int) and v == 0)}
                        gsign = -1 if (not wplus and is_pv) else 1
                        exp = {"ns": exp_ns, "g": {21: gsign * avg}, "s": {s * k: gsign * avg for k in exp_ns for s in (1, -1)}}
                        out = [("channels", sorted(got), sorted(exp))]
                        for ch in exp:
                            if ch in got:
                                out += _dict_triples(ch, got[ch], exp[ch])
                        return out

                    rep.check(f"C02/cc_weights/post/{proj}/nf={nf}/pv={is_pv}/{mask}", case, sy)

                    def case_eo(sy, pid=pid, nf=nf, is_pv=is_pv, mask=mask):
                        cc = WStub(sy, "CC", pid)
                        pm, Wq, wplus = cc_parton_model(sy, pid, nf, is_pv, mask)
                        tot = sum(Wq[q] for q in range(1, min(nf + 1, 6) + 1))
                        avg = tot / Fr(len(mask)) / 2
                        ev = kernels.cc_weights_even(cc, sy.Q2, mask, nf, is_pv)
                        od = kernels.cc_weights_odd(cc, sy.Q2, mask, nf, is_pv)
                        allq = [*range(1, nf + 1), *(-q for q in range(1, nf + 1))]
                        out = [
                            ("keys-even", (sorted(ev), sorted(ev["ns"])), (["g", "ns", "s"], sorted(allq))),
                            ("keys-odd", (sorted(od), sorted(od["ns"])), (["ns", "v"], sorted(allq))),
                            ("pre-at-call/Q2", cc.bad_Q2, False),
                        ]
                        for q in range(1, nf + 1):
                            out.append((f"even-symmetric/{q}", ev["ns"][q], ev["ns"][-q]))
                            out.append((f"odd-antisymmetric/{q}", od["ns"][q], -od["ns"][-q]))
                            for s in (1, -1):
                                out.append((f"even+odd=parton-model/{s*q}", ev["ns"][s * q] + od["ns"][s * q], pm[s * q]))
                        out.append(("g", ev["g"][21], avg))
                        out += _dict_triples("s", ev["s"], {q: avg for q in allq})
                        out += _dict_triples("v", od["v"], {q: (avg if q > 0 else -avg) for q in allq})
                        return out

                    rep.check(f"C02/cc_weights_even_odd/post/{proj}/nf={nf}/pv={is_pv}/{mask}", case_eo, sy)
    rep.sample({"weights": "cc_weights_even[q]+cc_weights_odd[q] == PDG parton-model coefficient of parton q (W+ hits d-type quarks and ubar-type antiquarks; xF3 antiquark sign -)"})


def sec_weights_history(rep):
    H.weights_frame(rep)


# ---------------------------------------------------------------------------------------
def expected_light_lo(kind, clsname):
    """LO coefficient of the massless coefficient functions: delta(1-z) for the quark
    (non-singlet) coefficient of F2, xF3, g1, g4; zero for FL, gL and for gluon / singlet /
    valence / fl11 channels."""
    if kind in ("fl", "gl"):
        return None
    if clsname in ("NonSinglet", "NonSingletEven", "NonSingletOdd"):
        return 1
    return None


KINDMAP = {"f2": "F2", "fl": "FL", "f3": "F3", "g1": "g1", "gl": "gL", "g4": "g4"}


def sec_parity_flag(rep):
    """ObservableName.is_parity_violating is the spec's parity classification of every kind."""
    from yadism import observable_name as on

    rep.under_contract(on.ObservableName.is_parity_violating.fget)
    for kind in list(on.sfs) + list(on.xs):
        for flavor in ("light", "total", "charm"):
            rep.cases += 1
            got = on.ObservableName(f"{kind}_{flavor}").is_parity_violating
            rep.add(ob_eval(f"C02/ObservableName({kind}_{flavor}).is_parity_violating == {kind in H.PV_KINDS}", got == (kind in H.PV_KINDS), detail=f"got {got}", inputs={} if got == (kind in H.PV_KINDS) else {"kind": kind, "got": got}))


def sec_drop_empty(rep):
    """A parton weight reaches the operator however small it is: Combiner.drop_empty removes a kernel
    only if ALL its weights are exactly zero (contract of C01, re-discharged here: the pure-Z weights
    of a neutrino at low Q2 or a small CKM element are genuinely tiny)."""
    from . import c01

    c01.sec_drop_empty(rep)


def sec_lo(rep):
    """LO() of every partonic channel class (found by module scan)."""
    from yadism.coefficient_functions.partonic_channel import RSL
    import yadism.coefficient_functions.partonic_channel as pcmod
    import yadism.coefficient_functions.heavy.partonic_channel as hpc
    import yadism.coefficient_functions.intrinsic.partonic_channel as ipc

    classes, errors = H.all_partonic_channel_classes()
    rep.add(ob_eval("C02/LO/module-scan-complete", not errors, detail=str(errors)[:500]))
    sy = H.Sy()
    pre = [sy.x > 0, sy.x <= 1, sy.Q2 > 0] + sy.mass_pre()
    n = 0
    for cls in sorted(classes, key=lambda c: (c.__module__, c.__name__)):
        mod = cls.__module__.split(".")
        family = mod[2]
        leaf = mod[3] if len(mod) > 3 else ""
        if family not in ("light", "heavy", "asy", "intrinsic") or "_" not in leaf:
            continue
        kind, proc = leaf.split("_")[0], leaf.split("_")[1]
        if proc not in ("nc", "cc"):
            continue
        rep.cases += 1
        n += 1
        rep.under_contract(cls.LO)
        process = "CC" if proc == "cc" else "NC"

        def case(sy, cls=cls, family=family, kind=kind, process=process):
            shim = [] if sy.is_numeric else np_shim_for(pcmod, hpc, ipc)
            cfg = H.make_configs(sy, process=process, projectile="electron", scheme="FFNS", nf_ff=3, pto=0)
            esf = H.FakeESF(sy.x, sy.Q2, H.obs_name(KINDMAP[kind], "charm" if family != "light" else "light"), cfg)
            with rebind(*shim):
                if family == "light":
                    o = cls(esf, 3)
                elif family == "heavy":
                    o = cls(esf, 3, m2hq=sy.m2c)
                else:
                    try:
                        o = cls(esf, 3, m2hq=sy.m2c)
                    except TypeError:
                        o = cls(esf, 3, m1sq=sy.m2c, m2sq=sy.m2c) if process == "NC" else cls(esf, 3, m1sq=sy.m2c)
                rsl = o[0]()
                if family == "light":
                    exp = expected_light_lo(kind, cls.__name__)
                elif family == "heavy" and process == "CC" and "NonSinglet" in cls.__name__:
                    lam = sy.Q2 / (sy.Q2 + sy.m2c)
                    exp = {"f2": 1, "fl": 1 - lam, "f3": lam}[kind]
                elif family == "heavy":
                    exp = None
                elif family == "asy" and process == "CC" and cls.__name__ == "AsyQuark":
                    # the high-virtuality counterpart of the massive quark -> heavy-quark LO term is the
                    # massless parton-model term (lambda -> 1): 2 |V|^2 x q(x) for F2 and xF3, nothing for FL
                    exp = {"f2": 1, "fl": None, "f3": 1}[kind]
                elif family == "asy" and cls.__name__ == "AsyGluon":
                    exp = None
                else:
                    exp = "any"  # asy / intrinsic LO kinematic factors: consistency is C03 matter
                empty = rsl is None or (rsl.reg is None and rsl.sing is None and rsl.loc is None)
                if exp == "any":
                    return [("pure-delta-or-none", rsl is None or (isinstance(rsl, RSL) and rsl.reg is None and rsl.sing is None), True)]
                if exp is None:
                    return [("is-None", empty, True)]
                ok = isinstance(rsl, RSL) and rsl.reg is None and rsl.sing is None and rsl.loc is not None
                out = [("is-delta", ok, True)]
                if ok:
                    out.append(("delta-coefficient", rsl.loc(sy.x, rsl.args["loc"]), exp))
                    out.append(("convolution-point", o.convolution_point(), sy.x if family in ("light", "asy") else sy.x * (1 + sy.m2c / sy.Q2)))
                return out

        extra = [sy.Q2 * (1 - sy.x) / sy.x > 4 * sy.m2c] if (family == "heavy" and process == "NC") else []
        rep.check(f"C02/LO/{family}/{leaf}/{cls.__name__}", case, sy, pre + extra)
    rep.sample({"LO classes checked": n})


# ---------------------------------------------------------------------------------------
def sec_lo_view(rep):
    """Lemma: sum over the kernels of light.kernels.generate of partons[pid] * LO delta coefficient
    equals the parton-model weight of pid -- get_weight stubbed by its contract."""
    from yadism.coefficient_functions import light
    import yadism.coefficient_functions.partonic_channel as pcmod

    rep.under_contract(light.kernels.generate)
    sy = H.Sy()
    for process in H.PROCESSES:
        for proj, pid in H.PROJECTILES.items():
            for kind in H.SF_KINDS:
                for nf in range(3, 7):
                    if process == "CC" and kind in ("g1", "gL", "g4"):
                        continue  # no polarised CC modules exist (C16 finding); nothing to state here
                    rep.cases += 1

                    def case(sy, process=process, proj=proj, pid=pid, kind=kind, nf=nf):
                        shim = [] if sy.is_numeric else np_shim_for(pcmod)
                        cfg = H.make_configs(sy, process=process, projectile=proj, scheme="ZM-VFNS", pto=0)
                        cfg.managers["coupling_constants"] = WStub(sy, process, pid)
                        on = H.obs_name(kind, "light")
                        esf = H.FakeESF(sy.x, sy.Q2, on, cfg)
                        view = {}
                        with rebind(*shim):
                            for k in light.kernels.generate(esf, nf):
                                rsl = k.coeff[0]()
                                if rsl is None:
                                    continue
                                c = rsl.loc(sy.x, rsl.args["loc"])
                                for p_, w_ in k.partons.items():
                                    view[p_] = view.get(p_, 0) + w_ * c
                        is_pv = kind in H.PV_KINDS  # spec, not the code's own flag
                        if kind in ("FL", "gL"):
                            exp = {}
                        elif process == "CC":
                            exp, _, _ = cc_parton_model(sy, pid, nf, is_pv, H.QUARK_NAMES[:nf])
                        else:
                            t = ("VA", "AV") if is_pv else ("VV", "AA")
                            exp = {}
                            for q in range(1, nf + 1):
                                wq = W(sy, q, t[0]) + W(sy, q, t[1])
                                exp[q] = wq
                                exp[-q] = -wq if is_pv else wq
                        return [(f"pid={k}", view.get(k, 0), exp.get(k, 0)) for k in sorted(set(view) | set(exp))] or [("empty", 0, 0)]

                    rep.check(f"C02/LO-view/{process}/{proj}/{kind}/nf={nf}", case, sy, kind="lemma")


def sec_lo_view_heavyness(rep):
    """Lemma, all heavynesses: the LO view of the kernels the REAL Combiner collects for
    F_total / F_light / F_charm / F_bottom / F_top in the massless schemes is the parton model
    restricted to the couplings selected by the heavyness: NC/EM tagged flavour h: x w_h (h +- hbar);
    CC tagged flavour: the CKM block of that flavour among the active quarks."""
    import yadism.coefficient_functions as cf

    rep.under_contract(cf.Combiner.collect)
    sy = H.Sy()
    pre = [sy.x > 0, sy.x <= 1, sy.Q2 > 0] + sy.mass_pre()
    flav_q = {"charm": 4, "bottom": 5, "top": 6}
    for process in H.PROCESSES:
        for proj, pid in H.PROJECTILES.items():
            if process != "CC" and proj in ("neutrino", "antineutrino"):
                continue  # NC/EM weights are uninterpreted here: nothing depends on the projectile
            for kind in ("F2", "FL", "F3", "g1", "g4"):
                if process == "CC" and kind in ("g1", "gL", "g4"):
                    continue
                for nf in range(3, 7):
                    for flavor in ("total", "light", "charm", "bottom", "top"):
                        rep.cases += 1

                        def case(sy, process=process, proj=proj, pid=pid, kind=kind, nf=nf, flavor=flavor):
                            c = dict(process=process, projectile=proj, scheme="ZM-VFNS", nf_ff=3, nf=nf, kind=kind, flavor=flavor, pto=0, pto_evol=0, fonllparts="full")
                            cfg = H.cell_configs(sy, c, cc_spec=(process == "CC"))
                            ks, _ = H.collect(sy, cfg, kind, flavor, nf, what="collect")
                            view = {}
                            with rebind(*S_binds(sy)):
                                for k in ks:
                                    rsl = k.coeff[0]()
                                    if rsl is None or rsl.loc is None:
                                        continue
                                    c0 = rsl.loc(sy.x, rsl.args["loc"])
                                    for p_, w_ in k.partons.items():
                                        view[p_] = view.get(p_, 0) + w_ * c0
                            on = H.obs_name(kind, flavor)
                            is_pv = kind in H.PV_KINDS  # spec, not the code's own flag
                            exp = {}
                            if kind not in ("FL", "gL"):
                                hq = flav_q.get(flavor)
                                if hq is not None and hq > nf:
                                    exp = {}  # the tagged quark is not active: nothing at LO
                                elif process == "CC":
                                    from spec import ew as _ew

                                    V = [[sy.V[i][j] for j in range(3)] for i in range(3)]
                                    if hq is not None:
                                        keep = _ew.ckm_mask(H.QUARK_NAMES[hq - 1])
                                        V = [[V[i][j] * keep[i][j] for j in range(3)] for i in range(3)]
                                    exp = _ew.cc_parton_model(pid, V, H.QUARK_NAMES[:nf], nf, is_pv)
                                else:
                                    t = ("VA", "AV") if is_pv else ("VV", "AA")
                                    for q in ([hq] if hq is not None else range(1, nf + 1)):
                                        wq = H.WStub(sy, process, pid).get_weight(q, sy.Q2, t[0]) + H.WStub(sy, process, pid).get_weight(q, sy.Q2, t[1])
                                        exp[q] = wq
                                        exp[-q] = -wq if is_pv else wq
                            return [(f"pid={k}", view.get(k, 0), exp.get(k, 0)) for k in sorted(set(view) | set(exp))] or [("empty", 0, 0)]

                        rep.check(f"C02/LO-view-heavyness/{process}/{proj}/{kind}_{flavor}/nf={nf}", case, sy, pre, kind="lemma", max_paths=16)


def S_binds(sy):
    from . import sites as S

    return S.stub_binds(sy)


# ---------------------------------------------------------------------------------------
class BasisStub:
    """eko BasisFunction contract stub (A-eko): value p_j(x) uninterpreted; support flags concrete."""

    def __init__(self, sy, j, below=False, mode_log=True):
        self.sy = sy
        self.j = j
        self._below = below
        self._mode_log = mode_log
        self.areas_representation = ("areas", j)

        class A:
            def __init__(s, lo, hi):
                s.xmin, s.xmax = lo, hi

        self.areas = [A(np.log(0.1), np.log(0.5)), A(np.log(0.5), np.log(1.0))] if mode_log else [A(0.1, 0.5), A(0.5, 1.0)]

    def is_below_x(self, x):
        return self._below

    def __call__(self, x):
        return self.sy.U("p", self.j, x)


def sec_grid_node(rep):
    """Lemma 'grid node => weight x Kronecker delta': convolution(from_delta(c), x, p_j) = c * p_j(x)
    (no quadrature is invoked), and with A-eko p_j(x_k) = delta_jk."""
    from yadism.esf import conv
    from yadism.coefficient_functions.partonic_channel import RSL
    import yadism.coefficient_functions.partonic_channel as pcmod

    rep.under_contract(conv.convolution, RSL.from_delta)
    sy = H.Sy(extra="c")

    def no_quad(*a, **k):
        raise AssertionError("quad must not be called for a pure delta kernel")

    class _SI:
        class integrate:
            quad = staticmethod(no_quad)

    eps = conv.eps_integration_border
    for below in (False, True):
        for mode_log in (True, False):
            rep.cases += 1

            def case(sy, below=below, mode_log=mode_log):
                shim = [] if sy.is_numeric else np_shim_for(pcmod)
                with rebind(*shim, (conv, "scipy", _SI)):
                    rsl = RSL.from_delta(sy.c)
                    bf = BasisStub(sy, 3, below, mode_log)
                    res, err = conv.convolution(rsl, sy.x, bf)
                if below or bool(sy.x >= 1 - eps):
                    return [("zero", res, 0), ("error", err, 0)]
                return [("value", res, sy.c * sy.U("p", 3, sy.x)), ("error", err, 0)]

            rep.check(f"C02/grid-node/conv-delta/below={below}/log={mode_log}", case, sy, [sy.x > 0, sy.x < 1], kind="lemma")
    interp = H.interpolator()
    g = interp.xgrid.raw
    ok = all(abs(bf(xk) - (1.0 if j == k else 0.0)) < 1e-12 for k, xk in enumerate(g) for j, bf in enumerate(interp))
    o = ob_eval("C02/grid-node/A-eko-instance", ok, kind="bounded", detail="eko basis_j(x_k)=delta_jk on one grid (assumption A-eko; instance only)")
    o.bounded = True
    rep.add(o)
    H.eko_basis_standin(rep)


# ---------------------------------------------------------------------------------------
def sec_selfcheck(rep, seed):
    """Canary (a deliberately wrong get_weight must be refuted) and CPython cross-check."""
    import random

    from pvc.numeval import evalf
    from pvc.core import Report
    from yadism.coefficient_functions.coupling_constants import CouplingConstants as CC
    from canaries import c02 as canary

    sy = H.Sy()
    pre = ew_pre(sy)
    scratch = Report(rep.pid, rep.tier, seed)

    def case(sy):
        cc = H.coupling_constants(sy, "NC", "positron")
        with rebind((CC, "leptonic_coupling", canary.leptonic_coupling_wrong)):
            return cc.get_weight(2, sy.Q2, "VV"), spec_weight("NC", -11, 2, "VV", sy, None, "")

    scratch.check("canary", case, sy, pre)
    o = scratch.obs[0]
    good = o.status == REFUTED and bool(o.replay.get("confirmed"))
    rep.add(Ob("C02/selfcheck/canary-refuted-and-replayed", "canary", PROVED if good else "error", "ratfun+replay", o.seconds, f"wrong variant: {o.status}, native replay confirmed={o.replay.get('confirmed')}"))

    rnd = random.Random(seed)
    bad = n = 0
    for _ in range(60):
        process = rnd.choice(H.PROCESSES)
        proj = rnd.choice(list(H.PROJECTILES))
        q = rnd.randint(1, 6) * rnd.choice((1, -1))
        ct = rnd.choice(H.COUPLING_TYPES)
        mask = rnd.choice(MASKS) if process == "CC" else None
        env = {"Q2": rnd.uniform(1, 1e4), "s2w": rnd.uniform(0.1, 0.4), "MZ2": rnd.uniform(1e3, 1e4), "MW2": rnd.uniform(1e3, 1e4), "pol": rnd.uniform(-1, 1), "pcorr": rnd.uniform(-0.5, 0.5)}
        for i in range(3):
            for j in range(3):
                env[f"V_{i}_{j}"] = rnd.uniform(0, 1)
        symres = explore(lambda: H.coupling_constants(sy, process, proj).get_weight(q, sy.Q2, ct, cc_mask=mask), pre)[0].result
        syn = sy.numeric(env)
        native = H.coupling_constants(syn, process, proj).get_weight(q, syn.Q2, ct, cc_mask=mask)
        sv = evalf(R.lift(symres), env)
        n += 1
        if abs(sv - native) > 1e-9 * max(1.0, abs(native)):
            bad += 1
    rep.add(Ob("C02/selfcheck/cpython-crosscheck", "selfcheck", PROVED if bad == 0 else "error", "eval", 0, f"{n} random points: symbolic result evaluated vs native float run of the same method: {bad} mismatches"))


def run(rep, tier, seed, only=None):
    rep.assume(
        "spec/ew.py is hand-typed from the PDG structure-function review (oracle)",
        "neutrino 'polarization' sign convention taken as opposite to charged leptons (PDG defines none)",
        "A-np: numpy object-dtype arithmetic is the real reading of float64 arithmetic",
        "A-eko: basis_j(x_k) = delta_jk, partition of unity, continuity of the basis functions -- assumed for arbitrary grids; stand-ins (labelled bounded): eko's real constructors and evaluate_x executed on symbolic nodes and x (any node positions, degree 1..4, up to degree+3 nodes; exact identities) and on six concrete grids (every x, z3)",
        "gluon/singlet/valence weights specified as flavour averages (charge average), see DESIGN C02",
        "identity tolerance 1e-12 relative (concrete float sub-computations such as np.mean of charges)",
    )
    secs = [("parityflag", sec_parity_flag), ("dropempty", sec_drop_empty), ("couplings", sec_couplings), ("ckm", sec_ckm), ("weights", sec_weights), ("weightsframe", sec_weights_history), ("lo", sec_lo), ("lo_view", sec_lo_view), ("heavyness", sec_lo_view_heavyness), ("grid", sec_grid_node)]
    for nm, f in secs:
        if only and only not in nm:
            continue
        rep.add(guarded(f"C02/{nm}", lambda f=f: (f(rep), [])[1]))
    if not only and rep.replay_target is None:
        rep.add(guarded("C02/selfcheck", lambda: (sec_selfcheck(rep, seed), [])[1]))
    rep.exhaustive = True
    rep.extra["rule"] = "cases = process x projectile x pid x coupling type x mode x nc_pos_charge x nf x cc_mask x parity, all enumerated; reals symbolic; each case distinct by its discrete tuple"
