"""C01 -- operator entries are x * (coefficient function (x) basis function).

Functions under contract: esf.conv.{quad_ker_reg, quad_ker_sing, quad_ker_reg_sing, convolution,
convolve_vector, convolve_operator}, the raw-order part of
esf.esf.EvaluatedStructureFunction.compute_local, PartonicChannel.convolution_point and its
overrides (heavy CC, intrinsic NC).

Contract stubs: scipy.integrate.quad (A-quad: returns the integral of the integrand it is
given over the interval it is given -- recorded, and the captured integrand is then evaluated
on a symbolic z with the captured argument tuple), eko's evaluate_x / log_evaluate_x and
BasisFunction (A-eko: value of the basis function), Combiner (abstract kernels).
"""
from __future__ import annotations

import ast
import inspect
import math

import numpy as np

from pvc.core import ob_eval, guarded, Ob, PROVED, REFUTED, UNDECIDED
from pvc.stubs import rebind, np_shim_for, NumpyShim
from pvc.sym import R

from . import harness as H
from . import sites as S

LEVEL = "proof"
BORDERS = [0.05, 0.2, 0.6, 1.0]  # areas [0.05,0.2], [0.2,0.6], [0.6,1.0]
SHORT = [0.05, 0.2, 0.6]  # a basis function whose support ends below 1 (every one but the last few)


class Basis:
    """eko BasisFunction contract stub (A-eko)."""

    def __init__(self, sy, j, mode_log, below=False, borders=BORDERS):
        self.sy, self.j, self._mode_log, self._below = sy, j, mode_log, below
        self.areas_representation = ("areas-repr", j)

        class A:
            def __init__(s, lo, hi):
                s.xmin, s.xmax = lo, hi

        f = np.log if mode_log else (lambda v: v)
        self.areas = [A(f(borders[i]), f(borders[i + 1])) for i in range(len(borders) - 1)]

    def is_below_x(self, x):
        self.asked_below = getattr(self, "asked_below", []) + [x]
        return self._below

    def __call__(self, x):
        self.asked_value = getattr(self, "asked_value", []) + [x]
        return self.sy.U("p", self.j, x)


class EkoStub:
    """eko.interpolation contract stub: (log_)evaluate_x(u, areas_representation) = p_j(u)."""

    def __init__(self, sy, log):
        self.sy, self.log = sy, log

    def evaluate_x(self, u, areas):
        self.log.append("lin")
        return self.sy.U("p", areas[1], u)

    def log_evaluate_x(self, u, areas):
        self.log.append("log")
        return self.sy.U("p", areas[1], u)


class QuadStub:
    """scipy.integrate.quad contract stub (A-quad)."""

    def __init__(self, sy):
        self.sy = sy
        self.calls = []

    def quad(self, func, a, b, args=(), epsabs=None, points=None, **kw):
        self.calls.append(dict(func=func, a=a, b=b, args=args, epsabs=epsabs, points=points, kw=kw))
        n = len(self.calls)
        return self.sy.U("QUAD", n), self.sy.U("QERR", n)


def spec_integrand(sy, z, x, j, reg, sing):
    """reg(z) f(x/z)/z + sing(z) (f(x/z)/z - f(x)) with absent parts dropped."""
    f_xz = sy.U("p", j, x / z) / z
    tot = 0
    if reg is not None:
        tot = tot + reg(z) * f_xz
    if sing is not None:
        tot = tot + sing(z) * (f_xz - sy.U("p", j, x))
    return tot


def sec_quad_kers(rep):
    from yadism.esf import conv

    if not all(hasattr(conv, n_) for n_ in ("quad_ker_reg", "quad_ker_sing", "quad_ker_reg_sing")):
        # the three integrand helpers are internal: a refactoring may merge or rename them.  Their
        # contract is then carried by the convolution contract alone, which calls whatever integrand the
        # code hands to the quadrature on a symbolic z (sec_convolution) -- nothing to discharge here
        rep.extra["quad_ker helpers absent (integrand checked through conv.convolution only)"] = True
        return
    rep.under_contract(conv.quad_ker_reg, conv.quad_ker_sing, conv.quad_ker_reg_sing)
    sy = H.Sy(extra="z a1 a2 px")
    pre = [sy.x > 0, sy.x < 1, sy.z > 0, sy.z <= 1]
    for is_log in (True, False):
        rep.cases += 1

        def case(sy, is_log=is_log):
            log = []
            reg = lambda z, a: sy.U("reg", z, a[0])
            sing = lambda z, a: sy.U("sing", z, a[0])
            with rebind((conv, "interpolation", EkoStub(sy, log))):
                r = conv.quad_ker_reg(sy.z, sy.x, is_log, ("areas-repr", 3), reg, [sy.a1])
                s_ = conv.quad_ker_sing(sy.z, sy.x, is_log, ("areas-repr", 3), sing, sy.px, [sy.a2])
                rs = conv.quad_ker_reg_sing(sy.z, sy.x, is_log, ("areas-repr", 3), reg, [sy.a1], sing, sy.px, [sy.a2])
            f_xz = sy.U("p", 3, sy.x / sy.z) / sy.z
            return [
                ("quad_ker_reg", r, sy.U("reg", sy.z, sy.a1) * f_xz),
                ("quad_ker_sing", s_, sy.U("sing", sy.z, sy.a2) * (f_xz - sy.px)),
                ("quad_ker_reg_sing", rs, sy.U("reg", sy.z, sy.a1) * f_xz + sy.U("sing", sy.z, sy.a2) * (f_xz - sy.px)),
                ("evaluator selected by is_log", sorted(set(log)), ["log"] if is_log else ["lin"]),
            ]

        rep.check(f"C01/quad_ker/post/is_log={is_log}", case, sy, pre, sides=True)


def sec_convolution(rep):
    from yadism.esf import conv
    from yadism.coefficient_functions.partonic_channel import RSL
    import yadism.coefficient_functions.partonic_channel as pcmod

    rep.under_contract(conv.convolution)
    eps = conv.eps_integration_border
    sy = H.Sy(extra="z ar as_ al")
    pre = [sy.x > 0, sy.x < 2]
    for has_reg in (False, True):
        for has_sing in (False, True):
            for has_loc in (False, True):
                for mode_log in (True, False):
                    for below, BORDERS in ((False, globals()["BORDERS"]), (True, globals()["BORDERS"]), (False, SHORT), (True, SHORT)):
                        rep.cases += 1

                        def case(sy, has_reg=has_reg, has_sing=has_sing, has_loc=has_loc, mode_log=mode_log, below=below, BORDERS=BORDERS):
                            regf = (lambda z, a: sy.U("reg", z, a[0])) if has_reg else None
                            singf = (lambda z, a: sy.U("sing", z, a[0])) if has_sing else None
                            locf = (lambda x_, a: sy.U("loc", x_, a[0])) if has_loc else None
                            q = QuadStub(sy)
                            elog = []

                            class _SI:
                                integrate = q

                            with rebind(*([] if sy.is_numeric else np_shim_for(pcmod, conv)), (conv, "scipy", _SI), (conv, "interpolation", EkoStub(sy, elog))):
                                rsl = RSL(regf, singf, locf, args={"reg": [sy.ar], "sing": [sy.as_], "loc": [sy.al]})
                                bf = Basis(sy, 2, mode_log, below, borders=BORDERS)
                                res, err = conv.convolution(rsl, sy.x, bf)
                                out = []
                                empty = below or bool(sy.x >= 1 - eps)
                                # pre-at-call: the basis function is asked about the convolution point itself
                                asked = [("pre-at-call: is_below_x asked about x itself", all(a is sy.x or (sy.is_numeric and a == sy.x) for a in getattr(bf, "asked_below", [])), True), ("pre-at-call: f evaluated at x itself", all(a is sy.x or (sy.is_numeric and a == sy.x) for a in getattr(bf, "asked_value", [])), True)]
                                if empty:
                                    return asked[:1] + [("empty-domain: value", res, 0), ("empty-domain: error", err, 0), ("empty-domain: no quadrature", len(q.calls), 0)]
                                fx = sy.U("p", 2, sy.x)
                                loc_term = fx * sy.U("loc", sy.x, sy.al) if has_loc else 0
                                if not (has_reg or has_sing):
                                    return [("no kernel: value = f(x) loc(x)", res, loc_term), ("no kernel: error", err, 0), ("no kernel: no quadrature", len(q.calls), 0)]
                                out += asked
                                out.append(("one quadrature", len(q.calls), 1))
                                if not q.calls:
                                    out.append(("value on a non-empty domain is not the empty-domain answer", res, sy.U("QUAD", 1) + loc_term))
                                    return out
                                c = q.calls[0]
                                out.append(("value = QUAD + f(x) loc(x)", res, sy.U("QUAD", 1) + loc_term))
                                out.append(("error = quadrature error", err, sy.U("QERR", 1)))
                                zmax = min(max(sy.x / b for b in BORDERS), 1)
                                out.append(("lower limit x(1+eps)", c["a"], sy.x * (1 + eps)))
                                out.append(("upper limit min(max_i x/b_i, 1)(1-eps)", c["b"], zmax * (1 - eps)))
                                out.append(("epsabs", c["epsabs"], conv.eps_integration_abs))
                                pts = list(c["points"])
                                out.append(("number of breakpoints = number of area borders", len(pts), len(BORDERS)))
                                for i, b in enumerate(sorted(BORDERS)):
                                    if i < len(pts):
                                        out.append((f"breakpoint[{i}] = x/border", pts[i], sy.x / b, {"tol": 1e-12}))
                                # the captured integrand with the captured argument tuple, on a symbolic z
                                from pvc.sym import no_sides

                                with no_sides():
                                    got = c["func"](sy.z, *c["args"])
                                    exp = spec_integrand(sy, sy.z, sy.x, 2, (lambda z: sy.U("reg", z, sy.ar)) if has_reg else None, (lambda z: sy.U("sing", z, sy.as_)) if has_sing else None)
                                out.append(("integrand(z) = reg f(x/z)/z + sing (f(x/z)/z - f(x))", got, exp))
                                out.append(("evaluator matches the interpolation mode", sorted(set(elog)), ["log"] if mode_log else ["lin"]))
                                return out

                        # the stub answers is_below_x by a flag: keep it consistent with the support it declares
                        sup = [sy.x >= BORDERS[-1]] if (below and BORDERS[-1] < 1) else ([sy.x < BORDERS[-1]] if BORDERS[-1] < 1 else [])
                        rep.check(f"C01/convolution/post/reg={has_reg},sing={has_sing},loc={has_loc}/log={mode_log}/below={below}" + ("" if BORDERS[-1] == 1.0 else f"/support-ends-at-{BORDERS[-1]}"), case, sy, pre + sup, max_paths=64)
    rep.sample({"convolution": "reg+sing+loc, log mode: res == QUAD(ker, x(1+eps), min(max_i x/b_i,1)(1-eps), points={x/b_i}) + p_j(x) loc(x) with ker(z) == reg(z) p_j(x/z)/z + sing(z)(p_j(x/z)/z - p_j(x)) -- the integrand is obtained by calling the captured quad_ker with the captured quad_args on a symbolic z"})


def loop_is_append_only(fn, accumulators):
    """AST lemma: in fn's single top-level for-loop the loop-carried variables ``accumulators`` are
    used only as receivers of ``.append(...)`` -- so iteration i contributes exactly the value
    computed from element i and the result is the element-wise map (induction on the prefix)."""
    tree = ast.parse(inspect.getsource(fn).lstrip())
    f = tree.body[0]
    loops = [n for n in f.body if isinstance(n, ast.For)]
    if len(loops) != 1:
        return False, f"{len(loops)} top-level loops"
    loop = loops[0]
    bad = []
    for node in ast.walk(loop):
        if isinstance(node, ast.Name) and node.id in accumulators:
            bad.append(node)
    ok_nodes = []
    for node in ast.walk(loop):
        if isinstance(node, ast.Expr) and isinstance(node.value, ast.Call) and isinstance(node.value.func, ast.Attribute) and node.value.func.attr == "append" and isinstance(node.value.func.value, ast.Name) and node.value.func.value.id in accumulators:
            ok_nodes.append(node.value.func.value)
            for a in ast.walk(ast.Module(body=[ast.Expr(value=x) for x in node.value.args], type_ignores=[])):
                if isinstance(a, ast.Name) and a.id in accumulators:
                    return False, "accumulator read inside append argument"
    extra = [b for b in bad if b not in ok_nodes]
    has_break = any(isinstance(n, (ast.Break, ast.Return)) for n in ast.walk(loop))
    return (not extra and not has_break and len(ok_nodes) == len(accumulators)), f"{len(ok_nodes)} appends, {len(extra)} other uses, break/return={has_break}"


def sec_convolve_vector(rep):
    from yadism.esf import conv

    rep.under_contract(conv.convolve_vector, conv.convolve_operator)
    sy = H.Sy(extra="cp")
    ok, why = loop_is_append_only(conv.convolve_vector, {"ls", "els"})
    rep.add(ob_eval("C01/convolve_vector/loop-lemma(accumulators are append-only, no early exit)", ok, kind="invariant", detail=why))
    for n in (0, 1, 2, 3):
        rep.cases += 1

        def case(sy, n=n):
            calls = []

            def convolution(cf, x, pf):
                calls.append((cf, x, pf))
                return sy.U("conv", pf), sy.U("cerr", pf)

            interp = [f"basis{i}" for i in range(n)]
            with rebind((conv, "convolution", convolution)):
                ls, els = conv.convolve_vector("rsl", interp, sy.cp)
            out = [("shapes", (np.shape(ls), np.shape(els)), ((n,), (n,))), ("calls: (cf, convolution point, basis_i) in order", calls, [("rsl", sy.cp, b) for b in interp])]
            for i, b in enumerate(interp):
                out.append((f"ls[{i}] = convolution(cf, cp, basis_{i})[0]", ls[i], sy.U("conv", b)))
                out.append((f"els[{i}] = convolution(cf, cp, basis_{i})[1]", els[i], sy.U("cerr", b)))
            return out

        rep.check(f"C01/convolve_vector/post/n={n}", case, sy)
    # convolve_operator: op[l,k] = convolution(fnc, x_k, basis_l), last corner skipped
    src = inspect.getsource(conv.convolve_operator)
    tree = ast.parse(src)
    stores = [n for n in ast.walk(tree) if isinstance(n, ast.Subscript) and isinstance(n.ctx, ast.Store)]
    loads = [n for n in ast.walk(tree) if isinstance(n, ast.Subscript) and isinstance(n.ctx, ast.Load) and isinstance(n.value, ast.Name) and n.value.id in ("op_res", "op_err")]
    rep.add(ob_eval("C01/convolve_operator/loop-lemma(each cell written once, never read)", len(stores) == 2 and not loads, kind="invariant", detail=f"{len(stores)} subscript stores, {len(loads)} reads of the result arrays"))
    for n in (1, 2, 3):
        rep.cases += 1

        def case(sy, n=n):
            def convolution(cf, x, pf):
                return sy.U("conv", pf, x), sy.U("cerr", pf, x)

            class I(list):
                class xgrid:
                    raw = [0.1 * (i + 1) for i in range(n)]

            interp = I(f"b{i}" for i in range(n))
            with rebind((conv, "convolution", convolution), (conv, "np", NumpyShim())):
                op, er = conv.convolve_operator("rsl", interp)
            out = [("shape", np.shape(op), (n, n))]
            for l in range(n):
                for k in range(n):
                    skipped = k == l == n - 1
                    out.append((f"op[{l},{k}]", op[l, k], 0 if skipped else sy.U("conv", f"b{l}", I.xgrid.raw[k])))
                    out.append((f"err[{l},{k}]", er[l, k], 0 if skipped else sy.U("cerr", f"b{l}", I.xgrid.raw[k])))
            return out

        rep.check(f"C01/convolve_operator/post/n={n}", case, sy)


def sec_compute_local(rep):
    """Raw orders: orders[(o,0,0,0)][0][pid,j] = sum_k partons_k(pid) * cp_k * convolution(coeff_k[o](), cp_k, basis_j)[0]."""
    from yadism.esf import esf as esfmod, conv
    from yadism.esf.result import ESFResult
    import yadism.coefficient_functions as cf
    from eko import basis_rotation as br

    rep.under_contract(esfmod.EvaluatedStructureFunction.compute_local, esfmod.EvaluatedStructureFunction.get_result)
    pids = list(br.flavor_basis_pids)
    # loop lemma: self.res.orders is only ever updated by += inside the kernel loop
    src = inspect.getsource(esfmod.EvaluatedStructureFunction.compute_local)
    tree = ast.parse(src.lstrip() if not src.startswith("    ") else "class _:\n" + src)
    aug = [n for n in ast.walk(tree) if isinstance(n, ast.AugAssign) and isinstance(n.target, ast.Subscript)]
    res_loads = [n for n in ast.walk(tree) if isinstance(n, ast.Attribute) and n.attr == "orders" and isinstance(n.ctx, ast.Load)]
    rep.add(ob_eval("C01/compute_local/loop-lemma(result tensors only accumulate by +=)", len(aug) == 2 and all(isinstance(a.op, ast.Add) for a in aug), kind="invariant", detail=f"{len(aug)} augmented assignments on subscripts; {len(res_loads)} loads of .orders"))
    # ESF.__init__ (real constructor, real configs): the perturbative orders of the point are 0..PTODIS
    # whatever the evolution order of the card, and the kinematics are stored unchanged
    rep.under_contract(esfmod.EvaluatedStructureFunction.__init__)
    for pto in range(4):
        for pto_evol in range(4):
            rep.cases += 1
            cfg0 = H.make_configs(H.Sy(), symbolic=False, pto=pto, pto_evol=pto_evol)
            e0 = esfmod.EvaluatedStructureFunction({"x": 0.5, "Q2": 10.0}, H.obs_name("F2", "total"), cfg0)
            ok0 = e0.orders == list(range(pto + 1)) and (e0.x, e0.Q2) == (0.5, 10.0) and e0._computed is False and e0.res.orders == {}
            rep.add(ob_eval(f"C01/ESF.__init__/post(orders = 0..PTODIS={pto} independent of PTO={pto_evol}; x, Q2 stored; nothing computed)", ok0, detail=f"orders={e0.orders}", inputs={} if ok0 else {"PTODIS": pto, "PTO": pto_evol, "orders": str(e0.orders)}))
    for nk in (1, 2, 3):
        for ng in (1, 2):
            for pto in (0, 1, 3):
                rep.cases += 1
                sy = H.Sy(extra=" ".join(f"cp{k}" for k in range(nk)))

                def case(sy, nk=nk, ng=ng, pto=pto):
                    class SV:
                        def apply_common_scale_variations(self, ko, nf):
                            return []

                        def apply_diff_scale_variations(self, ko, nf):
                            return []

                    kernels = []

                    # ONE coefficient class for all kernels, and kernels 0 and 2 share their convolution
                    # point: what distinguishes two kernels is the object (its mass, its threshold), so
                    # every kernel's own RSL is convolved -- nothing may be shared by class and point
                    class Coeff(dict):
                        def __init__(s, k):
                            s.k = k

                        def convolution_point(s):
                            return getattr(sy, f"cp{0 if s.k == 2 else s.k}")

                    for k in range(nk):
                        c = Coeff(k)
                        for o in range(4):
                            # kernel 0 has no order-1 RSL; kernel 1 is silenced above order 1
                            c[o] = (lambda: None) if (k == 0 and o == 1) else (lambda k=k, o=o: ("rsl", k, o))

                        class K:
                            pass

                        ker = K()
                        ker.partons = {p: sy.U("w", k, p) for p in ([1, -2, 21] if k % 2 == 0 else [2, 21, 5])}
                        ker.coeff = c
                        ker.channel = "non-singlet"
                        ker.has_order = (lambda o, k=k: not (k == 1 and o > 1))
                        kernels.append(ker)

                    class Comb:
                        def __init__(s, e):
                            s.nf = 4

                        def collect_elems(s):
                            return kernels

                    def convolve_vector(rsl, interp, cp):
                        v = np.empty(ng, dtype=object)
                        e = np.empty(ng, dtype=object)
                        for j in range(ng):
                            v[j], e[j] = sy.U("conv", str(rsl), j, cp), sy.U("cerr", str(rsl), j, cp)
                        return v, e

                    class Interp(list):
                        class xgrid:
                            raw = [0.1] * ng

                            def __len__(s):
                                return ng

                        xgrid = xgrid()

                    cfg = H.make_configs(sy, symbolic=False, pto=pto, sv=SV())
                    cfg.managers["interpolator"] = Interp()
                    e = esfmod.EvaluatedStructureFunction.__new__(esfmod.EvaluatedStructureFunction)
                    e.x, e.Q2, e.nf, e.process = 0.5, 10.0, None, "NC"
                    e.res = ESFResult(0.5, 10.0, None)
                    e._computed = False
                    e.orders = [o for o in range(4) if o <= pto]
                    e.info = esfmod.ESFInfo(H.obs_name("F2", "total"), cfg)
                    shim = NumpyShim()
                    with rebind((cf, "Combiner", Comb), (conv, "convolve_vector", convolve_vector), (esfmod, "np", shim), (esfmod.sv, "build_orders", lambda p: [(o, 0, 0, 0) for o in range(p + 1)])):
                        e.compute_local()
                        first = {k: (v[0].copy(), v[1].copy()) for k, v in e.res.orders.items()}
                        e.compute_local()  # cached: must not accumulate twice
                    out = [("order keys", sorted(e.res.orders), [(o, 0, 0, 0) for o in range(pto + 1)]), ("_computed", e._computed, True)]
                    for o in range(pto + 1):
                        val, err = e.res.orders[(o, 0, 0, 0)]
                        out.append((f"shape[{o}]", np.shape(val), (len(pids), ng)))
                        for pi, pid in enumerate(pids):
                            for j in range(ng):
                                exp_v, exp_e = 0, 0
                                for k, ker in enumerate(kernels):
                                    if not ker.has_order(o) or (k == 0 and o == 1) or pid not in ker.partons:
                                        continue
                                    cp = getattr(sy, f"cp{0 if k == 2 else k}")
                                    exp_v = exp_v + ker.partons[pid] * cp * sy.U("conv", str(("rsl", k, o)), j, cp)
                                    exp_e = exp_e + shim.abs(ker.partons[pid]) * cp * sy.U("cerr", str(("rsl", k, o)), j, cp)
                                if pid in (1, -2, 21, 2, 5) or j == 0:
                                    out.append((f"value[{o}][pid={pid},{j}]", val[pi, j], exp_v))
                                    out.append((f"error[{o}][pid={pid},{j}]", err[pi, j], exp_e))
                                    out.append((f"second compute_local call is a no-op[{o}][pid={pid},{j}]", val[pi, j], first[(o, 0, 0, 0)][0][pi, j]))
                    return out

                rep.check(f"C01/compute_local/post/kernels={nk}/grid={ng}/pto={pto}", case, sy)
    rep.sample({"compute_local": "orders[(o,0,0,0)][0][pid,j] == sum_k partons_k[pid] * cp_k * convolve_vector(coeff_k[o](), interpolator, cp_k)[0][j], kernels with has_order(o) false or coeff[o]() None skipped; errors with |partons_k[pid]|"})


def sec_drop_empty(rep):
    """Combiner.drop_empty (between the generators and compute_local): removes exactly the partons
    whose weight is zero and the kernels left without partons / with an EmptyPartonicChannel --
    for symbolic weights of either sign (z3 on every path), so the formal sum of the kernels and
    hence every operator entry is unchanged."""
    import yadism.coefficient_functions as cf
    from yadism.coefficient_functions.kernels import Kernel
    from pvc.core import ob_smt
    from pvc.explore import explore
    from pvc.sym import compare, ZERO, Not as _Not

    rep.under_contract(cf.Combiner.drop_empty)
    sy = H.Sy(extra="w1 w2 w3")
    ws = {1: sy.w1, -2: sy.w2, 21: sy.w3}

    def build():
        ks = [Kernel(dict(ws), "coeff-a"), Kernel({3: sy.w1}, "coeff-b")]
        with rebind(*np_shim_for(cf)):  # numpy predicates (isclose, ...) keep their meaning on symbols
            out = cf.Combiner.drop_empty(ks)
        return [(k.coeff, dict(k.partons)) for k in out]

    paths = explore(build, [], max_paths=64)
    rep.paths += len(paths)
    rep.cases += 1
    for i, p in enumerate(paths):
        if p.exc is not None:
            rep.add(ob_eval(f"C01/drop_empty/path{i}/no-exception", False, detail=repr(p.exc)))
            continue
        kept = {c: d for c, d in p.result}
        for coeff, orig in (("coeff-a", ws), ("coeff-b", {3: sy.w1})):
            for pid, w in orig.items():
                if coeff in kept and pid in kept[coeff]:
                    rep.add(ob_smt(f"C01/drop_empty/path{i}/{coeff}[{pid}] kept only if its weight is non-zero", p.pc, _Not(compare("==", w, ZERO))))
                    rep.add(ob_eval(f"C01/drop_empty/path{i}/{coeff}[{pid}] kept unchanged", kept[coeff][pid] is w))
                else:
                    rep.add(ob_smt(f"C01/drop_empty/path{i}/{coeff}[{pid}] dropped only if its weight is zero", p.pc, compare("==", w, ZERO)))
    rep.add(ob_eval("C01/drop_empty/cover(paths with kept and with dropped weights)", len(paths) >= 4, kind="cover", detail=f"{len(paths)} paths"))


def sec_convolution_point(rep):
    from yadism.coefficient_functions.partonic_channel import PartonicChannel, EmptyPartonicChannel

    rep.under_contract(PartonicChannel.convolution_point)
    sy = H.Sy(extra="z")
    all_sites, errors = S.all_sites(nfs=(3,), orders=(0,))
    for site in all_sites:
        rep.cases += 1

        def case(sy, site=site):
            with rebind(*S.stub_binds(sy)):
                o = site.construct(sy)
                cp = o.convolution_point()
            if site.family == "heavy" and site.process == "CC":
                exp = sy.x * (1 + sy.m2c / sy.Q2)
            elif site.family == "intrinsic" and site.process == "NC" and not isinstance(o, EmptyPartonicChannel):
                sqrt = (lambda v: v**0.5) if sy.is_numeric else (lambda v: R.lift(v).sqrt())
                m1, m2, q = sy.m2c, sy.m2c, -sy.Q2
                delta = sqrt(m1**2 + m2**2 + q**2 - 2 * (m1 * m2 + m2 * q + q * m1))
                eta = 2 * sy.Q2 / (sy.Q2 + m2 - m1 + delta)
                exp = sy.x / eta
            else:
                exp = sy.x
            return [("convolution_point", cp, exp)]

        rep.check(f"C01/convolution_point/{site.family}/{site.leaf}.{site.cls.__name__}", case, sy, site.pre(sy), max_paths=16)


def sec_eko_instance(rep, seed):
    """Bounded stand-in for A-eko on real eko interpolators (log / linear, degree 1..3): the
    values the integrands read, evaluate_x(u, areas_representation), are the basis function's own
    values; supports are unions of sorted areas; is_below_x(x) <=> x beyond the last area."""
    import random

    from eko import interpolation
    from eko.interpolation import InterpolatorDispatcher, XGrid

    rnd = random.Random(seed)
    bad = []
    n = 0
    for is_log in (True, False):
        for deg in (1, 2, 3):
            interp = InterpolatorDispatcher(XGrid([1e-3, 1e-2, 0.1, 0.3, 0.6, 1.0], is_log), deg, mode_N=False)
            for j, bf in enumerate(interp):
                borders = [(a.xmin, a.xmax) for a in bf.areas]
                if borders != sorted(borders) or any(lo >= hi for lo, hi in borders):
                    bad.append(("areas not sorted", is_log, deg, j))
                hi = max(b[1] for b in borders)
                hi = math.exp(hi) if is_log else hi
                for _ in range(20):
                    u = rnd.uniform(1e-3, 1.0)
                    n += 1
                    ev = interpolation.log_evaluate_x(u, bf.areas_representation) if is_log else interpolation.evaluate_x(u, bf.areas_representation)
                    if abs(ev - bf(u)) > 1e-12 * max(1.0, abs(ev)):
                        bad.append(("evaluate_x != basis", is_log, deg, j, u))
                    if bf.is_below_x(u) != (hi <= u) and abs(hi - u) > 1e-12:
                        bad.append(("is_below_x", is_log, deg, j, u))
            # cardinality: basis_j(x_k) = delta_jk
            for k, xk in enumerate(interp.xgrid.raw):
                for j, bf in enumerate(interp):
                    if abs(bf(xk) - (1.0 if j == k else 0.0)) > 1e-10:
                        bad.append(("cardinal", is_log, deg, j, k))
    o = ob_eval("C01/A-eko-instance(real eko interpolators)", not bad, kind="bounded", detail=f"{n} evaluations; violations: {bad[:3]}")
    o.bounded = True
    rep.add(o)


def sec_selfcheck(rep, seed):
    """Canary: an integrand that drops the subtraction term of the plus distribution must be refuted."""
    from pvc.core import Report
    from canaries import c01 as canary

    sy = H.Sy(extra="z a2 px")
    scratch = Report(rep.pid, rep.tier, seed)

    def case(sy):
        from yadism.esf import conv

        sing = lambda z, a: sy.U("sing", z, a[0])
        with rebind((canary, "interpolation", EkoStub(sy, []))):
            got = canary.quad_ker_sing_wrong(sy.z, sy.x, True, ("areas-repr", 3), sing, sy.px, [sy.a2])
        f_xz = sy.U("p", 3, sy.x / sy.z) / sy.z
        return got, sy.U("sing", sy.z, sy.a2) * (f_xz - sy.px)

    scratch.check("canary", case, sy, [sy.x > 0, sy.x < 1, sy.z > 0, sy.z <= 1])
    bad = [o for o in scratch.obs if o.status == REFUTED]
    rep.add(Ob("C01/selfcheck/canary-missing-subtraction-refuted", "canary", PROVED if bad else "error", "ratfun", 0, f"{[o.status for o in scratch.obs]}"))


def run(rep, tier, seed, only=None):
    from pvc.core import lean_lemmas

    if not only and rep.replay_target is None:
        rep.add(lean_lemmas("C01", ["plus_prescription_restricted"], tier))
    rep.assume(
        "A-quad: scipy.integrate.quad returns the integral of the integrand it is given over the interval it is given (accuracy / subdivision limits not covered)",
        "A-eko: evaluate_x / log_evaluate_x(u, basis.areas_representation) is the value of that basis function at u; its support is the union of its areas (sorted borders); stand-ins (labelled bounded) for continuity / partition of unity / p_j(x_k) = delta_jk: eko's real constructors and evaluate_x run on SYMBOLIC nodes and x (any node positions, degree 1..4, up to degree+3 nodes, exact identities by the normaliser) and on six concrete grids (every x, z3)",
        "L-plus: for C = reg + [sing]_+ + delta_c delta(1-z) with loc(x) = delta_c - int_0^x sing (C03), the distribution acting on a test function supported in (x,1] is int_x^1 reg g + int_x^1 sing (g - g(1)) + loc(x) g(1) -- machine-checked by Lean 4 + Mathlib in the thorough tier (lemmas/Lemmas.lean, theorem plus_prescription_restricted); an assumption in the quick tier",
        "loop lemmas by AST (append-only accumulators / cells written once / += accumulation) lift the instantiations at 0..3 elements to every length",
        "the factor x of the left-hand side is the convolution point of the scheme (C09 / sec_convolution_point)",
    )
    rep.stub("scipy.integrate.quad -> recording stub", "eko.interpolation.(log_)evaluate_x and BasisFunction -> uninterpreted p_j(u)", "Combiner / coefficient objects -> abstract kernels (compute_local)", "conv.convolution / convolve_vector replaced by their contracts in their callers")
    for nm, f in (("quad_kers", sec_quad_kers), ("convolution", sec_convolution), ("vector", sec_convolve_vector), ("compute_local", sec_compute_local), ("drop_empty", sec_drop_empty), ("point", sec_convolution_point), ("weightsframe", H.weights_frame), ("aeko", H.eko_basis_standin), ("wiring", lambda r: __import__("contracts.c19", fromlist=["x"]).sec_runner_wiring(r)), ("schemedispatch", lambda r: H.scheme_families(r, tier)), ("distributions", lambda r: __import__("contracts.c03", fromlist=["x"]).sec_sites(r, tier))):
        if only and only not in nm:
            continue
        rep.add(guarded(f"C01/{nm}", lambda f=f: (f(rep), [])[1]))
    if not only and rep.replay_target is None:
        rep.add(guarded("C01/eko", lambda: (sec_eko_instance(rep, seed), [])[1]))
        rep.add(guarded("C01/selfcheck", lambda: (sec_selfcheck(rep, seed), [])[1]))
    rep.extra["rule"] = "cases = presence of reg/sing/loc x interpolation mode x support position; kernel-list and grid shapes 0..3 (lifted by the loop lemmas); every partonic channel class for the convolution point; x, z, args symbolic"
