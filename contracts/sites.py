"""Enumeration of every RSL construction site of yadism (shared by C03, C16, C18).

A site = (partonic channel class found by module scan, order 0..3, nf) or a splitting-function
label of split.raw_labels.  ``build(sy)`` constructs the REAL class on a (Fake)ESF with the
values of ``sy`` and calls the REAL order method; external libraries and the in-repo numerical
special functions are replaced by contract stubs (A-ext, A-special).
"""
from __future__ import annotations

import importlib
import inspect
import pkgutil
import sys
import types

import numpy as np

from pvc.stubs import rebind, np_shim_for
from pvc.sym import R, fn

from . import harness as H
from .c09 import LeProStub, InterpStub

KINDMAP = {"f2": "F2", "fl": "FL", "f3": "F3", "g1": "g1", "gl": "gL", "g4": "g4"}


class Site:
    def __init__(self, family, leaf, cls, order, nf):
        self.family, self.leaf, self.cls, self.order, self.nf = family, leaf, cls, order, nf
        self.kind = KINDMAP[leaf.split("_")[0]]
        self.process = "CC" if leaf.endswith("_cc") else "NC"

    @property
    def name(self):
        return f"{self.family}/{self.leaf}.{self.cls.__name__}/order={self.order}/nf={self.nf}"

    def pre(self, sy):
        """Kinematic domain of the family (ESF.x is a parameter, z the argument of the parts)."""
        pre = [sy.x > 0, sy.x < 1, sy.Q2 > 0, sy.m2c > 0, sy.z > 0, sy.z < 1]
        if self.family == "heavy" and self.process == "NC":
            # above the hadronic threshold (below: empty RSL, C09) and partonic threshold for reg(z)
            pre += [sy.Q2 * (1 - sy.x) / sy.x > 4 * sy.m2c]
        if self.family == "heavy" and self.process == "CC":
            pre += [sy.x * (1 + sy.m2c / sy.Q2) < 1]
        return pre

    def construct(self, sy, cfg=None):
        cls = self.cls
        cfg = cfg or H.make_configs(sy, process=self.process, projectile="electron", scheme="FFNS", nf_ff=3, pto=3, pto_evol=3)
        esf = H.FakeESF(sy.x, sy.Q2, H.obs_name(self.kind, "charm" if self.family != "light" else "light"), cfg)
        params = inspect.signature(cls.__init__).parameters
        kw = {}
        for k in params:
            if k in ("m2hq", "m1sq", "m2sq"):
                kw[k] = sy.m2c
        if any(p.kind == inspect.Parameter.VAR_KEYWORD for p in params.values()) and not kw:
            # subclasses that forward **kwargs (e.g. heavy fl_cc): find the keyword names upstream
            for base in cls.__mro__[1:]:
                try:
                    bp = inspect.signature(base.__init__).parameters
                except (TypeError, ValueError):
                    continue
                for k in bp:
                    if k in ("m2hq", "m1sq", "m2sq"):
                        kw[k] = sy.m2c
                if kw:
                    break
        return cls(esf, self.nf, **kw)


def stub_binds(sy, lep=None, itp=None):
    """Rebindings applied while a site is evaluated symbolically (none when replaying natively
    except for the external libraries)."""
    import yadism.coefficient_functions as cf
    from yadism.coefficient_functions import special
    from yadism.coefficient_functions.special import nielsen as nielsen_mod

    lep = lep or LeProStub(sy)
    itp = itp or InterpStub(sy)
    binds = []
    orig_li2 = special.li2
    orig_nielsen = nielsen_mod.nielsen
    import scipy.special

    orig_spence = scipy.special.spence

    def li2_stub(x):
        return fn("li2", x) if isinstance(x, R) else orig_li2(float(x))

    def spence_stub(x):
        return fn("spence", x) if isinstance(x, R) else orig_spence(x)

    from pvc.sym import Cx

    def nielsen_stub(n, p, x):
        if isinstance(x, R):
            if (int(n), int(p)) == (2, 1):  # S_{2,1} = Li3, with its derivative rule
                return Cx(fn("li3", x), sy.U("ImLi3", x))
            if (int(n), int(p)) == (1, 1):  # S_{1,1} = Li2 (same atom family as every other dilogarithm)
                return Cx(fn("li2", x), sy.U("ImLi2", x))
            return Cx(sy.U(f"ReS[{int(n)},{int(p)}]", x), sy.U(f"ImS[{int(n)},{int(p)}]", x))
        return orig_nielsen(n, p, x)

    for m in list(sys.modules.values()):
        if not isinstance(m, types.ModuleType) or not getattr(m, "__name__", "").startswith("yadism.coefficient_functions"):
            continue
        d = m.__dict__
        for name, val in list(d.items()):
            if val is orig_li2 and not sy.is_numeric:
                binds.append((m, name, li2_stub))
            elif val is orig_nielsen and not sy.is_numeric:
                binds.append((m, name, nielsen_stub))
            elif val is orig_spence and not sy.is_numeric:
                binds.append((m, name, spence_stub))
            elif name == "LeProHQ" and isinstance(val, types.ModuleType):
                binds.append((m, name, lep))
            elif name == "interpolator" and callable(val) and getattr(val, "__module__", "").endswith("heavy.n3lo"):
                binds.append((m, name, itp))
        # (the massive modules guard LeProHQ's answers with np.isnan: the shim reads that on symbols)
        if not sy.is_numeric and "np" in d and d["np"] is np and (m.__name__.endswith("partonic_channel") or ".coefficient_functions.heavy." in m.__name__):
            binds += np_shim_for(m)
    return binds


def all_sites(nfs=(3, 4, 5, 6), orders=(0, 1, 2, 3)):
    classes, errors = H.all_partonic_channel_classes()
    out = []
    for cls in sorted(classes, key=lambda c: (c.__module__, c.__name__)):
        mod = cls.__module__.split(".")
        family = mod[2]
        leaf = mod[3] if len(mod) > 3 else ""
        if family not in ("light", "heavy", "asy", "intrinsic") or "_" not in leaf or leaf.split("_")[1] not in ("nc", "cc"):
            continue
        if leaf.split("_")[0] not in KINDMAP:
            continue
        for order in orders:
            for nf in nfs:
                out.append(Site(family, leaf, cls, order, nf))
    return out, errors


def splitting_labels():
    """(label, factory(nf) -> RSL) for every entry of split.raw_labels."""
    from yadism.coefficient_functions import splitting_functions as split

    out = []
    for table in split.raw_labels:
        for lab, f in table.items():
            out.append((lab, f))
    return out
