"""C16 -- every documented configuration yields a finite result or a clear rejection.

Functions under contract: kernels.import_local, every *.kernels.generate*, Combiner.collect,
every coeff[o]() factory, sf.StructureFunction.get_esf (+ tmc.ESFTMCmap dispatch),
esf.EvaluatedStructureFunction.__init__ (kinematic validation), Runner.replace_nans_with_0.

  dispatch    for every cell of the documented lattice the construction of the kernel list and of
              every active RSL either succeeds or raises ValueError / NotImplementedError /
              RuntimeError with a message; KeyError, IndexError, AttributeError, ImportError,
              TypeError ... are refutations
  kinematics  a structure function object is only ever handed out for 0 < x <= 1, Q2 > 0,
              x >= min(xgrid) -- on the plain and on the TMC branch (symbolic x, Q2; z3)
  finiteness  in-repo formulas are finite on their domain (C03's definedness obligations, run
              there); replace_nans_with_0 zeroes every non-finite entry of every valid
              observable key, leaves other keys alone and does not mutate its input
"""
from __future__ import annotations

import ast
import copy
import math
import os

import numpy as np

from pvc import boot

from pvc.core import ob_eval, ob_smt, guarded, Ob, PROVED, REFUTED, UNDECIDED, parallel
from pvc.explore import explore
from pvc.stubs import rebind
from pvc.sym import R, And, Not

from . import harness as H
from . import sites as S

LEVEL = "proof"
EXPLICIT = (ValueError, NotImplementedError, RuntimeError)


def raised_explicitly(exc):
    """The exception was created by a ``raise`` statement in yadism's own source (and not by a
    failing lookup such as list.index / dict[...] inside or below it)."""
    import linecache
    import traceback

    tb = exc.__traceback__
    if tb is None:
        return True
    frames = traceback.extract_tb(tb)
    # innermost frame that belongs to yadism
    last = frames[-1]
    fn = os.path.realpath(last.filename)
    if not fn.startswith(os.path.realpath(boot.SRC)):
        return False
    # the statement at that line must be (part of) a raise
    try:
        src = open(fn).read()
        tree = ast.parse(src)
        for node in ast.walk(tree):
            if isinstance(node, ast.Raise) and node.lineno <= last.lineno <= getattr(node, "end_lineno", node.lineno):
                return True
    except Exception:  # noqa
        return linecache.getline(fn, last.lineno).strip().startswith("raise")
    return False


def classify(exc):
    if exc is None:
        return "ok"
    if isinstance(exc, EXPLICIT) and str(exc).strip() and raised_explicitly(exc):
        return "explicit-rejection"
    return f"internal:{type(exc).__name__}"


def dispatch_worker(sub, c):
    sy = H.Sy(extra="z")
    name = H.cell_name(c)
    sub.cases += 1
    pre = [sy.x > 0, sy.x <= 1, sy.Q2 > 0] + sy.mass_pre()

    def build():
        cfg = H.cell_configs(sy, c)
        with rebind(*S.stub_binds(sy)):
            ks, comb = H.collect(sy, cfg, c["kind"], c["flavor"], c["nf"], what="collect")
            n = 0
            for k in ks:
                _ = k.channel
                for o in range(c["pto"] + 1):
                    if k.has_order(o):
                        k.coeff[o]()
                        n += 1
        return n

    try:
        paths = explore(build, pre, max_paths=64)
    except Exception as e:  # noqa
        sub.add(Ob(f"C16/dispatch/{name}", "post", UNDECIDED, "engine", 0, f"{type(e).__name__}: {e}"))
        return
    sub.paths += len(paths)
    verdicts = sorted({classify(p.exc) for p in paths})
    bad = [v for v in verdicts if v.startswith("internal")]
    detail = f"outcomes over {len(paths)} kinematic paths: {verdicts}"
    if bad:
        p = next(p for p in paths if classify(p.exc).startswith("internal"))
        detail += f" -- {type(p.exc).__name__}: {p.exc}"
    o = ob_eval(
        f"C16/dispatch/{name}", not bad, detail=detail,
        inputs={} if not bad else {"configuration": {k: c[k] for k in c}, "exception": bad[0]},
        replay={"confirmed": True, "note": "decided by executing the real dispatch code on this concrete configuration (kinematics symbolic)"} if bad else None,
    )
    sub.add(o)
    for v in verdicts:
        sub.extra["outcome:" + v] = sub.extra.get("outcome:" + v, 0) + 1


def sec_dispatch(rep, tier):
    thorough = tier == "thorough"
    ptos = [(p, e) for p in range(4) for e in range(4)] if thorough else [(0, 0), (1, 1), (2, 1), (2, 2), (3, 2), (3, 3)]
    cells = list(H.lattice(tier, ptos=ptos, with_fonllparts=thorough))
    if thorough:
        # all four projectiles (the dispatch does not read the projectile beyond the CC rest parity)
        extra = []
        for c in cells:
            if c["projectile"] == "electron":
                extra.append(dict(c, projectile="neutrino"))
                extra.append(dict(c, projectile="antineutrino"))
        cells += extra
    parallel(rep, cells, dispatch_worker)
    rep.sample({"dispatch cells": len(cells)})
    rep.extra["dispatch_cells"] = len(cells)


class _Runner:
    def __init__(self, cfg):
        self.configs = cfg
        self.sfs = {}

    def get_sf(self, on):
        from yadism.sf import StructureFunction

        if on.name not in self.sfs:
            self.sfs[on.name] = StructureFunction(on, self)
        return self.sfs[on.name]


def sec_tmc_dispatch(rep):
    """sf.get_esf(use_raw=False) for every kind x TMC mode x heavyness: object or explicit rejection."""
    from yadism.sf import StructureFunction

    rep.under_contract(StructureFunction.get_esf)
    sy = H.Sy()
    for kind in H.SF_KINDS:
        for tmc in (0, 1, 2, 3):
            for flavor in ("total", "charm"):
                rep.cases += 1
                cfg = H.make_configs(sy, symbolic=False, tmc=tmc)
                r = _Runner(cfg)
                on = H.obs_name(kind, flavor)
                exc = None
                try:
                    r.get_sf(on).get_esf(on, {"x": 0.3, "Q2": 10.0}, use_raw=False)
                except Exception as e:  # noqa
                    exc = e
                v = classify(exc)
                rep.add(ob_eval(f"C16/tmc-dispatch/{kind}_{flavor}/TMC={tmc}", not v.startswith("internal"), detail=f"{v}: {exc!r}", inputs={} if not v.startswith("internal") else {"kind": kind, "TMC": tmc, "exception": repr(exc)}, replay={"confirmed": True, "python": f"runner with TMC={tmc}: get_sf({kind}_{flavor}).get_esf(..., use_raw=False)"}))


def sec_kinematics(rep):
    """Only valid kinematics ever get a structure-function object whose get_result() returns."""
    from yadism.sf import StructureFunction
    from yadism.esf import esf as esfmod, tmc as tmcmod, conv

    rep.under_contract(esfmod.EvaluatedStructureFunction.__init__, StructureFunction.get_esf, StructureFunction.load)
    sy = H.Sy()
    xmin = min(H.GRID)
    valid = And(sy.x > 0, sy.x <= 1, sy.Q2 > 0, sy.x >= xmin)
    for kind in ("F2", "FL", "F3", "g1"):
        for tmc in (0, 1, 2, 3):
            for entry in ("get_esf", "load"):
                rep.cases += 1
                name = f"C16/kinematics/{kind}/TMC={tmc}/{entry}"

                def build(kind=kind, tmc=tmc, entry=entry):
                    from yadism.esf.result import ESFResult

                    cfg = H.make_configs(sy, symbolic=True, tmc=tmc)
                    r = _Runner(cfg)
                    on = H.obs_name(kind, "total")
                    kin = {"x": sy.x, "Q2": sy.Q2}

                    def fake_compute(self):
                        self._computed = True

                    import yadism.coefficient_functions.partonic_channel as pcmod
                    from pvc.stubs import np_shim_for

                    with rebind(*np_shim_for(pcmod), (esfmod.EvaluatedStructureFunction, "compute_local", fake_compute), (conv, "convolution", lambda rsl, x, pj: (0.0, 0.0))):
                        sf = r.get_sf(on)
                        if entry == "load":
                            sf.load([kin])
                            obj = sf.elements[0]
                        else:
                            obj = sf.get_esf(on, kin, use_raw=False)
                        return obj.get_result()

                try:
                    paths = explore(build, [sy.M2target > 0], max_paths=512)
                except Exception as e:  # noqa
                    rep.add(Ob(name, "post", UNDECIDED, "engine", 0, f"{type(e).__name__}: {e}"))
                    continue
                rep.paths += len(paths)
                from pvc.core import ob_sides

                seen_sides = set()
                for i, p in enumerate(paths):
                    # definedness: a division by zero / log of a non-positive number on the way is an
                    # internal arithmetic error (or a silent inf/nan), not a clear rejection
                    for o in ob_sides(f"{name}/path{i}", p, [sy.M2target > 0], dedupe=seen_sides):
                        if o.status == REFUTED:
                            env = {k: float(v) for k, v in o.inputs.items() if k in ("x", "Q2", "M2target") and not isinstance(v, str)}
                            o.replay = native_kinematics(kind, tmc, entry, env)
                            if not o.replay.get("confirmed"):
                                # the real code rejects this input before reaching the operation
                                o.status = PROVED
                                o.detail = "counter-model is rejected explicitly by the real code before the operation: " + str(o.replay.get("observed_native"))[:160]
                                o.inputs = {}
                        rep.add(o)
                    if p.exc is not None:
                        v = classify(p.exc)
                        rep.add(ob_eval(f"{name}/path{i}/rejection-is-explicit", not v.startswith("internal"), detail=f"{v}: {p.exc!r}"))
                    else:
                        goal = valid
                        if tmc:
                            # a target-mass-corrected result is built from the structure functions at the
                            # Nachtmann variable xi = 2x / (1 + sqrt(1 + 4 x^2 M^2 / Q^2)) <= x (for modes 1
                            # and 3 on the whole range [xi, 1]): xi below the grid is "below the grid" too
                            rho = (1 + 4 * sy.x * sy.x * sy.M2target / sy.Q2).sqrt()
                            goal = And(valid, 2 * sy.x / (1 + rho) >= xmin)
                        o = ob_smt(f"{name}/path{i}/result-only-for-valid-kinematics" + ("(x and the Nachtmann xi inside the grid)" if tmc else ""), [sy.M2target > 0] + p.pc, goal)
                        if o.status == REFUTED:
                            env = {k: float(v) for k, v in o.inputs.items() if k in ("x", "Q2", "M2target")}
                            o.replay = native_kinematics(kind, tmc, entry, env)
                        rep.add(o)
                # cover: a valid point is accepted (the contract is not vacuous)
                ok = any(p.exc is None for p in paths)
                rep.add(ob_eval(f"{name}/cover/some-kinematics-accepted", ok, kind="cover"))


def native_kinematics(kind, tmc, entry, env):
    """Replay a kinematics counter-model on the real code with floats."""
    from yadism.esf import esf as esfmod, conv

    sy = H.Sy().numeric(env)
    cfg = H.make_configs(sy, symbolic=True, tmc=tmc)
    r = _Runner(cfg)
    on = H.obs_name(kind, "total")
    kin = {"x": float(env.get("x", 0.3)), "Q2": float(env.get("Q2", 10.0))}

    def fake_compute(self):
        self._computed = True

    try:
        with rebind((esfmod.EvaluatedStructureFunction, "compute_local", fake_compute), (conv, "convolution", lambda rsl, x, pj: (0.0, 0.0))):
            sf = r.get_sf(on)
            if entry == "load":
                sf.load([kin])
                sf.elements[0].get_result()
            else:
                sf.get_esf(on, kin, use_raw=False).get_result()
        valid = 0 < kin["x"] <= 1 and kin["Q2"] > 0 and kin["x"] >= min(H.GRID)
        return {"confirmed": not valid, "observed_native": f"a result is returned for x={kin['x']}, Q2={kin['Q2']} (TMC={tmc}, M2target={sy.M2target}) without any exception", "cmd": "./check C16 --only kinematics"}
    except Exception as e:  # noqa
        if classify(e).startswith("internal"):
            return {"confirmed": True, "observed_native": f"internal error instead of a clear rejection: {type(e).__name__}: {e}", "cmd": "./check C16 --only kinematics"}
        return {"confirmed": False, "observed_native": f"{type(e).__name__}: {e}"}


def sec_nans(rep):
    """Runner.replace_nans_with_0."""
    from yadism.runner import Runner
    from yadism import observable_name as on
    from yadism.esf.result import ESFResult
    from yadism.output import Output

    rep.under_contract(Runner.replace_nans_with_0)
    names = []
    for kind in on.sfs + on.xs:
        names.append(kind)
        for fl in on.external_flavors:
            names.append(f"{kind}_{fl}")
    r = Runner.__new__(Runner)
    for name in names:
        rep.cases += 1

        def mk():
            v = np.array([[1.0, np.nan, np.inf], [-np.inf, 2.0, 3.0]])
            e = np.array([[np.nan, 0.5, 0.25], [1.0, np.inf, 2.0]])
            return ESFResult(0.1, 10.0, 4, {(0, 0, 0, 0): (v, e), (1, 0, 0, 0): (v.copy(), e.copy())})

        out = Output()
        out[name] = [mk(), mk()]
        out["xgrid"] = [0.1, float("nan")]
        out["pids"] = [1, 2]
        before = copy.deepcopy(out)
        res = r.replace_nans_with_0(out)
        fin = all(np.all(np.isfinite(arr)) for pt in res[name] for vals in pt.orders.values() for arr in vals)
        kept = all(pt.orders[(0, 0, 0, 0)][0][0, 0] == 1.0 and pt.orders[(0, 0, 0, 0)][0][1, 1] == 2.0 and pt.orders[(0, 0, 0, 0)][1][0, 1] == 0.5 for pt in res[name])
        zero = all(pt.orders[(0, 0, 0, 0)][0][0, 1] == 0.0 and pt.orders[(0, 0, 0, 0)][0][1, 0] == 0.0 for pt in res[name])
        untouched = math.isnan(res["xgrid"][1]) and res["pids"] == [1, 2]
        frame = all(np.array_equal(a, b, equal_nan=True) for p1, p2 in zip(out[name], before[name]) for k in p1.orders for a, b in zip(p1.orders[k], p2.orders[k]))
        ok = fin and kept and zero and untouched and frame and res is not out
        rep.add(ob_eval(f"C16/replace_nans_with_0/post/{name}", ok, detail=f"finite={fin} finite-entries-kept={kept} zeroed={zero} other-keys-untouched={untouched} input-not-mutated={frame}", inputs={} if ok else {"observable key": name, "non-finite entries survive": not fin}, replay={"confirmed": True, "python": f"Runner.replace_nans_with_0({{'{name}': [ESFResult with nan/inf]}})"}))
    # None observables (empty) are tolerated
    out = Output()
    out["F2_total"] = []
    try:
        r.replace_nans_with_0(out)
        ok = True
    except Exception:  # noqa
        ok = False
    rep.add(ob_eval("C16/replace_nans_with_0/empty-list", ok))
    # Runner.get_result hands out the CLEANED object: a non-finite raw entry (LeProHQ at very small x,
    # the intrinsic term at extreme Q2/m2) never reaches the caller
    from yadism import runner as rmod
    from yadism.sf import StructureFunction

    class Progress:
        def __init__(s, *a, **k):
            pass

        def __enter__(s):
            return s

        def __exit__(s, *a):
            pass

        def add_task(s, *a, **k):
            return 0

        def update(s, *a, **k):
            pass

    class Elem:
        def __init__(s, q2):
            s.Q2 = q2

        def get_result(s):
            v = np.array([[1.0, np.nan, np.inf], [-np.inf, 2.0, 3.0]])
            return ESFResult(0.1, s.Q2, None, {(2, 0, 0, 0): (v, v.copy())})

    class Obs(StructureFunction):
        def __init__(s):
            s.esfs = [Elem(10.0), Elem(4.0)]
            s.cache = {}

        def drop_cache(s):
            s.cache = {}

    for name in ("F2_light", "FL_total", "g1_charm"):
        rep.cases += 1
        rr = rmod.Runner.__new__(rmod.Runner)
        rr.console = type("C", (), {"print": lambda self, *a, **k: None})()
        rr.observables = {name: Obs()}
        rr._observables = {"observables": {name: [None, None]}}
        rr._output = Output()
        rr._output["pids"] = [1, 2]
        try:
            with rebind((rmod.rich.progress, "Progress", Progress)):
                res = rr.get_result()
            bad = [(i, k) for i, pt in enumerate(res[name]) for k, vals in pt.orders.items() for arr in vals if not np.all(np.isfinite(arr))]
            kept = all(pt.orders[(2, 0, 0, 0)][0][0, 0] == 1.0 and pt.orders[(2, 0, 0, 0)][0][1, 2] == 3.0 for pt in res[name])
            ok, detail = not bad and kept and len(res[name]) == 2, f"non-finite entries handed out at (point, order): {bad}; finite entries kept: {kept}"
        except Exception as e:  # noqa
            ok, detail = False, f"{type(e).__name__}: {e}"
        rep.add(ob_eval(f"C16/Runner.get_result/post(the returned operator is the cleaned one: no NaN / inf)/{name}", ok, detail=detail, inputs={} if ok else {"observable": name, "raw entries": "[[1, nan, inf], [-inf, 2, 3]] at order (2,0,0,0), two points", "observed": detail}, replay={"confirmed": True, "python": "Runner.get_result() on a runner whose elements return the listed raw entries"}))


def sec_selfcheck(rep, seed):
    # canary: an internal lookup error must be classified as a refutation, an explicit one not
    def lookup_error():
        try:
            [1, 2].index(7)
        except ValueError as e:
            return e

    ok = classify(KeyError("s")).startswith("internal") and classify(ValueError("x outside")) == "explicit-rejection" and classify(ValueError("")).startswith("internal") and classify(None) == "ok" and classify(lookup_error()).startswith("internal")
    rep.add(Ob("C16/selfcheck/classification-canary", "canary", PROVED if ok else "error", "eval", 0, "KeyError -> internal, ValueError(msg) -> explicit, ValueError('') -> internal"))


def _real_run(th_over, ob_over):
    """One real Runner (real numpy, real eko, real card types) -> ('ok'|'explicit-rejection'|'internal:..', detail)."""
    import warnings

    from yadism import runner as rmod

    exc, out = None, None
    try:
        with warnings.catch_warnings():
            warnings.simplefilter("ignore")
            r = rmod.Runner(H.base_theory(**th_over), H.base_obs(**ob_over))
            out = r.get_result()
    except Exception as e:  # noqa
        exc = e
    v = classify(exc)
    if exc is None:
        bad = [
            name
            for name, pts in out.items()
            if isinstance(pts, list) and pts and hasattr(pts[0], "orders")
            for pt in pts
            for val, err in pt.orders.values()
            if not (np.isfinite(val).all() and np.isfinite(err).all())
        ]
        if bad:
            return "internal:non-finite", f"non-finite entries in {sorted(set(bad))}"
        return "ok", "finite operator"
    return v, f"{type(exc).__name__}: {exc}"


def sec_grid_history(rep):
    """'below the grid are always rejected' is a statement about the grid of THIS run: a sequence of real
    Runners in one interpreter, whose grids start at different points, each asked for a point inside the
    earlier grids but below its own (and then for a point inside its own) -- structure functions with and
    without TMC and a cross section.  Also the other way round: a point inside the later, wider grid is
    accepted although an earlier, narrower run rejected it."""
    lo = dict(PTO=0, PTODIS=0, FNS="ZM-VFNS", NfFF=4)
    wide, mid, narrow = [1e-4, 1e-3, 1e-2, 0.1, 0.4, 0.7, 1.0], [1e-2, 0.1, 0.3, 0.6, 1.0], [0.1, 0.3, 0.5, 0.7, 1.0]
    x_probe = {"wide": 3e-4, "mid": 3e-2, "narrow": 0.2}  # inside that grid, below every narrower one
    seqs = (("wide", "mid", "narrow"), ("narrow", "wide", "mid", "wide"))
    grids = {"wide": wide, "mid": mid, "narrow": narrow}
    order = ("wide", "mid", "narrow")
    for name, tmc, extra in (("F2_light", 0, {}), ("FL_total", 2, {}), ("F2_total", 1, {}), ("XSHERANC_total", 0, {"y": 0.4})):
        for seq in seqs:
            rep.cases += 1
            bad = []
            for step, g in enumerate(seq):
                for probe in order:
                    inside = x_probe[probe] >= min(grids[g])
                    v, detail = _real_run(dict(lo, TMC=tmc), dict(prDIS="NC", interpolation_xgrid=list(grids[g]), interpolation_polynomial_degree=2, observables={name: [dict({"x": x_probe[probe], "Q2": 20.0}, **extra)]}))
                    want = "ok" if inside else "explicit-rejection"
                    if v != want:
                        bad.append((step, g, x_probe[probe], want, f"{v}: {detail}"))
            rep.add(ob_eval(f"C16/grid-history/{name}/TMC={tmc}/runs on the grids {seq} in one interpreter: each accepts exactly the points inside its own grid", not bad, detail=str(bad[:3]), inputs={} if not bad else {"observable": name, "TMC": tmc, "grid sequence": str(seq), "step, grid, x, expected, observed": str(bad[0])}, replay={"confirmed": True, "python": "Runner(LO theory, interpolation_xgrid=<grid>, observables={name: [{x, Q2: 20}]}).get_result() for the grids in this order, same process"}))


def sec_real_types(rep):
    """Companion of the symbolic contracts on the REAL types of a run (numpy scalars out of np.sqrt /
    np.power, Python floats and ints out of a card): every structure function x TMC mode returns a
    finite operator or rejects explicitly at a valid point (LO, 6-node grid), and every cross-section
    kind rejects explicitly -- no ZeroDivisionError, no result -- kinematics outside 0<x<=1, Q2>0."""
    from . import c11

    rep.under_contract(__import__("yadism.esf.exs", fromlist=["x"]).EvaluatedCrossSection.__init__)
    lo = dict(PTO=0, PTODIS=0, FNS="ZM-VFNS", NfFF=4)
    for kind in H.SF_KINDS:
        for tmc in (1, 2, 3):
            for mp in (0.938, np.float64(0.5)):
                rep.cases += 1
                v, detail = _real_run(dict(lo, TMC=tmc, MP=mp), dict(prDIS="NC", observables={f"{kind}_total": [{"x": 0.3, "Q2": 10.0}, {"x": np.float64(0.1), "Q2": 4}]}))
                ok = not v.startswith("internal")
                rep.add(ob_eval(f"C16/real-types/{kind}_total/TMC={tmc}/MP:{type(mp).__name__}/finite-or-explicit", ok, detail=f"{v}: {detail}", inputs={} if ok else {"kind": kind, "TMC": tmc, "MP": repr(mp), "observed": detail}, replay={"confirmed": True, "python": f"Runner(base_theory(PTO=0, PTODIS=0, TMC={tmc}, MP={mp!r}), {{'{kind}_total': [...]}}).get_result()"}))
    # every scheme x NfFF through the REAL card translation, the real eko Atlas / nf_default and the real
    # Combiner at LO (threshold ratios different from 1 in the card): a finite operator or an explicit
    # rejection -- no error out of a dependency's precondition (unsorted matching scales, ...)
    for fns in H.SCHEMES:
        for nf_ff in (3, 4, 5, 6):
            for name in ("F2_total", "F2_light"):
                rep.cases += 1
                v, detail = _real_run(dict(lo, FNS=fns, NfFF=nf_ff, kcThr=1.2, kbThr=0.9, ktThr=1.1), dict(prDIS="EM", observables={name: [{"x": 0.3, "Q2": 3.0}, {"x": 0.1, "Q2": 50.0}, {"x": 0.3, "Q2": 1.0e5}]}))
                ok = not v.startswith("internal")
                rep.add(ob_eval(f"C16/real-types/{fns} NfFF={nf_ff}/{name} at three virtualities (LO, threshold ratios 1.2, 0.9, 1.1)/finite-or-explicit", ok, detail=f"{v}: {detail}", inputs={} if ok else {"FNS": fns, "NfFF": nf_ff, "observable": name, "observed": detail}, replay={"confirmed": True, "python": f"Runner(base_theory(PTO=0, FNS='{fns}', NfFF={nf_ff}, kcThr=1.2, kbThr=0.9, ktThr=1.1), ...).get_result()"}))
    # the two scale-variation switches are card entries like any other: every combination, at every
    # order that has logarithms, returns a finite operator (real NNLO run of a light observable)
    for ren in (True, False):
        for fact in (True, False):
            for pto in (1, 2):
                rep.cases += 1
                v, detail = _real_run(dict(PTO=pto, PTODIS=pto, FNS="ZM-VFNS", NfFF=4, RenScaleVar=ren, FactScaleVar=fact), dict(prDIS="EM", interpolation_xgrid=[1e-2, 0.1, 0.4, 0.7, 1.0], interpolation_polynomial_degree=2, observables={"F2_light": [{"x": 0.3, "Q2": 10.0}]}))
                ok = v == "ok"
                rep.add(ob_eval(f"C16/real-types/F2_light pto={pto}/RenScaleVar={ren},FactScaleVar={fact}/finite", ok, detail=f"{v}: {detail}", inputs={} if ok else {"PTO": pto, "RenScaleVar": ren, "FactScaleVar": fact, "observed": detail}, replay={"confirmed": True, "python": f"Runner(theory PTO={pto}, RenScaleVar={ren}, FactScaleVar={fact}, F2_light at x=0.3, Q2=10).get_result()"}))
    mw = H.base_theory()["MW"]
    invalid = {
        "x=0.0": {"x": 0.0, "Q2": 10.0}, "x=0": {"x": 0, "Q2": 10.0}, "x=np.float64(0)": {"x": np.float64(0.0), "Q2": 10.0}, "x=-0.1": {"x": -0.1, "Q2": 10.0},
        "x=1.5": {"x": 1.5, "Q2": 10.0}, "x-below-grid": {"x": min(H.GRID) / 10, "Q2": 10.0}, "Q2=0.0": {"x": 0.3, "Q2": 0.0}, "Q2=0": {"x": 0.3, "Q2": 0},
        "Q2=np.float64(0)": {"x": 0.3, "Q2": np.float64(0.0)}, "Q2=-1.0": {"x": 0.3, "Q2": -1.0}, "Q2=-MW^2": {"x": 0.3, "Q2": -(mw**2)},
    }
    for kind in c11.UNPOL + ("g5",):
        pr = "CC" if kind in ("XSHERACC", "XSCHORUSCC", "XSNUTEVCC", "XSNUTEVNU", "FW", "XSFPFCC") else "NC"
        proj = "neutrino" if pr == "CC" else "electron"
        for tmc in (0, 1):
            rep.cases += 1
            v, detail = _real_run(dict(lo, TMC=tmc), dict(prDIS=pr, ProjectileDIS=proj, observables={f"{kind}_total": [{"x": 0.3, "Q2": 10.0, "y": 0.5}]}))
            if kind == "g5":  # polarised CC is documented as unsupported: explicit rejection is the contract
                ok = not v.startswith("internal")
            else:
                ok = v == "ok"
            rep.add(ob_eval(f"C16/real-types/{kind}_total/TMC={tmc}/cover(valid point accepted)", ok, kind="cover", detail=f"{v}: {detail}"))
            for nm, kin in invalid.items():
                rep.cases += 1
                v, detail = _real_run(dict(lo, TMC=tmc), dict(prDIS=pr, ProjectileDIS=proj, observables={f"{kind}_total": [dict(kin, y=0.5)]}))
                ok = v == "explicit-rejection"
                rep.add(ob_eval(f"C16/real-types/{kind}_total/TMC={tmc}/{nm}/rejected-explicitly", ok, detail=f"{v}: {detail}", inputs={} if ok else dict(kind=kind, TMC=tmc, observed=detail, **{k: repr(x_) for k, x_ in kin.items()}), replay={"confirmed": True, "python": f"Runner(LO theory TMC={tmc}, {{'{kind}_total': [{dict(kin, y=0.5)!r}]}}).get_result()"}))


def sec_finite_tables(rep, tier):
    """A-ext made an obligation where it can be one: the tabulated N3LO massive coefficients are finite
    everywhere (all B-spline coefficients and knots finite).  A NaN there does not surface as NaN -- the
    runner's clean-up turns the whole order into zeros -- so 'a finite result' would be a silently
    degraded one (C07 contract, re-discharged here)."""
    from . import c07

    c07.sec_finite_kernels(rep, tier)


def sec_runner_totality(rep):
    """Runner.get_result returns for observables with 0, 1, 2, 3 points in every Q2 ordering (ties
    included) -- no internal index error for an empty or single-point observable: the result-placement
    contract of C14 (symbolic Q2), re-discharged here for its totality half."""
    from . import c14

    c14.sec_runner(rep)


def sec_sv_history(rep):
    """No internal lookup error through the scale-variation manager shared by the points of a run:
    after any history of flavour numbers every (label, nf) the tables read exists (cache invariant
    of compute_raw, contract shared with C05/C14)."""
    from . import c05

    c05.sec_compute_raw(rep)


def run(rep, tier, seed, only=None):
    rep.assume(
        "dispatch lattice: kinds x heavyness x process x scheme x NfFF x nf x (PTO, PTO_evol); projectile collapsed to the CC rest parity (electron/positron) in the quick tier because the dispatch provably reads nothing else of it (C07 read-set); TMC and cross-section kinds are separate factors (TMC dispatch happens in sf.get_esf, XS kinds in exs: C11)",
        "A-ext: LeProHQ / adani / splines return finite numbers or NaN (NaN is what replace_nans_with_0 zeroes)",
        "in-repo formulas finite on their domain: C03 definedness obligations (run under C03)",
        "explicit rejection := ValueError / NotImplementedError / RuntimeError with a non-empty message",
    )
    for nm, f in (("dispatch", lambda r: sec_dispatch(r, tier)), ("tmc", sec_tmc_dispatch), ("kinematics", sec_kinematics), ("nans", sec_nans), ("svhistory", sec_sv_history), ("runnertotality", sec_runner_totality), ("realtypes", sec_real_types), ("gridhistory", sec_grid_history), ("names", H.observable_names_contract), ("finitetables", lambda r: sec_finite_tables(r, tier))):
        if only and only not in nm:
            continue
        rep.add(guarded(f"C16/{nm}", lambda f=f: (f(rep), [])[1]))
    if not only and rep.replay_target is None:
        rep.add(guarded("C16/selfcheck", lambda: (sec_selfcheck(rep, seed), [])[1]))
    rep.extra["rule"] = "cases = cells of the documented configuration lattice (enumerated), kinematics symbolic; TMC modes x kinds; observable keys"
