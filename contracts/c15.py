"""C15 -- serialised output round-trips losslessly.

Functions under contract: ESFResult.{get_raw, from_document}, EXSResult.{get_raw, from_document},
Output.{get_raw, dump_yaml, load_yaml, dump_tar, load_tar}.

The I/O libraries are replaced by *assumed inverse-pair contracts* (A-io): yaml (plain
dict/list/str/int/float/bool/None survive safe_load(dump(.)) unchanged; tuples become lists
under safe_dump and are NOT loadable after the unsafe dump; numpy arrays are not yaml-safe),
npz (arrays round-trip exactly), tar + tempfile + pathlib (an in-memory file system).  The
restructuring code in between runs for real on symbolic operator entries and kinematics, and
the obligation is that it is the identity on the abstract view of an Output.
"""
from __future__ import annotations

import copy
import io
import os
import tempfile

import numpy as np

from pvc.core import ob_eval, guarded, Ob, PROVED, REFUTED, UNDECIDED
from pvc.stubs import rebind, NumpyShim
from pvc.sym import R

from . import harness as H

LEVEL = "proof"


# ------------------------------------------------------------------ A-io contract stubs
class NotYamlSafe(TypeError):
    pass


def plain(obj, safe_dumper, path="$"):
    """Deep copy of what a yaml dump/safe_load cycle returns, or NotYamlSafe."""
    if obj is None or isinstance(obj, (bool, str)):
        return obj
    if isinstance(obj, (np.floating, np.integer, np.bool_, np.ndarray)):
        raise NotYamlSafe(f"{path}: numpy object {type(obj).__name__} is not representable as plain yaml")
    if isinstance(obj, int):
        return obj
    if isinstance(obj, (float, R)):
        return obj
    if isinstance(obj, dict):
        return {plain(k, safe_dumper, path + ".key"): plain(v, safe_dumper, f"{path}.{k}") for k, v in obj.items()}
    if isinstance(obj, list):
        return [plain(v, safe_dumper, f"{path}[{i}]") for i, v in enumerate(obj)]
    if isinstance(obj, tuple):
        if safe_dumper:
            return [plain(v, safe_dumper, f"{path}[{i}]") for i, v in enumerate(obj)]
        raise NotYamlSafe(f"{path}: tuple is dumped as !!python/tuple by yaml.dump and rejected by safe_load")
    raise NotYamlSafe(f"{path}: {type(obj).__name__} is not plain yaml")


class YamlStub:
    def __init__(self):
        self.docs = {}

    def _store(self, obj, safe):
        tok = f"<yaml-doc-{len(self.docs)}>"
        self.docs[tok] = plain(obj, safe)
        return tok

    def dump(self, obj, stream=None, **kw):
        tok = self._store(obj, False)
        if stream is None:
            return tok
        stream.write(tok)
        return None

    def safe_dump(self, obj, stream=None, **kw):
        tok = self._store(obj, True)
        if stream is None:
            return tok
        stream.write(tok)
        return None

    def safe_load(self, stream):
        tok = stream if isinstance(stream, str) else stream.read()
        return copy.deepcopy(self.docs[tok.strip()])


class FS:
    def __init__(self):
        self.files = {}
        self.dirs = set()
        self.n = 0


class FakePath:
    def __init__(self, fs, p):
        self.fs, self.p = fs, str(p.p if isinstance(p, FakePath) else p)

    def __truediv__(self, o):
        return FakePath(self.fs, self.p.rstrip("/") + "/" + str(o))

    def __str__(self):
        return self.p

    __fspath__ = __str__

    @property
    def suffix(self):
        b = self.p.rsplit("/", 1)[-1]
        return "." + b.rsplit(".", 1)[1] if "." in b else ""

    @property
    def stem(self):
        b = self.p.rsplit("/", 1)[-1]
        return b.rsplit(".", 1)[0] if "." in b else b

    def write_text(self, text, encoding=None):
        self.fs.files[self.p] = text

    def read_text(self, encoding=None):
        return self.fs.files[self.p]

    def mkdir(self, *a, **k):
        self.fs.dirs.add(self.p)

    def glob(self, pat):
        assert pat == "*"
        pre = self.p.rstrip("/") + "/"
        kids = {pre + k[len(pre):].split("/", 1)[0] for k in list(self.fs.files) + list(self.fs.dirs) if k.startswith(pre)}
        return (FakePath(self.fs, k) for k in sorted(kids))


def io_binds(outmod, fs, yml, sy):
    class PathlibStub:
        @staticmethod
        def Path(p):
            return FakePath(fs, p)

    class TmpDir:
        def __enter__(s):
            fs.n += 1
            s.name = f"/tmp/fake{fs.n}"
            fs.dirs.add(s.name)
            return s.name

        def __exit__(s, *a):
            for k in [k for k in fs.files if k.startswith(s.name + "/")]:
                del fs.files[k]

    class TempfileStub:
        TemporaryDirectory = TmpDir

    class Tar:
        def __init__(s, path, mode):
            s.path, s.mode = str(path), mode

        def __enter__(s):
            return s

        def __exit__(s, *a):
            pass

        def add(s, d, arcname=None):
            d = str(d).rstrip("/") + "/"
            fs.files["tar:" + s.path] = {arcname + "/" + k[len(d):]: v for k, v in fs.files.items() if isinstance(k, str) and k.startswith(d)}

        def extractall(s, d):
            d = str(d).rstrip("/") + "/"
            for k, v in fs.files["tar:" + s.path].items():
                fs.files[d + k] = v

    class TarfileStub:
        @staticmethod
        def open(path, mode="r"):
            return Tar(path, mode)

    class NP(NumpyShim):
        def savez_compressed(s, path, **arrays):
            fs.files[str(path) + ".npz"] = {k: np.array(v, dtype=object) if not sy.is_numeric else np.array(v) for k, v in arrays.items()}

        def load(s, path):
            return fs.files[str(path)]

        def array(s, obj, dtype=None, **kw):
            if isinstance(obj, (list, tuple)) and obj and _has_R(obj):
                return np.array(obj, dtype=object)
            return np.array(obj) if dtype is None else np.array(obj, dtype=dtype)

    return [(outmod, "pathlib", PathlibStub), (outmod, "tempfile", TempfileStub), (outmod, "tarfile", TarfileStub), (outmod, "yaml", yml), (outmod, "np", NP())]


def _has_R(x):
    if isinstance(x, R):
        return True
    if isinstance(x, (list, tuple)):
        return any(_has_R(v) for v in x)
    if isinstance(x, np.ndarray) and x.dtype == object:
        return any(isinstance(v, R) for v in x.flat)
    return False


# ------------------------------------------------------------------ building outputs and views
def mk_result(sy, cls, tag, i, keys, npid=2, ng=2, nf=4):
    from yadism.esf.result import ESFResult, EXSResult

    orders = {}
    for k in keys:
        v = np.empty((npid, ng), dtype=object)
        e = np.empty((npid, ng), dtype=object)
        for a in range(npid):
            for j in range(ng):
                v[a, j], e[a, j] = sy.U("v", tag, i, str(k), a, j), sy.U("e", tag, i, str(k), a, j)
        orders[k] = (v, e) if not sy.is_numeric else (v.astype(float), e.astype(float))
    x, q2, y = sy.U("x", tag, i), sy.U("Q2", tag, i), sy.U("y", tag, i)
    return ESFResult(x, q2, nf, orders) if cls == "ESF" else EXSResult(x, q2, y, nf, orders)


def mk_output(sy, shape):
    from yadism.output import Output

    out = Output()
    out["pids"] = (21, 1)  # the runner stores a tuple (br.flavor_basis_pids)
    out["xgrid"] = {"grid": [0.1, 1.0], "log": True}
    out["polynomial_degree"] = 3
    out["is_log"] = True
    out["projectilePID"] = -11
    for name, (cls, n, keys, nf) in shape.items():
        out[name] = None if n is None else [mk_result(sy, cls, name, i, keys, nf=nf) for i in range(n)]
    out.theory = {"PTO": 1, "FNS": "FFNS", "mc": 1.51, "CKM": "1 0 0 0 1 0 0 0 1"}
    out.observables = {"prDIS": "NC", "observables": {k: [] for k in shape}, "TargetDIS": {"Z": 1.0, "A": 2.0}}
    return out


def view_triples(prefix, a, b):
    """Equality of the abstract views of two Outputs."""
    from yadism.esf.result import ESFResult, EXSResult
    from yadism import observable_name as on

    out = [(f"{prefix}/keys", sorted(a.keys()), sorted(b.keys())), (f"{prefix}/theory", a.theory, b.theory), (f"{prefix}/observables", a.observables, b.observables)]
    for k in a:
        if k not in b:
            continue
        if on.ObservableName.is_valid(k) and a[k] is not None:
            out.append((f"{prefix}/{k}/is-list-of-results", b[k] is not None and all(isinstance(r, ESFResult) for r in b[k]), True))
            if b[k] is None:
                continue
            out.append((f"{prefix}/{k}/n-points", len(b[k]), len(a[k])))
            for i, (ra, rb) in enumerate(zip(a[k], b[k])):
                out.append((f"{prefix}/{k}[{i}]/class", type(rb).__name__, type(ra).__name__))
                out.append((f"{prefix}/{k}[{i}]/x", rb.x, ra.x))
                out.append((f"{prefix}/{k}[{i}]/Q2", rb.Q2, ra.Q2))
                out.append((f"{prefix}/{k}[{i}]/nf", rb.nf, ra.nf))
                if isinstance(ra, EXSResult):
                    out.append((f"{prefix}/{k}[{i}]/y", getattr(rb, "y", None), ra.y))
                out.append((f"{prefix}/{k}[{i}]/order-keys", sorted(rb.orders), sorted(ra.orders)))
                out.append((f"{prefix}/{k}[{i}]/order-keys-sequence", list(rb.orders), list(ra.orders)))
                out.append((f"{prefix}/{k}[{i}]/order-keys-are-tuples", all(isinstance(o, tuple) for o in rb.orders), True))
                for o in ra.orders:
                    if o not in rb.orders:
                        continue
                    for w, nm in ((0, "values"), (1, "errors")):
                        A, B = np.asarray(ra.orders[o][w]), np.asarray(rb.orders[o][w])
                        out.append((f"{prefix}/{k}[{i}]{o}/{nm}/shape", B.shape, A.shape))
                        if A.shape == B.shape:
                            for idx in np.ndindex(*A.shape):
                                out.append((f"{prefix}/{k}[{i}]{o}/{nm}{list(idx)}", B[idx], A[idx]))
        elif on.ObservableName.is_valid(k):
            out.append((f"{prefix}/{k}/None-observable", b[k], None))
        else:
            va, vb = a[k], b[k]
            if isinstance(va, dict):
                out.append((f"{prefix}/{k}", {kk: list(np.asarray(v).tolist()) if isinstance(v, (list, tuple, np.ndarray)) else v for kk, v in vb.items()}, {kk: list(v) if isinstance(v, (list, tuple)) else v for kk, v in va.items()}))
            elif isinstance(va, (list, tuple, np.ndarray)):
                out.append((f"{prefix}/{k}", list(np.asarray(vb).tolist()), list(va)))
            else:
                out.append((f"{prefix}/{k}", vb, va))
    return out


SHAPES = {
    "ESF-1pt": {"F2_total": ("ESF", 1, [(0, 0, 0, 0)], 4)},
    "ESF-3pts-3orders": {"F2_charm": ("ESF", 3, [(0, 0, 0, 0), (1, 0, 0, 0), (1, 0, 0, 1)], None)},
    "EXS-2pts": {"XSHERANC_total": ("EXS", 2, [(0, 0, 0, 0), (2, 0, 1, 1)], 5)},
    # order keys in the (unsorted) insertion order of scale_variations.build_orders
    "ESF-build_orders-order": {"F2_light": ("ESF", 2, [(0, 0, 0, 0), (1, 0, 0, 0), (1, 0, 0, 1), (2, 0, 0, 0), (2, 0, 1, 0), (2, 0, 0, 1), (2, 0, 1, 1), (2, 0, 0, 2), (2, 0, 1, 2)], None)},
    "mixed+None": {"F2_total": ("ESF", 2, [(0, 0, 0, 0), (1, 0, 0, 0)], None), "XSCHORUSCC_light": ("EXS", 1, [(0, 0, 0, 0)], 3), "FL_bottom": (None, None, None, None)},
    "empty-observable": {"F2_total": ("ESF", 0, [(0, 0, 0, 0)], 4), "F3_total": ("ESF", 1, [(0, 0, 0, 0)], 4)},
    "only-None": {"g1_total": (None, None, None, None)},
    # names as a card may spell them (no heavyness suffix; both spellings side by side): the runner keys
    # its output by the name as given, so that name is what must come back
    "short-names": {"F2": ("ESF", 1, [(0, 0, 0, 0)], None), "F2_total": ("ESF", 2, [(0, 0, 0, 0), (1, 0, 0, 0)], 4), "XSHERANC": ("EXS", 1, [(0, 0, 0, 0)], None), "FL": (None, None, None, None), "g1": ("ESF", 0, [(0, 0, 0, 0)], 4)},
}


def _all_kind_shapes():
    """every cross-section kind (incl. FW, F1, g5, which carry no XS prefix) and every structure
    function kind once: the result class must survive by what was stored, not by the name."""
    from yadism import observable_name as on

    SHAPES["all-xs-kinds"] = {f"{k}_total": ("EXS", 1, [(0, 0, 0, 0)], None) for k in on.xs}
    SHAPES["all-sf-kinds"] = {f"{k}_light": ("ESF", 1, [(0, 0, 0, 0)], None) for k in on.sfs}


def sec_results(rep):
    """from_document(get_raw(r)) == r for ESFResult / EXSResult (symbolic entries, float()/int() shimmed)."""
    from yadism.esf import result as resmod
    from yadism.esf.result import ESFResult, EXSResult

    rep.under_contract(ESFResult.get_raw, ESFResult.from_document, EXSResult.get_raw, EXSResult.from_document)
    sy = H.Sy()
    for cls in ("ESF", "EXS"):
        for nkeys in (0, 1, 3):
            for nf in (None, 4):
                rep.cases += 1

                def case(sy, cls=cls, nkeys=nkeys, nf=nf):
                    keys = [(0, 0, 0, 0), (1, 0, 0, 1), (3, 1, 2, 0)][:nkeys]
                    r = mk_result(sy, cls, "r", 0, keys, npid=2, ng=3, nf=nf)
                    binds = [] if sy.is_numeric else [(resmod, "np", NumpyShim()), (resmod, "float", lambda v: v if isinstance(v, R) else float(v))]
                    with rebind(*binds):
                        raw = r.get_raw()
                        plain(raw, True)  # what get_raw returns is yaml-safe
                        back = type(r).from_document(copy.deepcopy(raw))
                        raw2 = back.get_raw()
                    from yadism.output import Output

                    a, b = Output(), Output()
                    a["F2_total"], b["F2_total"] = [r], [back]
                    out = view_triples("result", a, b)
                    out.append(("get_raw is idempotent through a cycle", repr(raw2), repr(raw)))
                    out.append(("raw order keys are lists", all(isinstance(o["order"], list) for o in raw["orders"]), True))
                    return out

                rep.check(f"C15/{cls}Result/from_document(get_raw(r)) = r/orders={nkeys}/nf={nf}", case, sy)

    # number types: whatever real number the result holds (numpy scalars out of the kinematics loop,
    # ints from a card), get_raw hands builtin float/int/None to the yaml-safe dumper -- for every nf
    kin_types = {"float": float, "int": int, "np.float64": np.float64, "np.float32": np.float32, "np.int64": np.int64}
    nf_vals = {"None": None, "int": 4, "np.int64": np.int64(4), "np.int32": np.int32(5)}
    for cls in ("ESF", "EXS"):
        for kt, kf in kin_types.items():
            for nt, nfv in nf_vals.items():
                rep.cases += 1
                try:
                    args = (kf(2), kf(3)) + ((kf(1),) if cls == "EXS" else ()) + (nfv,)
                    r = (ESFResult if cls == "ESF" else EXSResult)(*args)
                    r.orders[(1, 0, 0, 1)] = (np.array([[0.5, 1.5]]), np.array([[0.0, 0.25]]))
                    raw = r.get_raw()
                    plain(raw, True)
                    fields = ["x", "Q2"] + (["y"] if cls == "EXS" else [])
                    types_ok = all(type(raw[f]) is float for f in fields) and (raw["nf"] is None if nfv is None else type(raw["nf"]) is int)
                    vals_ok = raw["x"] == 2.0 and raw["Q2"] == 3.0 and (nfv is None or raw["nf"] == int(nfv))
                    ok, detail = types_ok and vals_ok, str({f: type(raw[f]).__name__ for f in fields + ["nf"]})
                except Exception as e:  # noqa
                    ok, detail = False, f"{type(e).__name__}: {e}"
                rep.add(ob_eval(f"C15/{cls}Result/get_raw yields builtin float/int/None/kinematics:{kt}/nf:{nt}", ok, detail=detail, inputs={} if ok else {"class": cls, "kinematics_type": kt, "nf": repr(nfv), "observed": detail}))


def roundtrip(sy, fmt, shape, cycles=1):
    from yadism import output as outmod
    from yadism.esf import result as resmod

    fs, yml = FS(), YamlStub()
    src = mk_output(sy, shape)
    binds = io_binds(outmod, fs, yml, sy) + ([] if sy.is_numeric else [(resmod, "np", NumpyShim()), (resmod, "float", lambda v: v if isinstance(v, R) else float(v))])
    cur = src
    seq = {"tar": ["tar"] * cycles, "yaml": ["yaml"] * cycles, "tar>yaml": ["tar", "yaml"], "yaml>tar": ["yaml", "tar"], "tar>yaml>tar": ["tar", "yaml", "tar"]}[fmt]
    with rebind(*binds):
        for c, fmt in enumerate(seq):
            if fmt == "tar":
                cur.dump_tar(f"/out/run{c}.tar")
                cur = outmod.Output.load_tar(f"/out/run{c}.tar")
            else:
                s = io.StringIO()
                cur.dump_yaml(s)
                s.seek(0)
                cur = outmod.Output.load_yaml(s)
    return src, cur


def sec_roundtrip(rep):
    from yadism.output import Output

    _all_kind_shapes()

    rep.under_contract(Output.get_raw, Output.dump_yaml, Output.load_yaml, Output.dump_tar, Output.load_tar)
    sy = H.Sy()
    for fmt in ("tar", "yaml", "tar>yaml", "yaml>tar", "tar>yaml>tar"):
        for sname, shape in SHAPES.items():
            for cycles in (1, 2) if ">" not in fmt else (1,):
                rep.cases += 1

                def case(sy, fmt=fmt, shape=shape, cycles=cycles):
                    src, back = roundtrip(sy, fmt, shape, cycles)
                    return view_triples("view", src, back)

                rep.check(f"C15/{fmt}/load(dump(o)) = o/{sname}/cycles={cycles}", case, sy)
    # wrong suffix is rejected explicitly
    try:
        mk_output(sy.numeric({}), SHAPES["ESF-1pt"]).dump_tar("/tmp/x.tgz")
        ok = False
    except ValueError:
        ok = True
    rep.add(ob_eval("C15/dump_tar/wrong-suffix-raises-ValueError", ok))
    rep.sample({"roundtrip": "Output with F2_total (2 points), XSCHORUSCC_light (1 point, EXS), FL_bottom=None: load_tar(dump_tar(o)) has identical keys, cards, kinematics, order keys (tuples), and entry-wise identical symbolic values/errors; yaml/npz/tar/tempfile/pathlib replaced by inverse-pair contract stubs"})


def sec_same_path(rep):
    """History: a path written twice is read back as what was written LAST (no loader keeps state
    keyed by the file name).  dump A -> P, load; dump B -> P, load: second load == B, first == A."""
    from yadism import output as outmod
    from yadism.esf import result as resmod

    rep.under_contract(outmod.Output.dump_yaml_to_file, outmod.Output.load_yaml_from_file)
    sy = H.Sy()
    for fmt in ("tar", "yaml-file"):
        rep.cases += 1

        def case(sy, fmt=fmt):
            fs, yml = FS(), YamlStub()

            class FakeFile(io.StringIO):
                def __init__(s, path, mode="r", **kw):
                    s.path, s.mode = str(path), mode
                    super().__init__(fs.files.get("file:" + s.path, "") if "r" in mode else "")

                def close(s):
                    if "w" in s.mode:
                        fs.files["file:" + s.path] = s.getvalue()
                    super().close()

                def __exit__(s, *a):
                    s.close()

            A, B = mk_output(sy, SHAPES["ESF-1pt"]), mk_output(sy, SHAPES["mixed+None"])
            binds = io_binds(outmod, fs, yml, sy) + [(outmod, "open", FakeFile)] + ([] if sy.is_numeric else [(resmod, "np", NumpyShim()), (resmod, "float", lambda v: v if isinstance(v, R) else float(v))])
            with rebind(*binds):
                if fmt == "tar":
                    A.dump_tar("/out/same.tar")
                    la = outmod.Output.load_tar("/out/same.tar")
                    B.dump_tar("/out/same.tar")
                    lb = outmod.Output.load_tar("/out/same.tar")
                else:
                    A.dump_yaml_to_file("/out/same.yaml")
                    la = outmod.Output.load_yaml_from_file("/out/same.yaml")
                    B.dump_yaml_to_file("/out/same.yaml")
                    lb = outmod.Output.load_yaml_from_file("/out/same.yaml")
            return view_triples("first", A, la) + view_triples("second", B, lb) + [("distinct objects", la is lb, False)]

        rep.check(f"C15/{fmt}/same path written twice is read back as written last", case, sy)


def sec_permuted_order_keys(rep):
    """Points of one observable that hold the same perturbative orders in different insertion sequences
    (what ESFResult arithmetic produces: a + b vs b + a): every format either refuses the object with an
    explicit error or returns, for every point, every order key with ITS values and errors.  Real yaml /
    numpy / tarfile, floats."""
    from yadism.output import Output

    sy = H.Sy().numeric({})
    keys = [(0, 0, 0, 0), (1, 0, 0, 0), (1, 0, 0, 1), (2, 0, 1, 0)]
    d = tempfile.mkdtemp(prefix="verif_c15p_")
    try:
        for fmt in ("tar", "yaml"):
            for which, perm in (("second point reversed", [3, 2, 1, 0]), ("second point rotated", [1, 2, 3, 0]), ("third point swapped", None)):
                rep.cases += 1
                src = mk_output(sy, {"F2_light": ("ESF", 3, keys, None)})
                pts = src["F2_light"]
                tgt = 1 if perm else 2
                order = [keys[i] for i in (perm or [0, 2, 1, 3])]
                pts[tgt].orders = {k: pts[tgt].orders[k] for k in order}
                try:
                    if fmt == "tar":
                        pth = os.path.join(d, f"p{tgt}.tar")
                        src.dump_tar(pth)
                        back = Output.load_tar(pth)
                    else:
                        s_ = io.StringIO()
                        src.dump_yaml(s_)
                        s_.seek(0)
                        back = Output.load_yaml(s_)
                    bad = [t for t in view_triples("v", src, back) if not _eq(t[1], t[2]) and "order-keys-sequence" not in t[0]]
                    ok, detail = not bad, "lossless" if not bad else str(bad[:2])
                except (AssertionError, ValueError, TypeError, KeyError) as e:
                    ok, detail = isinstance(e, (AssertionError, ValueError)), f"refused: {type(e).__name__}: {e}"
                except Exception as e:  # noqa
                    ok, detail = False, f"{type(e).__name__}: {e}"
                rep.add(ob_eval(f"C15/permuted-order-keys/{fmt}/{which}: refused explicitly, or every order key keeps its values and errors", ok, detail=detail, inputs={} if ok else {"format": fmt, "key sequence of the odd point": str(order), "key sequence of the others": str(keys), "observed": detail}))
    finally:
        import shutil

        shutil.rmtree(d, ignore_errors=True)


def sec_real_io(rep):
    """Bounded stand-in for A-io: the same shapes through the REAL yaml / numpy / tarfile with floats."""
    from yadism.output import Output

    sy = H.Sy().numeric({})
    d = tempfile.mkdtemp(prefix="verif_c15_")
    try:
        for fmt in ("tar", "yaml", "tar>yaml>tar", "yaml>yaml"):
            for sname, shape in SHAPES.items():
                src = mk_output(sy, shape)
                try:
                    back = src
                    for c, f1 in enumerate(fmt.split(">")):
                        if f1 == "tar":
                            pth = os.path.join(d, f"{sname}{c}.tar")
                            back.dump_tar(pth)
                            back = Output.load_tar(pth)
                        else:
                            s = io.StringIO()
                            back.dump_yaml(s)
                            s.seek(0)
                            back = Output.load_yaml(s)
                    bad = [t for t in view_triples("v", src, back) if not _eq(t[1], t[2])]
                    ok, detail = not bad, str(bad[:2])
                except Exception as e:  # noqa
                    ok, detail = False, f"{type(e).__name__}: {e}"
                o = ob_eval(f"C15/real-io/{fmt}/{sname}", ok, kind="bounded", detail=detail or "bit-exact round trip through the real libraries")
                o.bounded = True
                rep.add(o)
    finally:
        import shutil

        shutil.rmtree(d, ignore_errors=True)


def _eq(a, b):
    try:
        if isinstance(a, float) or isinstance(b, float):
            return float(a) == float(b)
        return bool(a == b)
    except Exception:  # noqa
        return False


def sec_selfcheck(rep, seed):
    """Canary: a loader that pairs kinematics with operators in reversed order must be refuted."""
    from pvc.core import Report
    from yadism.output import Output

    sy = H.Sy()
    scratch = Report(rep.pid, rep.tier, seed)

    def case(sy):
        src = mk_output(sy, SHAPES["ESF-3pts-3orders"])
        back = copy.copy(src)
        back["F2_charm"] = list(reversed(src["F2_charm"]))
        back.theory, back.observables = src.theory, src.observables
        return view_triples("view", src, back)

    scratch.check("canary", case, sy)
    bad = [o for o in scratch.obs if o.status == REFUTED]
    rep.add(Ob("C15/selfcheck/canary-permuted-points-refuted", "canary", PROVED if bad else "error", "ratfun", 0, f"{len(bad)} refuted"))
    ok = False
    try:
        plain({"a": np.float64(1.0)}, True)
    except NotYamlSafe:
        ok = True
    rep.add(Ob("C15/selfcheck/yaml-contract-rejects-numpy-scalars", "canary", PROVED if ok else "error", "eval", 0, ""))


def run(rep, tier, seed, only=None):
    rep.assume(
        "A-io: yaml round-trips plain scalars/lists/dicts (floats exactly, repr-based), npz round-trips float64 arrays bit-exactly, tar/tempfile/pathlib behave as a file system -- replaced by in-memory inverse-pair stubs; instance-checked against the real libraries (bounded stand-in, not counted)",
        "shapes: 0..3 kinematic points, 0..3 orders, ESF / EXS / None observables and their mixes (values symbolic) -- bounded in shape, unbounded in values",
        "float()/int() in ESFResult.get_raw are the identity on reals (shimmed for symbols)",
    )
    rep.stub("yaml, numpy savez/load, tarfile, tempfile, pathlib -> in-memory contract stubs", "result.float -> identity on symbols")
    for nm, f in (("results", sec_results), ("roundtrip", sec_roundtrip), ("samepath", sec_same_path), ("names", H.observable_names_contract), ("permuted", sec_permuted_order_keys), ("real", sec_real_io)):
        if only and only not in nm:
            continue
        rep.add(guarded(f"C15/{nm}", lambda f=f: (f(rep), [])[1]))
    if not only and rep.replay_target is None:
        rep.add(guarded("C15/selfcheck", lambda: (sec_selfcheck(rep, seed), [])[1]))
    rep.extra["rule"] = "cases = format x observable mix (ESF/EXS/None/empty) x number of points x order sets x repeated cycles; values symbolic"
