"""C05 -- scale-variation terms satisfy the renormalisation-group equations.

Functions under contract: esf.scale_variations.{build_orders, ScaleVariations.{__init__,
compute_raw (cache branch), fact_matrices, ren_coeffs, apply_common_scale_variations,
apply_raw_diff_scale_variations, apply_diff_scale_variations}}, splitting_functions.{
sector_mapping, joint_lo, c110, c211, c220, c220ns, empty_gluon}, and the scale-variation part
of EvaluatedStructureFunction.compute_local (incl. the intrinsic branch).

Method.  The REAL functions run on a one-node "grid" whose x-space operators are formal atoms
(the code touches them only through + - scalar* and matrix @ vector, never operator x operator,
so an identity of the linear forms in these atoms holds for every grid size), with symbolic
beta0, beta1, symbolic parton weights w[pid], symbolic raw coefficients c_o and eko's concrete
flavour projectors.  The produced tensors are inserted into the apply_pdf contraction
    T(tR,tF) = sum_{k,i,j} a(muR)^k lnR^i lnF^j O_{k,i,j} . f(muF),  lnR = -tR, lnF = -tF,
with the truncated running  a(t) = a0 - b0 t a0^2 + (b0^2 t^2 - b1 t) a0^3  and the truncated
DGLAP evolution  f(t) = [1 + a0 t E0 + a0^2 (t E1 + t^2/2 (E0^2 - b0 E0))] f(Q),
E_k = sum_sectors Pi_sector (x) P^(k)_sector (eko's ad_projectors), and every coefficient of
a0^k tR^i tF^j that the RGEs require to cancel is shown to be the zero polynomial.
"""
from __future__ import annotations

import itertools
from fractions import Fraction as Fr

import numpy as np

from pvc.core import ob_eval, ob_identity, guarded, Ob, PROVED, REFUTED, UNDECIDED
from pvc.ratfun import Normaliser
from pvc.stubs import rebind, NumpyShim
from pvc.sym import R, uf

from . import harness as H

LEVEL = "proof"
TOL = 1e-10  # eko's projectors enter as doubles (1/8, 1/6 ...): exact up to rationalisation


class BetaStub:
    """eko.beta contract stub: symbolic beta0(nf), beta1(nf); records the nf it is asked for."""

    def __init__(self, sy):
        self.sy = sy
        self.nfs = []

    def beta_qcd_as2(self, nf):
        self.nfs.append(nf)
        return self.sy.b0

    def beta_qcd_as3(self, nf):
        self.nfs.append(nf)
        return self.sy.b1


def op_atom(sy, label):
    return sy.U("M", label)


def mk_manager(sy, pto, ren, fact, nf, labels_nf=None):
    """Real ScaleVariations with its operator cache pre-filled by 1x1 formal operators."""
    from yadism.esf import scale_variations as sv
    from yadism.coefficient_functions import splitting_functions as split

    m = sv.ScaleVariations(order=pto, interpolator=None, activate_ren=ren, activate_fact=fact)
    for table in split.raw_labels:
        for lab in table:
            a = np.empty((1, 1), dtype=object)
            a[0, 0] = op_atom(sy, lab)
            m.operators[(lab, nf)] = a
    return m


def binds(sy, beta):
    from yadism.esf import scale_variations as sv
    from yadism.coefficient_functions import splitting_functions as split

    shim = NumpyShim()
    return [(sv, "beta", beta), (split, "beta", beta), (split, "np", shim), (sv, "np", shim)]


# ---------------------------------------------------------------------------------------
def sec_tables(rep):
    from yadism.esf import scale_variations as sv
    from yadism.coefficient_functions import splitting_functions as split
    from eko import basis_rotation as br

    rep.under_contract(sv.build_orders, sv.ScaleVariations.ren_coeffs, sv.ScaleVariations.fact_matrices, split.sector_mapping, split.joint_lo, split.c110, split.c211, split.c220, split.c220ns, split.empty_gluon)
    sy = H.Sy(extra="b0 b1")
    # build_orders: all (k,0,i,j) with j <= k, i < max(k,1)
    for pto in range(4):
        rep.cases += 1
        exp = sorted((k, 0, i, j) for k in range(pto + 1) for j in range(k + 1) for i in range(max(k, 1)))
        rep.add(ob_eval(f"C05/build_orders/post/pto={pto}", sorted(sv.build_orders(pto)) == exp and len(set(sv.build_orders(pto))) == len(exp), detail=f"{len(exp)} keys"))
    # ren_coeffs: the closed table truncated by order
    for pto in range(4):
        for nf in (3, 4, 5, 6):
            rep.cases += 1

            def case(sy, pto=pto, nf=nf):
                beta = BetaStub(sy)
                with rebind(*binds(sy, beta)):
                    m = mk_manager(sy, pto, True, True, nf)
                    got = m.ren_coeffs(nf)
                full = {(2, 1, 1): sy.b0, (3, 1, 2): 2 * sy.b0, (3, 1, 1): sy.b1, (3, 2, 1): sy.b0**2}
                exp = {k: v for k, v in full.items() if k[0] <= pto}
                out = [("keys", sorted(got), sorted(exp)), ("beta asked for this nf only", set(beta.nfs) <= {nf}, True)]
                out += [(str(k), got[k], exp[k]) for k in exp if k in got]
                return out

            rep.check(f"C05/ren_coeffs/post/pto={pto}/nf={nf}", case, sy)
    # sector_mapping: documented c^(1,1), c^(2,1), c^(2,2) in every sector
    nsp, nsm, nsv = br.non_singlet_pids_map["ns+"], br.non_singlet_pids_map["ns-"], br.non_singlet_pids_map["nsV"]
    for pto in range(4):
        for nf in (3, 4, 5, 6):
            rep.cases += 1

            def case(sy, pto=pto, nf=nf):
                beta = BetaStub(sy)
                M = lambda lab: op_atom(sy, lab)
                with rebind(*binds(sy, beta)):
                    m = mk_manager(sy, pto, True, True, nf)
                    before = {k: np.array(v, dtype=object).copy() for k, v in m.operators.items()}
                    smap1 = split.sector_mapping(pto, m.operators, nf)
                    # frame: the operator cache is shared by every kernel, point and observable of a
                    # run -- building the tables must not write into it; a second request is answered alike
                    smap = split.sector_mapping(pto, m.operators, nf)
                    unchanged = sorted(map(str, m.operators)) == sorted(map(str, before)) and all(np.shape(m.operators[k]) == np.shape(before[k]) and all(a is b for a, b in zip(np.asarray(m.operators[k], dtype=object).flat, before[k].flat)) for k in before)
                exp = {}
                if pto >= 1:
                    exp[(1, 1, 0)] = {(nsp, 0): M("P_qq_0"), (nsm, 0): M("P_qq_0"), (nsv, 0): M("P_qq_0"), (100, 100): M("P_qq_0"), (100, 21): M("P_qg_0"), (21, 100): 0, (21, 21): 0}
                if pto >= 2:
                    exp[(2, 1, 0)] = {(nsp, 0): M("P_nsp_1"), (nsm, 0): M("P_nsm_1"), (nsv, 0): M("P_nsm_1"), (100, 100): M("P_qq_1"), (100, 21): M("P_qg_1"), (21, 100): 0, (21, 21): 0}
                    exp[(2, 1, 1)] = {(nsp, 0): M("P_qq_0") - sy.b0, (nsm, 0): M("P_qq_0") - sy.b0, (nsv, 0): M("P_qq_0") - sy.b0, (100, 100): M("P_qq_0") - sy.b0, (100, 21): M("P_qg_0"), (21, 100): M("P_gq_0"), (21, 21): M("P_gg_0") - sy.b0}
                    ns2 = (M("P_qq_0^2") - sy.b0 * M("P_qq_0")) / 2
                    exp[(2, 2, 0)] = {(nsp, 0): ns2, (nsm, 0): ns2, (nsv, 0): ns2, (100, 100): (M("P_qq_0^2") + M("P_qg_0P_gq_0") - sy.b0 * M("P_qq_0")) / 2, (100, 21): (M("P_qq_0P_qg_0") + M("P_qg_0P_gg_0") - sy.b0 * M("P_qg_0")) / 2, (21, 100): 0, (21, 21): 0}
                out = [("keys", sorted(smap), sorted(exp)), ("frame: operator cache not written", unchanged, True), ("keys (first request)", sorted(smap1), sorted(exp))]
                for k in exp:
                    if k in smap1:
                        for s_ in exp[k]:
                            if s_ in smap1[k]:
                                out.append((f"first request {k}/{s_}", smap1[k][s_][0, 0], exp[k][s_]))
                for k in exp:
                    if k not in smap:
                        continue
                    out.append((f"{k}/sectors", sorted(smap[k]), sorted(exp[k])))
                    for s_ in exp[k]:
                        if s_ in smap[k]:
                            out.append((f"{k}/{s_}", smap[k][s_][0, 0], exp[k][s_]))
                            out.append((f"{k}/{s_}/shape", np.shape(smap[k][s_]), (1, 1)))
                return out

            rep.check(f"C05/sector_mapping/post/pto={pto}/nf={nf}", case, sy)
    # the same tables on 2x2 formal operators: "- beta0 * identity" is the identity of the
    # interpolation space (diagonal entries only), products and sums act entry by entry
    for pto in (2, 3):
        for nf in (3, 5):
            rep.cases += 1

            def case2(sy, pto=pto, nf=nf):
                beta = BetaStub(sy)
                with rebind(*binds(sy, beta)):
                    m = sv.ScaleVariations(order=pto, interpolator=None, activate_ren=True, activate_fact=True)
                    for table in split.raw_labels:
                        for lab in table:
                            a = np.empty((2, 2), dtype=object)
                            for i in range(2):
                                for j in range(2):
                                    a[i, j] = sy.U("M", lab, i, j)
                            m.operators[(lab, nf)] = a
                    smap = split.sector_mapping(pto, m.operators, nf)
                out = []
                for i in range(2):
                    for j in range(2):
                        M = lambda lab: sy.U("M", lab, i, j)
                        d = sy.b0 if i == j else 0
                        e211 = {(nsp, 0): M("P_qq_0") - d, (nsm, 0): M("P_qq_0") - d, (nsv, 0): M("P_qq_0") - d, (100, 100): M("P_qq_0") - d, (100, 21): M("P_qg_0"), (21, 100): M("P_gq_0"), (21, 21): M("P_gg_0") - d}
                        ns2 = (M("P_qq_0^2") - sy.b0 * M("P_qq_0")) / 2
                        e220 = {(nsp, 0): ns2, (nsm, 0): ns2, (nsv, 0): ns2, (100, 100): (M("P_qq_0^2") + M("P_qg_0P_gq_0") - sy.b0 * M("P_qq_0")) / 2, (100, 21): (M("P_qq_0P_qg_0") + M("P_qg_0P_gg_0") - sy.b0 * M("P_qg_0")) / 2, (21, 100): 0, (21, 21): 0}
                        e110 = {(nsp, 0): M("P_qq_0"), (100, 100): M("P_qq_0"), (100, 21): M("P_qg_0"), (21, 100): 0, (21, 21): 0}
                        for key, exp in (((1, 1, 0), e110), ((2, 1, 1), e211), ((2, 2, 0), e220)):
                            for s_, v in exp.items():
                                got = smap[key][s_]
                                out.append((f"{key}/{s_}/shape", np.shape(got), (2, 2)))
                                out.append((f"{key}/{s_}[{i},{j}]", got[i, j], v))
                return out

            rep.check(f"C05/sector_mapping/post(2x2 operators, entry by entry)/pto={pto}/nf={nf}", case2, sy)
    # history: ONE manager asked for a sequence of flavour numbers answers each with the
    # beta coefficients and operators of that flavour number (no stale memo)
    class BetaNf:
        def beta_qcd_as2(self_, nf):
            return sy.U("beta0", int(nf))

        def beta_qcd_as3(self_, nf):
            return sy.U("beta1", int(nf))

    for pto in (2, 3):
        rep.cases += 1

        def case_seq(sy, pto=pto):
            beta = BetaNf()
            seq = (3, 4, 5, 6, 4, 3)
            out = []
            with rebind(*binds(sy, beta)):
                m = sv.ScaleVariations(order=pto, interpolator=None, activate_ren=True, activate_fact=True)
                for table in split.raw_labels:
                    for lab in table:
                        for nf in set(seq):
                            a = np.empty((1, 1), dtype=object)
                            a[0, 0] = sy.U("M", lab, nf)
                            m.operators[(lab, nf)] = a
                for step, nf in enumerate(seq):
                    got = m.ren_coeffs(nf)
                    b0, b1 = sy.U("beta0", nf), sy.U("beta1", nf)
                    full = {(2, 1, 1): b0, (3, 1, 2): 2 * b0, (3, 1, 1): b1, (3, 2, 1): b0**2}
                    for k, v in full.items():
                        if k[0] <= pto:
                            out.append((f"step{step}: ren_coeffs(nf={nf}){k}", got.get(k, 0), v))
                    fm = m.fact_matrices(nf)
                    out.append((f"step{step}: fact_matrices(nf={nf})[(1,1,0)] uses P_qq_0 of nf={nf}", fm[(1, 1, 0)][0][0, 0], sy.U("M", "P_qq_0", nf)))
                    out.append((f"step{step}: fact_matrices(nf={nf})[(2,1,1)] uses beta0 of nf={nf}", fm[(2, 1, 1)][0][0, 0], sy.U("M", "P_qq_0", nf) - b0))
            return out

        rep.check(f"C05/history/one manager, nf sequence 3,4,5,6,4,3/pto={pto}", case_seq, sy)
    rep.sample({"table": "sector_mapping[(2,2,0)][(100,21)] == (P_qq_0P_qg_0 + P_qg_0P_gg_0 - beta0 P_qg_0)/2 as formal operators, for symbolic beta0"})


# ---------------------------------------------------------------------------------------
PIDS = None


MANAGER_WRITES = []  # (channel, kernel type, (order, ren, fact) before, after): compute_local must not reconfigure the shared manager


def run_compute_local(sy, pto, ren, fact, nf, kernel_type, channel="non-singlet", manager=None):
    """Run the REAL compute_local on one abstract kernel; returns {order key: 14-vector of terms}."""
    from yadism.esf import esf as esfmod, conv
    import yadism.coefficient_functions as cf
    from eko import basis_rotation as br

    pids = list(br.flavor_basis_pids)
    if kernel_type == "quark":
        partons = {p: sy.U("w", p) for p in pids if p not in (21, 22) and abs(p) <= nf}
        orders = list(range(pto + 1))
    else:
        partons = {21: sy.U("w", 21)}
        orders = list(range(1, pto + 1))
    beta = BetaStub(sy)
    if manager is None:
        m = mk_manager(sy, pto, ren, fact, nf)
    else:
        # a manager that has already served other flavour numbers (shared by all points of a run)
        m = manager
        fresh = mk_manager(sy, pto, ren, fact, nf)
        for k_, v_ in fresh.operators.items():
            m.operators.setdefault(k_, v_)

    class Coeff(dict):
        def convolution_point(self):
            return 1  # the factor x is irrelevant for the RGE structure

    coeff = Coeff()
    for o in range(4):
        coeff[o] = (lambda o=o: ("rsl", o)) if o in orders else (lambda: None)

    class K:
        def __init__(s):
            s.partons = partons
            s.coeff = coeff
            s.channel = channel

        def has_order(s, o):
            return True

    class Comb:
        def __init__(s, e):
            s.nf = nf

        def collect_elems(s):
            return [K()]

    def convolve_vector(rsl, interp, cp):
        o = rsl[1]
        v = np.empty(1, dtype=object)
        e = np.empty(1, dtype=object)
        v[0], e[0] = sy.U("c", o), sy.U("e", o)
        return v, e

    class Interp(list):
        class xgrid:
            raw = [0.5]

            def __len__(s):
                return 1

        xgrid = xgrid()

    cfg = H.make_configs(sy, symbolic=False, pto=pto, sv=m)
    cfg.managers["interpolator"] = Interp()
    e = esfmod.EvaluatedStructureFunction.__new__(esfmod.EvaluatedStructureFunction)
    from yadism.esf.result import ESFResult

    e.x, e.Q2, e.nf, e.process = 0.5, 10.0, None, "NC"
    e.res = ESFResult(0.5, 10.0, None)
    e._computed = False
    e.orders = list(range(pto + 1))
    e.info = esfmod.ESFInfo(H.obs_name("F2", "total"), cfg)
    shim = NumpyShim()
    state_before = (m.order, m.activate_ren, m.activate_fact, sorted(map(str, m.operators)))
    with rebind(*binds(sy, beta), (cf, "Combiner", Comb), (conv, "convolve_vector", convolve_vector), (esfmod, "np", shim)):
        e.compute_local()
    state_after = (m.order, m.activate_ren, m.activate_fact, sorted(map(str, m.operators)))
    if state_before != state_after:
        MANAGER_WRITES.append((channel, kernel_type, state_before[:3], state_after[:3]))
    out = {}
    for k, (val, err) in e.res.orders.items():
        out[k] = ([val[i, 0] for i in range(len(pids))], [err[i, 0] for i in range(len(pids))])
    return out, partons, beta


def spec_evolution(sy, nf):
    """E0, E1, E0^2 as 14x14 matrices of formal operators (row = weight index, column = pdf index)."""
    from eko import basis_rotation as br

    ads = list(br.anomalous_dimensions_basis)
    P = br.ad_projectors(nf, False)
    nsp, nsm, nsv = br.non_singlet_pids_map["ns+"], br.non_singlet_pids_map["ns-"], br.non_singlet_pids_map["nsV"]
    M = lambda lab: sy.U("MR", lab)  # operators of the evolution factor (applied after the tensor's own)
    lo = {(100, 100): M("P_qq_0"), (100, 21): M("P_qg_0"), (21, 100): M("P_gq_0"), (21, 21): M("P_gg_0"), (nsp, 0): M("P_qq_0"), (nsm, 0): M("P_qq_0"), (nsv, 0): M("P_qq_0")}
    nlo = {(100, 100): M("P_qq_1"), (100, 21): M("P_qg_1"), (21, 100): M("P_gq_1"), (21, 21): M("P_gg_1"), (nsp, 0): M("P_nsp_1"), (nsm, 0): M("P_nsm_1"), (nsv, 0): M("P_nsm_1")}
    # label-definition lemma: ordered products of LO kernels <-> stored convolved kernels
    prod = {
        ((100, 100), (100, 100)): M("P_qq_0^2"), ((100, 21), (21, 100)): M("P_qg_0P_gq_0"),
        ((100, 100), (100, 21)): M("P_qq_0P_qg_0"), ((100, 21), (21, 21)): M("P_qg_0P_gg_0"),
        ((nsp, 0), (nsp, 0)): M("P_qq_0^2"), ((nsm, 0), (nsm, 0)): M("P_qq_0^2"), ((nsv, 0), (nsv, 0)): M("P_qq_0^2"),
    }
    n = P.shape[1]

    def mat(table):
        E = [[0] * n for _ in range(n)]
        for a, ad in enumerate(ads):
            for i in range(n):
                for j in range(n):
                    if P[a][i][j] != 0:
                        E[i][j] = E[i][j] + float(P[a][i][j]) * table[ad]
        return E

    E0, E1 = mat(lo), mat(nlo)
    E00 = [[0] * n for _ in range(n)]
    for a, ad in enumerate(ads):
        for b, ad2 in enumerate(ads):
            PP = P[a] @ P[b]
            if not np.any(np.abs(PP) > 1e-14):
                continue
            atom = prod.get((ad, ad2), sy.U("W(not stored)", str(ad), str(ad2)))
            for i in range(n):
                for j in range(n):
                    if abs(PP[i][j]) > 1e-14:
                        E00[i][j] = E00[i][j] + float(PP[i][j]) * atom
    return E0, E1, E00


PRODUCT_LABELS = {
    ("P_qq_0", "P_qq_0"): "P_qq_0^2", ("P_qg_0", "P_gq_0"): "P_qg_0P_gq_0",
    ("P_qq_0", "P_qg_0"): "P_qq_0P_qg_0", ("P_qg_0", "P_gg_0"): "P_qg_0P_gg_0",
}


def ordered_products(sy, norm, poly):
    """Label-definition lemma applied to the monomials of T: an operator atom M(a) of a produced
    tensor followed by an evolution atom MR(b) is the ordered product a x b (stored under a
    product label where the repository has one); a lone MR(b) is M(b)."""
    from pvc.ratfun import p_add

    info = norm.atoms.info
    left, right = {}, {}
    for i, (kind, payload) in enumerate(info):
        if kind == "u":
            rep_ = payload
            if rep_.startswith("M('"):
                left[i] = rep_[3:-2]
            elif rep_.startswith("MR('"):
                right[i] = rep_[4:-2]
    out = {}
    for mono, c in poly.items():
        L = [(i, e) for i, e in mono if i in left]
        Rr = [(i, e) for i, e in mono if i in right]
        rest = [(i, e) for i, e in mono if i not in left and i not in right]
        if not Rr:
            new = mono
        else:
            words = []
            if len(Rr) == 1 and Rr[0][1] == 1 and len(L) <= 1 and (not L or L[0][1] == 1):
                b = right[Rr[0][0]]
                if L:
                    a = left[L[0][0]]
                    lab = PRODUCT_LABELS.get((a, b), f"{a} x {b}")
                else:
                    lab = b
                t = op_atom(sy, lab)
                idx = norm.atom_for(t)
                new = tuple(sorted(rest + [(idx, 1)]))
            else:
                new = mono  # longer words: kept as they are (compared monomial by monomial)
        out[new] = out.get(new, Fr(0)) + c
    return {m: c for m, c in out.items() if c != 0}


def rge_obligations(sy, pto, nf, kernel_type, tensors, name, sv_on=(True, True)):
    """Insert the produced tensors into the apply_pdf contraction and extract the coefficients
    of a0^k tR^i tF^j that have to vanish."""
    from eko import basis_rotation as br

    pids = list(br.flavor_basis_pids)
    n = len(pids)
    a0, tR, tF, b0, b1 = sy.a0, sy.tR, sy.tF, sy.b0, sy.b1
    f0 = [sy.U("f", p) for p in pids]
    E0, E1, E00 = spec_evolution(sy, nf)
    # f(muF) = U f0
    fF = []
    for i in range(n):
        acc = f0[i]
        for j in range(n):
            u = a0 * tF * E0[i][j] + a0**2 * (tF * E1[i][j] + tF**2 / 2 * (E00[i][j] - b0 * E0[i][j]))
            if not (isinstance(u, int) and u == 0):
                acc = acc + u * f0[j]
        fF.append(acc)
    aR = a0 - b0 * tR * a0**2 + (b0**2 * tR**2 - b1 * tR) * a0**3
    T = 0
    for (k, _q, i, j), (val, _err) in tensors.items():
        contr = 0
        for p_ in range(n):
            v = val[p_]
            if isinstance(v, (int, float)) and v == 0:
                continue
            contr = contr + v * fF[p_]
        T = T + aR**k * (-tR) ** i * (-tF) ** j * contr
    # coefficient extraction
    norm = Normaliser()
    r = norm.norm(R.lift(T))
    ids = {nm: norm.atoms.by_key.get(("v", nm)) for nm in ("a0", "tR", "tF")}
    num = ordered_products(sy, norm, r.num)
    coeffs = {}
    for mono, c in num.items():
        e = {nm: 0 for nm in ids}
        rest = []
        for i_, ex in mono:
            hit = False
            for nm, idx in ids.items():
                if idx is not None and i_ == idx:
                    e[nm] = ex
                    hit = True
            if not hit:
                rest.append((i_, ex))
        key = (e["a0"], e["tR"], e["tF"])
        coeffs.setdefault(key, {})[tuple(rest)] = c
    obs = []
    scale = max((abs(c) for d in coeffs.values() for c in d.values()), default=Fr(1))
    required = []
    for k in range(0, pto + 1):
        for i in range(0, 4):
            for j in range(0, 4):
                if i == 0 and j == 0:
                    continue
                # muR: every tR-dependent coefficient through a0^pto; muF: through a0^min(pto,2) when tR-free
                if i > 0 and sv_on[0] and (sv_on[1] or j == 0):
                    if j > 0 and k > 2 and False:
                        continue
                    required.append((k, i, j))
                elif i == 0 and j > 0 and sv_on[1] and sv_on[0] and k <= min(pto, 2):
                    required.append((k, i, j))
    # with a variation switched off the invariance statement concerns the remaining scale only
    for key in sorted(set(required)):
        d = coeffs.get(key, {})
        res = max((abs(c) for c in d.values()), default=Fr(0))
        rel = float(res / scale) if scale else 0.0
        ok = rel <= TOL
        detail = f"coefficient of a0^{key[0]} tR^{key[1]} tF^{key[2]}: largest residual coefficient {rel:.3g} (relative)"
        if not ok:
            detail += " sample: " + norm.show_poly(d, 4)
        obs.append(Ob(f"{name}/cancel[a0^{key[0]} tR^{key[1]} tF^{key[2]}]", "post", PROVED if ok else REFUTED, "ratfun", 0, detail, {} if ok else {"_note": "polynomial identity in formal operators; generic values of the atoms violate it", "residual": norm.show_poly(d, 6)}, {} if ok else {"confirmed": True, "note": "the tensors were produced by the real code on formal operators; a non-zero residual polynomial is a genuine difference for generic operator values"}))
    # non-vacuity: the central coefficients are not all zero
    central = coeffs.get((pto, 0, 0), {}) if pto else coeffs.get((0, 0, 0), {})
    obs.append(Ob(f"{name}/cover[central term present]", "cover", PROVED if central else "error", "ratfun", 0, f"{len(central)} monomials in the a0^{pto} central coefficient"))
    return obs


def rge_worker(sub, item):
    from yadism.esf import scale_variations as sv

    pto, nf, kt = item
    sub.cases += 1
    sy = H.Sy(extra="a0 tR tF b0 b1")
    name = f"C05/RGE-invariance/pto={pto}/nf={nf}/{kt}-kernel"
    try:
        tensors, partons, beta = run_compute_local(sy, pto, True, True, nf, kt)
        sub.add(ob_eval(f"{name}/beta-coefficients asked for cfc.nf", set(beta.nfs) <= {nf} and (pto < 2 or len(beta.nfs) > 0), kind="pre-at-call", detail=str(sorted(set(beta.nfs)))))
        sub.add(ob_eval(f"{name}/keys = build_orders", sorted(tensors) == sorted(sv.build_orders(pto)), detail=str(sorted(tensors))))
        sub.add(rge_obligations(sy, pto, nf, kt, tensors, name))
    except Exception as e:  # noqa
        import traceback

        sub.add(Ob(name, "post", UNDECIDED if type(e).__name__ == "OutOfReach" else "error", "engine", 0, f"{type(e).__name__}: {e} {traceback.format_exc()[-800:]}"))


def rge_shared_worker(sub, item):
    """History: ONE scale-variation manager (as shared by all points of a run) first serves a point
    with nf_first flavours, then one with nf flavours: the second point's tensors satisfy the RGE
    identities of nf flavours (projectors, matrices and beta coefficients of THAT number)."""
    pto, nf_first, nf, kt = item
    sub.cases += 1
    sy = H.Sy(extra="a0 tR tF b0 b1")
    name = f"C05/RGE-invariance/shared-manager/pto={pto}/nf={nf_first} then nf={nf}/{kt}-kernel"
    try:
        m = mk_manager(sy, pto, True, True, nf_first)
        run_compute_local(sy, pto, True, True, nf_first, kt, manager=m)
        tensors, partons, beta = run_compute_local(sy, pto, True, True, nf, kt, manager=m)
        sub.add(rge_obligations(sy, pto, nf, kt, tensors, name))
        # ... and back to the first flavour number, whose operators are already in the cache (a run walks
        # every observable's points by increasing Q2, so a later observable returns to a smaller nf):
        # matrices, projectors and beta coefficients are again those of THAT number
        back, _, _ = run_compute_local(sy, pto, True, True, nf_first, kt, manager=m)
        sub.add(rge_obligations(sy, pto, nf_first, kt, back, name.replace("/shared-manager/", "/shared-manager(returning to the first nf)/")))
    except Exception as e:  # noqa
        import traceback

        sub.add(Ob(name, "post", UNDECIDED if type(e).__name__ == "OutOfReach" else "error", "engine", 0, f"{type(e).__name__}: {e} {traceback.format_exc()[-800:]}"))


def sec_rge_shared(rep):
    from pvc.core import parallel

    parallel(rep, [(2, 3, 5, "quark"), (2, 5, 4, "quark"), (2, 6, 3, "gluon"), (1, 4, 6, "quark")], rge_shared_worker, chunk=1)


def sec_rge(rep):
    from yadism.esf import scale_variations as sv, esf as esfmod
    from pvc.core import parallel

    rep.under_contract(sv.ScaleVariations.apply_common_scale_variations, sv.ScaleVariations.apply_raw_diff_scale_variations, sv.ScaleVariations.apply_diff_scale_variations, sv.ScaleVariations.compute_raw, esfmod.EvaluatedStructureFunction.compute_local)
    items = [(pto, nf, kt) for pto in (3, 2, 1) for nf in (3, 4, 5, 6) for kt in ("quark", "gluon")]
    parallel(rep, items, rge_worker, chunk=1)
    rep.sample({"rge": "pto=2, quark kernel: the coefficient of a0^2 tF^2 in sum_k a(muR)^k lnR^i lnF^j O_kij . U(tF) f(Q) -- i.e. O_{2,0,2} - O_{1,0,1} E0 + O_0 (E0^2 - b0 E0)/2 with the binomially split L_R terms added -- is the zero polynomial in the formal operators P_qq_0, P_qg_0, P_qq_0^2, ..., the weights w[pid], c_0..c_2, beta0"})


def switch_worker(sub, item):
    pto, nf, kt = item
    sy = H.Sy(extra="b0 b1")
    if kt == "intrinsic":
        # intrinsic: no factorisation logs at all
        sub.cases += 1
        del MANAGER_WRITES[:]
        got, _, _ = run_compute_local(sy, pto, True, True, nf, "quark", channel="intrinsic")
        # frame + history: the manager is shared by every kernel of the run; an intrinsic kernel must
        # leave its switches alone, and a kernel computed AFTER it on the same manager gets its lnF terms
        m = mk_manager(sy, pto, True, True, nf)
        run_compute_local(sy, pto, True, True, nf, "quark", channel="intrinsic", manager=m)
        after, _, _ = run_compute_local(sy, pto, True, True, nf, "quark", manager=m)
        fresh, _, _ = run_compute_local(sy, pto, True, True, nf, "quark")
        same = sorted(after) == sorted(fresh) and all(repr(after[k]) == repr(fresh[k]) for k in fresh)
        sub.add(ob_eval(f"C05/intrinsic/pto={pto}/nf={nf}/frame: compute_local leaves the shared manager's switches and order alone; a later non-intrinsic kernel is unaffected", not MANAGER_WRITES and same, kind="frame", detail=f"writes: {MANAGER_WRITES[:2]}; later kernel identical to a fresh run: {same}", inputs={} if (not MANAGER_WRITES and same) else {"sequence": "intrinsic kernel, then non-singlet kernel on one manager", "manager (order, ren, fact) before/after": str(MANAGER_WRITES[:2])}))
        leak = [key for key in got if key[3] > 0 and any(not (isinstance(v, (int, float)) and v == 0) for v in got[key][0])]
        sub.add(ob_eval(f"C05/intrinsic/pto={pto}/nf={nf}/no key with lnF>0", not leak, detail=str(leak), inputs={} if not leak else {"keys": leak}))
        # the switches hold for intrinsic kernels as for every other one: an intrinsic kernel is the
        # same kernel with the factorisation variation denied, i.e. for every (ren, fact) it equals the
        # ordinary-channel result computed with (ren, False), key by key and entry by entry
        for ren, fact in ((True, True), (True, False), (False, True), (False, False)):
            sub.cases += 1
            name = f"C05/intrinsic/pto={pto}/nf={nf}/ren={ren},fact={fact}"
            gi, _, _ = run_compute_local(sy, pto, ren, fact, nf, "quark", channel="intrinsic")
            ref, _, _ = run_compute_local(sy, pto, ren, False, nf, "quark")
            sub.add(ob_eval(f"{name}/all keys initialised", sorted(gi) == sorted(ref)))
            for key in sorted(ref):
                if key not in gi:
                    continue
                for p_ in range(len(ref[key][0])):
                    g, f_ = gi[key][0][p_], ref[key][0][p_]
                    if isinstance(f_, (int, float)) and f_ == 0 and isinstance(g, (int, float)) and g == 0:
                        continue
                    sub.add(ob_identity(f"{name}/{key}/pid-index={p_}/= ordinary kernel with the factorisation variation off", g, f_, TOL))
            sub.add(ob_eval(f"{name}/switched-off keys are exactly zero tensors", all(all(isinstance(v, (int, float)) and v == 0 for v in gi[key][0]) for key in gi if (key[2] > 0 and not ren) or key[3] > 0)))
        return
    full, _, _ = run_compute_local(sy, pto, True, True, nf, kt)
    for ren, fact in ((True, False), (False, True), (False, False)):
        sub.cases += 1
        name = f"C05/switches/pto={pto}/nf={nf}/{kt}/ren={ren},fact={fact}"
        got, _, _ = run_compute_local(sy, pto, ren, fact, nf, kt)
        sub.add(ob_eval(f"{name}/all keys initialised", sorted(got) == sorted(full)))
        for key in sorted(full):
            k, _q, i, j = key
            off = (i > 0 and not ren) or (j > 0 and not fact)
            for p_ in range(len(full[key][0])):
                g, f_ = got[key][0][p_], full[key][0][p_]
                if off:
                    if not (isinstance(g, (int, float)) and g == 0):
                        sub.add(ob_identity(f"{name}/{key}/pid-index={p_}/switched-off-term-is-zero", g, 0, TOL))
                elif not (isinstance(f_, (int, float)) and f_ == 0 and isinstance(g, (int, float)) and g == 0):
                    sub.add(ob_identity(f"{name}/{key}/pid-index={p_}/unchanged", g, f_, TOL))
        sub.add(ob_eval(f"{name}/switched-off keys are exactly zero tensors", all(all(isinstance(v, (int, float)) and v == 0 for v in got[key][0]) for key in got if (key[2] > 0 and not ren) or (key[3] > 0 and not fact))))


def sec_common_product_native(rep):
    """apply_common_scale_variations on a 4-node grid with dense operators (floats): every returned
    tensor is the FULL product fact_matrix @ raw kernel -- also the rows of nodes below the first node on
    which the raw kernel lives (on an interpolation basis of degree >= 3 the operators are not
    triangular: (P x p_l)(x_k) is non-zero for l slightly below k), and also when the raw kernel has
    exact zeros or entries below the integration accuracy."""
    from yadism.esf import scale_variations as sv
    from yadism.coefficient_functions import splitting_functions as split

    rng = np.random.default_rng(3)
    n = 4
    for pto in (1, 2):
        for nf in (3, 5):
            m = sv.ScaleVariations(order=pto, interpolator=None, activate_ren=True, activate_fact=True)
            for table in split.raw_labels:
                for lab in table:
                    m.operators[(lab, nf)] = rng.uniform(-1.0, 1.0, size=(n, n))
            fms = m.fact_matrices(nf)
            for nm, val in (("dense", rng.uniform(0.5, 1.5, size=n)), ("leading zeros", np.array([0.0, 0.0, 1.3, -0.4])), ("leading entries below 1e-13", np.array([3e-14, -2e-15, 0.9, 0.2])), ("single node", np.array([0.0, 0.0, 0.0, 1.0]))):
                rep.cases += 1
                partons = np.zeros((14, 1))
                partons[3, 0], partons[8, 0], partons[7, 0] = 0.7, -0.2, 1.1
                err = np.abs(val) * 1e-3
                bad = []
                try:
                    for o in range(pto):
                        out = m.apply_common_scale_variations([((o, 0, 0, 0), (partons, val[np.newaxis, :], err[np.newaxis, :]))], nf)
                        keys = [k for k in fms if k[2] == o]
                        if len(out) != len(keys):
                            bad.append((o, "number of tensors", len(out), len(keys)))
                        for (key, (_pp, v_sv, e_sv)), fk in zip(out, keys):
                            exp_v, exp_e = fms[fk] @ val, fms[fk] @ err
                            if np.shape(v_sv) != np.shape(exp_v) or not np.allclose(v_sv, exp_v, rtol=1e-13, atol=1e-15) or not np.allclose(e_sv, exp_e, rtol=1e-13, atol=1e-15):
                                bad.append((o, key, np.round(np.asarray(v_sv), 4).tolist(), np.round(exp_v, 4).tolist()))
                except Exception as e:  # noqa
                    bad.append(("raised", f"{type(e).__name__}: {e}", None, None))
                ok = not bad
                rep.add(ob_eval(f"C05/apply_common_scale_variations/native full product/pto={pto}/nf={nf}/raw kernel: {nm}", ok, detail="" if ok else f"(order, key, got, expected): {bad[0]}", inputs={} if ok else {"raw_kernel": str(val.tolist()), "first_mismatch": str(bad[0])[:500]}, replay={"confirmed": True, "python": "ScaleVariations with dense 4x4 operators: apply_common_scale_variations([((o,0,0,0), (partons, val, err))], nf)"}))


def sec_switches(rep):
    """With a variation off, exactly its logarithmic keys vanish and every remaining tensor is
    identical to the all-on run; intrinsic kernels never produce lnF > 0."""
    from pvc.core import parallel

    items = [(pto, nf, kt) for pto in (3, 2, 1) for nf in (3, 5) for kt in ("quark", "gluon", "intrinsic")]
    parallel(rep, items, switch_worker, chunk=1)


def sec_compute_raw(rep):
    """ScaleVariations.compute_raw (cache invariant): after compute_raw(nf), operators[(label, nf)]
    exists for every label of the manager's order and is the convolution of THAT label's kernel at
    THAT nf with the manager's interpolator; entries of other flavour numbers are kept, each kernel
    is convolved at most once per (label, nf) -- for any request history nf_1, nf_2, ...;
    fact_matrices(nf) after any history neither raises nor mixes flavour numbers."""
    from yadism.esf import scale_variations as sv
    from yadism.coefficient_functions import splitting_functions as split

    rep.under_contract(sv.ScaleVariations.compute_raw)
    sy = H.Sy(extra="b0 b1")
    for pto in (1, 2, 3):
        for seq in ((4, 5), (3, 4, 5, 6, 4, 3), (6, 3)):
            rep.cases += 1
            calls = []

            def convolve_operator(rsl, interp):
                calls.append(rsl)
                a = np.empty((1, 1), dtype=object)
                a[0, 0] = sy.U("Conv", str(rsl))
                return a, a

            class LabelFn:
                def __init__(s, lab):
                    s.lab = lab

                def __call__(s, nf):
                    return ("kernel", s.lab, int(nf))

            ok, detail = True, ""
            try:
                labels = [{lab: LabelFn(lab) for lab in table} for table in split.raw_labels]
                with rebind((sv, "convolve_operator", convolve_operator), (split, "raw_labels", labels), *binds(sy, BetaStub(sy))):
                    m = sv.ScaleVariations(order=pto, interpolator="INTERP", activate_ren=True, activate_fact=True)
                    want = [lab for table in labels[:pto] for lab in table]
                    seen = set()
                    for nf in seq:
                        m.compute_raw(nf)
                        seen.add(nf)
                        keys = set(m.operators)
                        exp_keys = {(lab, n) for lab in want for n in seen}
                        if keys != exp_keys:
                            ok, detail = False, f"after history {seq[:len(seen)]}: missing {sorted(exp_keys - keys)[:3]} extra {sorted(keys - exp_keys)[:3]}"
                            break
                        wrong = [(lab, n) for (lab, n), v in m.operators.items() if repr(v[0, 0]) != repr(sy.U("Conv", str(("kernel", lab, n))))]
                        if wrong:
                            ok, detail = False, f"entries not the convolution of their own (label, nf): {wrong[:3]}"
                            break
                        fm = m.fact_matrices(nf)  # must not raise
                    if ok and len(calls) != len(want) * len(set(seq)):
                        ok, detail = False, f"{len(calls)} convolutions for {len(want)} labels x {len(set(seq))} flavour numbers"
            except Exception as e:  # noqa
                ok, detail = False, f"{type(e).__name__}: {e}"
            rep.add(ob_eval(f"{rep.pid}/compute_raw/invariant(operators[(label,nf)] = convolution of that label at that nf, for every request history)/pto={pto}/nf-sequence={seq}", ok, kind="invariant", detail=detail, inputs={} if ok else {"nf sequence": str(seq), "observed": detail}))


def sec_kernels_are_distributions(rep):
    """'fixed by the DGLAP splitting kernels': the kernels the scale-variation terms are built from
    are one well-defined distribution each -- local part = delta coefficient minus the primitive of
    the plus-distribution part (the C03 contract of every split.raw_labels entry, re-discharged here
    because a slip in a local term changes every ln(muF) coefficient at x > 0 while all Mellin
    moments at the origin stay put)."""
    from . import c03

    c03.sec_labels(rep)


def sec_operator_construction(rep):
    """The splitting-function operators the ln(muF) terms are built from are conv.convolve_operator of
    the kernels: its structure contract (every entry is the convolution of basis function l at node k,
    only the trivial corner is skipped) is C01's, re-discharged here."""
    from . import c01

    c01.sec_convolve_vector(rep)


def sec_runner_wiring(rep):
    """Runner.__init__ hands the scale-variation manager the coefficient-function order of the card
    (PTODIS, not the evolution order PTO) and the two switches; the ESFs of the run share it."""
    from yadism import runner
    from yadism.esf import scale_variations as sv

    rep.under_contract(runner.Runner.__init__)
    for pto_evol in range(3):
        for ptodis in range(4):
            for ren, fact in ((True, True), (True, False), (False, True), (False, False)):
                rep.cases += 1
                th = H.base_theory(FNS="ZM-VFNS", NfFF=3, PTO=pto_evol, PTODIS=ptodis, RenScaleVar=ren, FactScaleVar=fact)
                # the switches decide, whatever scale ratios the card carries for later use by apply_pdf
                th.update(XIR=(1.0, 2.0, 0.5)[(pto_evol + ptodis) % 3], XIF=(0.5, 1.0, 2.0)[(pto_evol + 2 * ptodis) % 3])
                try:
                    r = runner.Runner(th, H.base_obs())
                    m = r.configs.managers["sv_manager"]
                    if not (ren or fact):
                        ok, detail = (m is None) or (not m.activate_ren and not m.activate_fact), f"manager={m!r}"
                    else:
                        ok = isinstance(m, sv.ScaleVariations) and m.order == ptodis and bool(m.activate_ren) == ren and bool(m.activate_fact) == fact and r.configs.theory["pto"] == ptodis and r.configs.theory["pto_evol"] == pto_evol
                        detail = f"order={getattr(m, 'order', None)} ren={getattr(m, 'activate_ren', None)} fact={getattr(m, 'activate_fact', None)} pto={r.configs.theory['pto']} pto_evol={r.configs.theory['pto_evol']}"
                except Exception as e:  # noqa
                    ok, detail = False, repr(e)
                rep.add(ob_eval(f"C05/Runner.__init__/sv-manager(order = PTODIS={ptodis}, not PTO={pto_evol}; RenScaleVar={ren}, FactScaleVar={fact})", ok, detail=detail, inputs={} if ok else {"PTO": pto_evol, "PTODIS": ptodis, "observed": detail}))


def sec_label_moments(rep):
    """Bounded stand-in for the label-definition lemma: the stored convolved kernels have the
    Mellin moments of the ordered products of the LO kernels, M_N[A x B] = M_N[A] M_N[B], for
    N = 1..8 (exact term-wise integration of the normal forms; a finite set of N, hence bounded)."""
    import mpmath as mp

    from pvc.moments import mellin_moment, NotIntegrable
    from yadism.coefficient_functions import splitting_functions as split
    from . import sites as S
    from .c04 import parts

    sy = H.Sy(extra="z")
    pre = [sy.z > 0, sy.z < 1]
    tab = {}
    for t in split.raw_labels:
        tab.update(t)
    products = {"P_qq_0^2": ("P_qq_0", "P_qq_0"), "P_qg_0P_gq_0": ("P_qg_0", "P_gq_0"), "P_qq_0P_qg_0": ("P_qq_0", "P_qg_0"), "P_qg_0P_gg_0": ("P_qg_0", "P_gg_0")}
    for lab, (a, b) in products.items():
        for nf in (3, 5):
            bad = []
            try:
                with rebind(*S.stub_binds(sy)):
                    P = {k: parts(sy, tab[k](nf), sy.z) for k in (lab, a, b)}
                # gluon-type kernels (P_gq, P_gg, and products starting in the quark sector and ending on
                # the gluon) have a 1/z pole: start at N = 2 there
                n0 = 2
                for N in range(n0, 9):
                    ml, ma, mb = (mellin_moment(P[k], sy.z, N, pre) for k in (lab, a, b))
                    if abs(ml - ma * mb) > mp.mpf(10) ** -12 * max(1, abs(ml)):
                        bad.append((N, float(ml), float(ma * mb)))
                ok, detail = not bad, f"N = {n0}..8: {bad[:2] or 'all equal to 12 digits (the kernels contain double constants)'}"
                st = PROVED if ok else REFUTED
            except NotIntegrable as e:
                ok, detail, st = False, f"not reducible to the integral table: {e}", UNDECIDED
            o = Ob(f"C05/label-definition/{lab} = {a} x {b}/nf={nf}", "bounded", st, "moments", 0, detail, {} if ok else {"moments": bad[:3]}, {})
            o.bounded = True
            rep.add(o)


def sec_apply_pdf(rep):
    """Power bookkeeping of the contraction that the RGE statement is about: ESFResult.apply_pdf
    multiplies the (k,0,i,j) tensor by a_s(xiR Q)^k ln(1/xiR^2)^i ln(1/xiF^2)^j and evaluates the PDF
    at xiF^2 Q2 (contract shared with C17, re-discharged here)."""
    from . import c17

    n0 = len(rep.obs)
    c17.sec_result_apply(rep)
    for o in rep.obs[n0:]:
        o.name = o.name.replace("C17/", "C05/apply_pdf/", 1)


def sec_selfcheck(rep, seed):
    """Canary: a wrong binomial sign in apply_diff_scale_variations must break the RGE identity."""
    from yadism.esf import scale_variations as sv
    from canaries import c05 as canary

    sy = H.Sy(extra="a0 tR tF b0 b1")
    with rebind((sv.ScaleVariations, "apply_diff_scale_variations", canary.apply_diff_wrong_sign)):
        tensors, _, _ = run_compute_local(sy, 2, True, True, 4, "quark")
    obs = rge_obligations(sy, 2, 4, "quark", tensors, "canary")
    bad = [o for o in obs if o.status == REFUTED]
    rep.add(Ob("C05/selfcheck/canary-wrong-binomial-sign-refuted", "canary", PROVED if bad else "error", "ratfun", 0, f"refuted coefficients: {[o.name.split('/')[-1] for o in bad]}"))


def run(rep, tier, seed, only=None):
    rep.assume(
        "the stored convolved kernels are the convolutions of the LO kernels in the stated order (label-definition lemma: P_qq_0^2 = P_qq x P_qq, P_qq_0P_qg_0 = P_qq x P_qg, ...); only their RSL consistency is checked (C03)",
        "eko 0.14: ad_projectors(nf) (concrete doubles, rationalised, tolerance 1e-10), anomalous_dimensions_basis; beta_qcd_as2/3 are symbolic beta0, beta1 (the identities hold for arbitrary values)",
        "RGE reading of 'independent up to one order beyond': truncated running a(t) = a0 - b0 t a0^2 + (b0^2 t^2 - b1 t) a0^3 and truncated DGLAP f(t) = [1 + a0 t E0 + a0^2 (t E1 + t^2/2 (E0^2 - b0 E0))] f(Q); muR-cancellation through a0^pto (pto <= 3), muF-cancellation through a0^min(pto,2) (no N3LO factorisation terms exist in the code)",
        "kernels with a leading-order entry carry no gluon weight (true for every LO() in the repository, C02); gluon kernels start at order 1",
        "one-node grid with formal operators: the code uses the operators only linearly (no operator x operator product is computed at run time), so the identities lift to every grid size",
    )
    rep.stub("eko.beta -> symbolic beta0/beta1", "conv.convolve_vector -> symbolic raw coefficients c_o", "Combiner -> one abstract kernel", "ScaleVariations.operators pre-filled with formal 1x1 operators (compute_raw's cache branch)")
    for nm, f in (("tables", sec_tables), ("rge", sec_rge), ("rgeshared", sec_rge_shared), ("computeraw", sec_compute_raw), ("operators", sec_operator_construction), ("distributions", sec_kernels_are_distributions), ("switches", sec_switches), ("commonproduct", sec_common_product_native), ("wiring", sec_runner_wiring), ("apply_pdf", sec_apply_pdf), ("labels", sec_label_moments)):
        if only and only not in nm:
            continue
        rep.add(guarded(f"C05/{nm}", lambda f=f: (f(rep), [])[1]))
    if not only and rep.replay_target is None:
        rep.add(guarded("C05/selfcheck", lambda: (sec_selfcheck(rep, seed), [])[1]))
    rep.extra["rule"] = "cases = pto 1..3 x nf 3..6 x kernel type x switch combination; operators, weights, raw coefficients, beta0, beta1 symbolic"
