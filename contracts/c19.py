"""C19 -- predictions are stable under refinement of the interpolation grid (PARTIAL, scope stated).

The property has two halves.

(1) "a requested x that coincides with a grid node gives the same value as an infinitesimally
    displaced x".  This is a corollary of contracts that ARE within reach:
      * Runner.__init__ builds the interpolation basis from exactly the three card entries (grid,
        degree, log flag) and hands the same object to every consumer              [proved here]
      * conv.convolution(rsl, x, basis_j) equals the spec integral for EVERY x, the paths where x
        sits exactly on an area border included; the quadrature is split at every area border;
        convolve_operator is the double interpolation of that                      [C01 contracts,
        re-discharged here: they are what the statement rests on]
      * the spec integral is continuous in x if the basis functions are continuous and vanish at the
        borders of their support (textbook) -- which is assumption A-eko; bounded stand-in: eko's real
        evaluate_x / log_evaluate_x executed symbolically for every x on six grids   [bounded]
(2) "results from two adequate grids agree within the interpolation accuracy / converge as the grid
    is refined".  Approximation theory about eko's Lagrange polynomials and scipy's quadrature: no
    pre/postcondition of yadism code states it.  Only a BOUNDED stand-in: real LO+NLO runs on grids of
    15 / 30 / 60 nodes (and degree 2 vs 4) contracted with a smooth toy PDF must approach each other.
    Never counted as discharged.
"""
from __future__ import annotations

import numpy as np

from pvc.core import ob_eval, guarded, Ob, PROVED, REFUTED, UNDECIDED

from . import harness as H

LEVEL = "proof"


def sec_runner_wiring(rep):
    """Runner.__init__: the interpolator is InterpolatorDispatcher(XGrid(card grid, card log flag),
    card degree, x-space) and it is the object every structure function / scale-variation manager
    receives."""
    from yadism import runner

    rep.under_contract(runner.Runner.__init__)
    grids = ([1e-3, 1e-2, 0.1, 0.3, 0.6, 1.0], [0.05, 0.1, 0.2, 0.4, 0.55, 0.7, 0.85, 1.0], list(np.geomspace(1e-4, 1, 12)))
    for gi, grid in enumerate(grids):
        for deg in (1, 2, 3, 4):
            for is_log in (True, False):
                if deg >= len(grid):
                    continue
                rep.cases += 1
                ob = H.base_obs(interpolation_xgrid=list(grid), interpolation_polynomial_degree=deg, interpolation_is_log=is_log)
                th = H.base_theory(FNS="ZM-VFNS", NfFF=3, PTO=1, PTODIS=1)
                try:
                    r = runner.Runner(th, ob)
                    it = r.configs.managers["interpolator"]
                    sv = r.configs.managers["sv_manager"]
                    ok = (
                        np.allclose(it.xgrid.raw, grid, rtol=0, atol=0)
                        and bool(it.xgrid.log) == is_log
                        and it.polynomial_degree == deg
                        and len(list(it)) == len(grid)
                        and all(not bf.mode_N and bool(bf._mode_log) == is_log for bf in it)  # pylint: disable=protected-access
                        and (sv is None or sv.interpolator is it)
                        and r.configs.interpolator is it
                    )
                    detail = f"grid {len(it.xgrid.raw)} nodes log={it.xgrid.log} degree={it.polynomial_degree}"
                    # the nodes a PDF is sampled at (the echoed grid) are the nodes the operator columns
                    # belong to (the interpolator's, sorted) -- also when the card lists them out of order
                    rs = runner.Runner(th, dict(ob, interpolation_xgrid=list(grid[1::2]) + list(grid[0::2])))
                    its = rs.configs.managers["interpolator"]
                    echoed = [float(v) for v in np.asarray(rs._output["xgrid"]["grid"]).ravel()]  # pylint: disable=protected-access
                    ok = ok and np.allclose(its.xgrid.raw, sorted(grid), rtol=0, atol=0) and echoed == [float(v) for v in its.xgrid.raw] and [float(v) for v in np.asarray(r._output["xgrid"]["grid"]).ravel()] == [float(v) for v in it.xgrid.raw]  # pylint: disable=protected-access
                    if not ok:
                        detail += f"; unsorted card: interpolator nodes {list(its.xgrid.raw)[:4]}.., echoed {echoed[:4]}.."
                except Exception as e:  # noqa
                    ok, detail = False, repr(e)
                rep.add(ob_eval(f"C19/Runner.__init__/interpolator = Dispatcher(card grid #{gi}, degree {deg}, log={is_log}), shared by all consumers", ok, detail=detail, inputs={} if ok else {"grid": str(grid), "degree": deg, "log": is_log, "observed": detail}))


def sec_c01_contracts(rep):
    """The C01 contracts the node statement rests on (every x, node paths included)."""
    from . import c01

    c01.sec_quad_kers(rep)
    c01.sec_convolution(rep)
    c01.sec_convolve_vector(rep)


def sec_sv_tables(rep):
    """The scale-variation operators are functions of the interpolation operators entry by entry
    ('- beta0 * identity' touches the diagonal only): a table that mixed a scalar into every entry
    would grow with the number of nodes and spoil refinement (C05 contract, re-discharged here)."""
    from . import c05

    c05.sec_tables(rep)
    c05.sec_common_product_native(rep)


def sec_tmc_support(rep):
    """The target-mass integrals run over [xi, 1]: which basis functions are skipped is decided by
    is_below_x(xi) -- not by x, not by an assumption on the degree -- otherwise the result depends on
    where the nodes fall between xi and x (C10 contract of _convolve_FX, support width 1 and 2,
    re-discharged here)."""
    from . import c10

    for w_ in (1, 2):
        c10.WIDTH[0] = w_
        c10.sec_convolve(rep)
    c10.WIDTH[0] = 1


def toy_pdf():
    class Toy:
        def hasFlavor(self, pid):
            return pid in (21, 1, 2, -1, -2, 3, -3)

        def xfxQ2(self, pid, x, Q2):
            if pid == 21:
                return 1.7 * x**-0.1 * (1 - x) ** 5
            if pid in (1, 2):
                return (1.0 + 0.5 * (pid == 2)) * x**0.6 * (1 - x) ** 3 + 0.1 * x**-0.1 * (1 - x) ** 7
            return 0.1 * x**-0.1 * (1 - x) ** 7

    return Toy()


def sec_refinement_bounded(rep, tier):
    """BOUNDED stand-in for half (2): real runs, smooth toy PDF."""
    import yadism

    pts = [{"x": x, "Q2": 20.0} for x in (0.0123, 0.1, 0.4, 0.7)]
    res = {}
    for n, deg in ((15, 4), (30, 4), (60, 4), (30, 2)):
        grid = list(np.geomspace(1e-3, 0.2, n // 2, endpoint=False)) + list(np.linspace(0.2, 1.0, n - n // 2))
        ob = H.base_obs(interpolation_xgrid=grid, interpolation_polynomial_degree=deg, interpolation_is_log=True, observables={"F2_light": pts, "FL_light": pts})
        th = H.base_theory(FNS="ZM-VFNS", NfFF=4, PTO=1, PTODIS=1)
        out = yadism.run_yadism(th, ob)
        pred = out.apply_pdf_alphas_alphaqed_xir_xif(toy_pdf(), lambda mu: 0.2, lambda mu: 0.0078, 1.0, 1.0)
        res[(n, deg)] = np.array([p["result"] for name in ("F2_light", "FL_light") for p in pred[name]])
    ref = res[(60, 4)]
    d15 = np.max(np.abs(res[(15, 4)] - ref) / np.maximum(np.abs(ref), 1e-3))
    d30 = np.max(np.abs(res[(30, 4)] - ref) / np.maximum(np.abs(ref), 1e-3))
    d302 = np.max(np.abs(res[(30, 2)] - ref) / np.maximum(np.abs(ref), 1e-3))
    ok = d30 <= 2e-3 and d30 <= d15 + 1e-6 and d302 <= 2e-2
    o = Ob("C19/bounded/grid refinement: 15 -> 30 -> 60 nodes (degree 4) and degree 2 vs 4 agree with a smooth toy PDF (F2, FL light, LO+NLO, 4 points)", "bounded", PROVED if ok else REFUTED, "native", 0, f"max relative deviation from the 60-node run: 15 nodes {d15:.2e}, 30 nodes {d30:.2e}, 30 nodes degree 2 {d302:.2e}", {} if ok else {"deviation_15": float(d15), "deviation_30": float(d30), "deviation_30_degree2": float(d302)}, {"confirmed": True} if not ok else {})
    o.bounded = True
    rep.add(o)
    # node coincidence on real runs: x exactly on a node vs displaced by 1e-9 relative
    grid = list(np.geomspace(1e-3, 0.2, 10, endpoint=False)) + list(np.linspace(0.2, 1.0, 11))
    node = grid[12]
    pts = [{"x": node, "Q2": 20.0}, {"x": node * (1 + 1e-9), "Q2": 20.0}, {"x": node * (1 - 1e-9), "Q2": 20.0}]
    ob = H.base_obs(interpolation_xgrid=grid, interpolation_polynomial_degree=3, interpolation_is_log=True, observables={"F2_light": pts})
    out = yadism.run_yadism(H.base_theory(FNS="ZM-VFNS", NfFF=4, PTO=1, PTODIS=1), ob)
    pred = [p["result"] for p in out.apply_pdf_alphas_alphaqed_xir_xif(toy_pdf(), lambda mu: 0.2, lambda mu: 0.0078, 1.0, 1.0)["F2_light"]]
    dev = max(abs(pred[1] - pred[0]), abs(pred[2] - pred[0])) / max(abs(pred[0]), 1e-6)
    o = Ob("C19/bounded/node coincidence: F2_light at a grid node vs displaced by 1e-9 (real NLO run)", "bounded", PROVED if dev <= 1e-6 else REFUTED, "native", 0, f"values {pred}; relative jump {dev:.2e}", {} if dev <= 1e-6 else {"x_node": float(node), "values": str(pred)}, {"confirmed": True} if dev > 1e-6 else {})
    o.bounded = True
    rep.add(o)


def run(rep, tier, seed, only=None):
    rep.assume(
        "half (2) of the property (convergence / agreement between adequate grids) is approximation theory about eko's interpolation polynomials and scipy's quadrature: NOT decided by any contract; only the bounded refinement experiment looks at it",
        "spec integral continuous in x: textbook, given continuous basis functions that vanish at the borders of their support (A-eko; stand-ins labelled bounded: symbolic nodes of any position for degree 1..4 and up to degree+3 nodes, and six concrete grids, every x)",
        "A-quad: scipy.integrate.quad returns the integral it is given (C01)",
    )
    for nm, f in (("wiring", sec_runner_wiring), ("c01", sec_c01_contracts), ("svtables", sec_sv_tables), ("tmcsupport", sec_tmc_support), ("aeko", H.eko_basis_standin), ("refinement", lambda r: sec_refinement_bounded(r, tier))):
        if only and only not in nm:
            continue
        rep.add(guarded(f"C19/{nm}", lambda f=f: (f(rep), [])[1]))
    rep.extra["rule"] = "wiring: 3 grids x degree 1..4 x log/linear; C01 contracts: symbolic x over all positions relative to the areas; bounded: 6 eko grids (all x), 4 real runs"
