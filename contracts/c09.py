"""C09 -- heavy-quark production respects its kinematic threshold.

Functions under contract: heavy.partonic_channel.NeutralCurrentBase.{__init__, decorator,
is_below_pair_threshold}, every reg/loc closure returned by the order methods of every
NeutralCurrentBase subclass in heavy/*_nc.py (module scan), ChargedCurrentBase.{__init__,
convolution_point}, esf.conv.convolution (empty kernel / empty domain branches).
"""
from __future__ import annotations

import importlib
import math

from pvc.core import ob_eval, guarded, Ob, PROVED, REFUTED
from pvc.stubs import rebind, np_shim_for
from pvc.sym import R, Not, And, Or, Eq, compare

from . import harness as H
from .c02 import BasisStub, KINDMAP

LEVEL = "proof"


class LeProStub:
    """LeProHQ contract stub: uninterpreted values; records that it was reached."""

    def __init__(self, sy):
        self.sy = sy
        self.calls = 0

    def __getattr__(self, name):
        def f(*args):
            self.calls += 1
            return self.sy.U("LeProHQ." + name, *[a if not isinstance(a, str) else a for a in args])

        return f


class InterpStub:
    def __init__(self, sy):
        self.sy = sy
        self.calls = 0

    def __call__(self, coeff, nf, variation):
        def spline(xi, eta):
            self.calls += 1
            return self.sy.U(f"spline[{coeff},{int(nf)},{int(variation)}]", xi, eta)

        return spline


def heavy_nc_classes():
    from yadism.coefficient_functions.heavy.partonic_channel import NeutralCurrentBase, ChargedCurrentBase

    classes, errors = H.all_partonic_channel_classes()
    nc = [c for c in classes if issubclass(c, NeutralCurrentBase) and c is not NeutralCurrentBase]
    cc = [c for c in classes if issubclass(c, ChargedCurrentBase) and c.__module__.endswith("_cc")]
    return nc, cc, errors


def below(sy, z, m2):
    """spec: hadronic/partonic invariant mass at or below the pair threshold."""
    return sy.Q2 * (1 - z) / z <= 4 * m2


def sec_threshold_predicate(rep):
    from yadism.coefficient_functions.heavy.partonic_channel import NeutralCurrentBase as NCB
    import yadism.coefficient_functions.heavy.f2_nc as f2

    rep.under_contract(NCB.__init__, NCB.decorator, NCB.is_below_pair_threshold)
    sy = H.Sy(extra="z")
    pre = [sy.x > 0, sy.x <= 1, sy.z > 0, sy.z < 1, sy.Q2 > 0, sy.m2c > 0]

    def case(sy):
        cfg = H.make_configs(sy, process="NC", scheme="FFNS", nf_ff=3, pto=1)
        esf = H.FakeESF(sy.x, sy.Q2, H.obs_name("F2", "charm"), cfg)
        o = f2.GluonVV(esf, 3, m2hq=sy.m2c)
        got = o.is_below_pair_threshold(sy.z)
        return [("iff", bool(got), bool(below(sy, sy.z, sy.m2c)))]

    rep.cases += 1
    rep.check("C09/is_below_pair_threshold/post(<=> Q2(1-z)/z <= 4m2, equality included)", case, sy, pre)


def sec_decorator(rep):
    """Below the hadronic threshold at ESF.x every order returns the empty RSL, hence
    (with conv.convolution's contract) zero operator rows; the external libraries are not reached."""
    from yadism.coefficient_functions.partonic_channel import RSL
    from yadism.esf import conv

    sy = H.Sy(extra="z")
    nc, cc, errors = heavy_nc_classes()
    rep.add(ob_eval("C09/module-scan-complete", not errors and len(nc) > 10, detail=f"{len(nc)} NC classes; errors={errors}"))
    pre = [sy.x > 0, sy.x <= 1, sy.Q2 > 0, sy.m2c > 0]
    for cls in sorted(nc, key=lambda c: (c.__module__, c.__name__)):
        mod = importlib.import_module(cls.__module__)
        kind = KINDMAP[cls.__module__.split(".")[-1].split("_")[0]]
        rep.under_contract(cls)
        for nf in (3, 4, 5):
            rep.cases += 1

            def case(sy, cls=cls, mod=mod, kind=kind, nf=nf):
                lep, itp = LeProStub(sy), InterpStub(sy)
                cfg = H.make_configs(sy, process="NC", scheme="FFNS", nf_ff=nf, pto=3)
                esf = H.FakeESF(sy.x, sy.Q2, H.obs_name(kind, "charm"), cfg)
                binds = [(mod, "LeProHQ", lep)] + ([(mod, "interpolator", itp)] if hasattr(mod, "interpolator") else [])
                out = []
                with rebind(*binds):
                    o = cls(esf, nf, m2hq=sy.m2c)
                    for k in range(4):
                        rsl = o[k]()
                        empty = isinstance(rsl, RSL) and rsl.reg is None and rsl.sing is None and rsl.loc is None
                        out.append((f"order{k}/empty-RSL", empty, True))
                        if empty:
                            res = conv.convolution(rsl, o.convolution_point(), BasisStub(sy, 2, False, True))
                            out.append((f"order{k}/convolution-value", res[0], 0))
                            out.append((f"order{k}/convolution-error", res[1], 0))
                out.append(("external-libraries-not-reached", lep.calls + itp.calls, 0))
                return out

            rep.check(f"C09/decorator/below-hadronic-threshold/{cls.__module__.split('.')[-1]}.{cls.__name__}/nf={nf}", case, sy, pre + [below(sy, sy.x, sy.m2c)])


def sec_decorator_shared_esf(rep):
    """One ESF carries the channels of EVERY massive flavour (F_total, F_light in FFNS with several
    massive quarks): on one ESF object, channels built for charm, then bottom, then charm again each
    decide the hadronic threshold with their OWN mass -- between the two thresholds the charm channels
    answer with their coefficient functions and the bottom channels with the empty RSL, whatever was
    built first (frame: the decision is a function of (x, Q2, m2hq); nothing about it lives on the ESF)."""
    from yadism.coefficient_functions.partonic_channel import RSL

    nc, cc, errors = heavy_nc_classes()
    # x = 0.5: Q2 (1-x)/x = Q2;  4 m2c = 8 < Q2 = 20 <= 4 m2b = 80
    syn = H.Sy(extra="z").numeric({"x": 0.5, "Q2": 20.0, "m2c": 2.0, "m2b": 20.0})
    for order_nm, masses in (("charm, bottom, charm", (2.0, 20.0, 2.0)), ("bottom, charm, bottom", (20.0, 2.0, 20.0))):
        for cls in sorted(nc, key=lambda c: (c.__module__, c.__name__)):
            mod = importlib.import_module(cls.__module__)
            kind = KINDMAP[cls.__module__.split(".")[-1].split("_")[0]]
            rep.cases += 1
            try:
                lep, itp = LeProStub(syn), InterpStub(syn)
                cfg = H.make_configs(syn, process="NC", scheme="FFNS", nf_ff=3, pto=3)
                esf = H.FakeESF(syn.x, syn.Q2, H.obs_name(kind, "total"), cfg)
                attrs_before = set(vars(esf))
                got = []
                with rebind(*([(mod, "LeProHQ", lep)] + ([(mod, "interpolator", itp)] if hasattr(mod, "interpolator") else []))):
                    for m2 in masses:
                        o = cls(esf, 3, m2hq=m2)
                        empties = []
                        for k in range(4):
                            rsl = o[k]()
                            empties.append(isinstance(rsl, RSL) and rsl.reg is None and rsl.sing is None and rsl.loc is None)
                        got.append(empties)
                exp_below = [m2 == 20.0 for m2 in masses]
                # below threshold: every order empty; above: at least one order answers with a coefficient
                ok = all((all(e) if b else not all(e)) for e, b in zip(got, exp_below)) and set(vars(esf)) == attrs_before
                detail = f"all orders empty per channel built: {[all(e) for e in got]} (expected {exp_below}); attributes added to the ESF: {sorted(set(vars(esf)) - attrs_before)}"
            except Exception as e:  # noqa
                ok, detail = False, f"{type(e).__name__}: {e}"
            rep.add(ob_eval(f"C09/decorator/shared ESF between the charm and bottom thresholds/{cls.__module__.split('.')[-1]}.{cls.__name__}/built for {order_nm}", ok, detail=detail, inputs={} if ok else {"x": 0.5, "Q2": 20.0, "m2c": 2.0, "m2b": 20.0, "class": cls.__name__, "sequence": order_nm, "observed": detail}, replay={"confirmed": True, "python": "one ESF object; cls(esf, 3, m2hq=m) for m in the sequence; [o[k]() for k in range(4)]"}))


def sec_closures(rep):
    """Above the hadronic threshold, every regular closure vanishes for partonic fractions z with
    Q2(1-z)/z <= 4 m2 and does not reach the external libraries there."""
    from yadism.coefficient_functions.partonic_channel import RSL

    sy = H.Sy(extra="z")
    nc, cc, errors = heavy_nc_classes()
    pre = [sy.x > 0, sy.x <= 1, sy.z > 0, sy.z < 1, sy.Q2 > 0, sy.m2c > 0, Not(below(sy, sy.x, sy.m2c))]
    n_closures = 0
    for cls in sorted(nc, key=lambda c: (c.__module__, c.__name__)):
        mod = importlib.import_module(cls.__module__)
        kind = KINDMAP[cls.__module__.split(".")[-1].split("_")[0]]
        for order in (1, 2, 3):
            for nf in (3, 4, 5):
                rep.cases += 1

                def case(sy, cls=cls, mod=mod, kind=kind, nf=nf, order=order, region="below"):
                    lep, itp = LeProStub(sy), InterpStub(sy)
                    cfg = H.make_configs(sy, process="NC", scheme="FFNS", nf_ff=nf, pto=3)
                    esf = H.FakeESF(sy.x, sy.Q2, H.obs_name(kind, "charm"), cfg)
                    binds = [(mod, "LeProHQ", lep)] + ([(mod, "interpolator", itp)] if hasattr(mod, "interpolator") else [])
                    with rebind(*binds):
                        o = cls(esf, nf, m2hq=sy.m2c)
                        rsl = o[order]()
                        if rsl is None:
                            return [("no-kernel-at-this-order", True, True)]
                        out = [("is-RSL", isinstance(rsl, RSL), True), ("no-singular-part", rsl.sing is None, True)]
                        if rsl.reg is not None:
                            before = lep.calls + itp.calls
                            val = rsl.reg(sy.z, rsl.args["reg"])
                            reached = lep.calls + itp.calls - before
                            out.append(("reg(z)=0 beyond the partonic threshold", val, 0))
                            out.append(("external-libraries-not-reached", reached, 0))
                        return out

                paths = rep.check(
                    f"C09/closure/partonic-threshold/{cls.__module__.split('.')[-1]}.{cls.__name__}/order={order}/nf={nf}",
                    case, sy, pre + [below(sy, sy.z, sy.m2c)],
                )
                n_closures += 1
    rep.sample({"closures checked": n_closures, "example": "heavy.f2_nc.GluonVV.NLO reg(z) == 0 and LeProHQ not called for all z with Q2(1-z)/z <= 4 m2"})


def sec_cc(rep):
    """CC: convolution point is x(1+m2/Q2); convolution returns (0,0) once that reaches 1-eps."""
    from yadism.coefficient_functions.heavy.partonic_channel import ChargedCurrentBase as CCB
    from yadism.coefficient_functions.partonic_channel import RSL
    from yadism.esf import conv
    import yadism.coefficient_functions.partonic_channel as pcmod
    import yadism.coefficient_functions.heavy.partonic_channel as hpc

    rep.under_contract(CCB.__init__, CCB.convolution_point, conv.convolution)
    sy = H.Sy(extra="c")
    nc, cc, errors = heavy_nc_classes()
    pre = [sy.x > 0, sy.x <= 1, sy.Q2 > 0, sy.m2c > 0]
    eps = conv.eps_integration_border

    def no_quad(*a, **k):
        raise AssertionError("quad must not be called on an empty domain")

    class _SI:
        class integrate:
            quad = staticmethod(no_quad)

    for cls in sorted(cc, key=lambda c: (c.__module__, c.__name__)):
        kind = KINDMAP[cls.__module__.split(".")[-1].split("_")[0]]
        rep.cases += 1
        rep.under_contract(cls)

        def case(sy, cls=cls, kind=kind):
            shim = [] if sy.is_numeric else np_shim_for(pcmod, hpc)
            cfg = H.make_configs(sy, process="CC", projectile="neutrino", scheme="FFNS", nf_ff=3, pto=1)
            esf = H.FakeESF(sy.x, sy.Q2, H.obs_name(kind, "charm"), cfg)
            with rebind(*shim):
                o = cls(esf, 3, m2hq=sy.m2c)
                cp = o.convolution_point()
            return [("convolution_point = x(1+m2/Q2)", cp, sy.x * (1 + sy.m2c / sy.Q2))]

        rep.check(f"C09/cc/convolution_point/{cls.__module__.split('.')[-1]}.{cls.__name__}", case, sy, pre)

    def case_zero(sy):
        # a kernel with all three parts present, evaluated at a slow-rescaling point >= 1-eps
        rsl = RSL(lambda z, a: sy.U("reg", z), lambda z, a: sy.U("sing", z), lambda x, a: sy.U("loc", x))
        xi = sy.x * (1 + sy.m2c / sy.Q2)
        with rebind((conv, "scipy", _SI)):
            res = conv.convolution(rsl, xi, BasisStub(sy, 1, False, True))
        return [("value", res[0], 0), ("error", res[1], 0)]

    rep.cases += 1
    rep.check("C09/cc/zero-when-slow-rescaling-variable-exceeds-one", case_zero, sy, pre + [sy.x * (1 + sy.m2c / sy.Q2) >= 1 - eps], kind="lemma")


def sec_generator_masses(rep):
    """Every kernel a generator builds for the heavy flavour ihq carries the mass of *that* quark
    (its threshold / slow-rescaling variable / log is the one of m_ihq): m2hq (NC), labda =
    1/(1+m2/Q2) (CC), L = ln(Q2/m2) (asymptotic), m1sq/m2sq (intrinsic)."""
    from yadism.coefficient_functions import heavy, intrinsic, asy
    from . import sites as S

    rep.under_contract(heavy.kernels.generate, heavy.kernels.generate_missing, intrinsic.kernels.generate, asy.kernels.generate_missing_asy, asy.kernels.generate_heavy_asy, asy.kernels.generate_intrinsic_asy)
    sy = H.Sy(extra="z")
    pre = [sy.x > 0, sy.x <= 1, sy.Q2 > 0] + sy.mass_pre()
    masses = {4: "m2c", 5: "m2b", 6: "m2t"}
    gens = {
        "heavy.generate": lambda esf, nf, ihq: heavy.kernels.generate(esf, nf, ihq),
        "heavy.generate_missing": lambda esf, nf, ihq: heavy.kernels.generate_missing(esf, nf, ihq),
        "intrinsic.generate": lambda esf, nf, ihq: intrinsic.kernels.generate(esf, ihq),
        "asy.generate_missing_asy": lambda esf, nf, ihq: asy.kernels.generate_missing_asy(esf, nf, ihq, 2),
        "asy.generate_heavy_asy": lambda esf, nf, ihq: asy.kernels.generate_heavy_asy(esf, nf, 2, ihq),
        "asy.generate_intrinsic_asy": lambda esf, nf, ihq: asy.kernels.generate_intrinsic_asy(esf, nf, 1, ihq),
    }
    for gname, gen in gens.items():
        for process in ("NC", "CC"):
            for kind in ("F2", "FL", "F3"):
                for nf in (3, 4, 5):
                    for ihq in range(nf + 1, 7):
                        rep.cases += 1

                        def case(sy, gen=gen, process=process, kind=kind, nf=nf, ihq=ihq):
                            log = math.log if sy.is_numeric else (lambda v: R.lift(v).log())
                            cfg = H.make_configs(sy, process=process, projectile="neutrino" if process == "CC" else "electron", scheme="FFNS", nf_ff=nf, pto=2, pto_evol=2)
                            cfg.managers["coupling_constants"] = H.WStub(sy, process, 12 if process == "CC" else 11)
                            esf = H.FakeESF(sy.x, sy.Q2, H.obs_name(kind, "total"), cfg)
                            m2 = getattr(sy, masses[ihq])
                            with rebind(*S.stub_binds(sy)):
                                ks = list(gen(esf, nf, ihq))
                            out = []
                            for i, k in enumerate(ks):
                                d = k.coeff.__dict__
                                nm = f"kernel{i}:{type(k.coeff).__name__}"
                                if "m2hq" in d:
                                    out.append((f"{nm}/m2hq", d["m2hq"], m2))
                                if "labda" in d:
                                    out.append((f"{nm}/labda = 1/(1+m2/Q2)", d["labda"], 1 / (1 + m2 / sy.Q2)))
                                if "L" in d:
                                    out.append((f"{nm}/L = ln(Q2/m2)", d["L"], log(sy.Q2 / m2)))
                                if "m1sq" in d:
                                    out.append((f"{nm}/m1sq", d["m1sq"], m2))
                                if "m2sq" in d:
                                    out.append((f"{nm}/m2sq", d["m2sq"], m2))
                            return out or [("no kernels for this configuration", True, True)]

                        rep.check(f"C09/generator-mass/{gname}/{process}/{kind}/nf={nf}/ihq={ihq}", case, sy, pre, max_paths=16, exc_ok=lambda p: isinstance(p.exc, NotImplementedError))


def sec_cc_argument_only(rep):
    """The parts of a CC kernel are functions of their argument (the slow-rescaling point the
    convolution hands in), not of the Bjorken x of the owning ESF: d(part(z))/d(ESF.x) == 0."""
    from pvc.diff import d as dd
    from . import sites as S

    sy = H.Sy(extra="z")
    nc, cc, errors = heavy_nc_classes()
    pre = [sy.x > 0, sy.x <= 1, sy.z > 0, sy.z < 1, sy.Q2 > 0, sy.m2c > 0]
    for cls in sorted(cc, key=lambda c: (c.__module__, c.__name__)):
        kind = KINDMAP[cls.__module__.split(".")[-1].split("_")[0]]
        for order in (0, 1):
            rep.cases += 1

            def case(sy, cls=cls, kind=kind, order=order):
                site = S.Site("heavy", cls.__module__.split(".")[-1], cls, order, 3)
                with rebind(*S.stub_binds(sy)):
                    o = site.construct(sy)
                    rsl = o[order]()
                    if rsl is None:
                        return [("no kernel at this order", True, True)]
                    out = []
                    for part in ("reg", "sing", "loc"):
                        f = getattr(rsl, part)
                        if f is None:
                            continue
                        if sy.is_numeric:
                            import numpy as np

                            a = np.array(rsl.args[part], dtype=float)
                            v1 = f(sy.z, a)
                            sy2 = sy.numeric(dict(sy.env, x=sy.x * 0.83))
                            o2 = S.Site("heavy", cls.__module__.split(".")[-1], cls, order, 3).construct(sy2)
                            r2 = o2[order]()
                            v2 = getattr(r2, part)(sy.z, np.array(r2.args[part], dtype=float))
                            out.append((f"{part}(z) independent of ESF.x", v1 - v2, 0))
                        else:
                            v = f(sy.z, rsl.args[part])
                            out.append((f"{part}(z) independent of ESF.x", dd(R.lift(v), sy.x), 0))
                    return out

            rep.check(f"C09/cc/parts-depend-on-their-argument-only/{cls.__module__.split('.')[-1]}.{cls.__name__}/order={order}", case, sy, pre, max_paths=16)


def sec_selfcheck(rep, seed):
    from pvc.core import Report
    from canaries import c09 as canary
    import yadism.coefficient_functions.heavy.f2_nc as f2

    sy = H.Sy(extra="z")
    scratch = Report(rep.pid, rep.tier, seed)
    pre = [sy.x > 0, sy.x <= 1, sy.z > 0, sy.z < 1, sy.Q2 > 0, sy.m2c > 0]

    def case(sy):
        cfg = H.make_configs(sy, process="NC", scheme="FFNS", nf_ff=3, pto=1)
        esf = H.FakeESF(sy.x, sy.Q2, H.obs_name("F2", "charm"), cfg)
        with rebind((f2.GluonVV, "is_below_pair_threshold", canary.is_below_pair_threshold_strict)):
            o = f2.GluonVV(esf, 3, m2hq=sy.m2c)
            got = o.is_below_pair_threshold(sy.z)
        return [("iff", bool(got), bool(below(sy, sy.z, sy.m2c)))]

    scratch.check("canary", case, sy, pre)
    bad = [o for o in scratch.obs if o.status == REFUTED]
    rep.add(Ob("C09/selfcheck/canary-refuted", "canary", PROVED if bad else "error", "z3", 0, f"'<' instead of '<=' at the threshold: refuted={len(bad)}"))


def sec_point_use(rep):
    """'is evaluated at the slow-rescaling variable': what ESF.compute_local does with the value
    of convolution_point() -- it is both the convolution point handed to convolve_vector and the
    prefactor of the result, per kernel (symbolic cp_k).  This is the compute_local contract of C01,
    re-discharged here because the CC statement of C09 rests on it."""
    from . import c01

    c01.sec_compute_local(rep)


def sec_real_runs(rep, tier):
    """BOUNDED companions on real runs (real Runner, numpy masses, real LeProHQ, the assembled operator):
    rows of the non-heavy partons of F*_charm / F*_bottom are exactly zero at and below the thresholds
    and not all zero above them."""
    import numpy as np

    thorough = tier == "thorough"
    mc, mb = H.base_theory()["mc"], H.base_theory()["mb"]
    for hq, m, ihq in (("charm", mc, 4),) + ((("bottom", mb, 5),) if thorough else ()):
        m2 = float(np.power(m, 2))
        # NC: hadronic pair threshold Q2 (1-x)/x = 4 m2
        x0 = 0.3
        q_at = 4 * m2 * x0 / (1 - x0)
        pts = {"below": {"x": x0, "Q2": 0.6 * q_at}, "just below": {"x": x0, "Q2": q_at * (1 - 1e-12)}, "above": {"x": x0, "Q2": 3.0 * q_at}}
        for pto in (1, 2) if thorough else (1,):
            for kind in ("F2", "FL") + (("g1",) if thorough else ()):
                name = f"{kind}_{hq}"
                rep.cases += 1
                try:
                    ops, pids = H.real_ops(dict(FNS="FFNS", NfFF=ihq - 1, PTO=pto, PTODIS=pto), dict(prDIS="NC"), [name], list(pts.values()))
                    rows = [i for i, p in enumerate(pids) if abs(p) != ihq]
                    mx = {lab: max((float(np.max(np.abs(v[rows]))) for v, _ in ops[name][i].values()), default=0.0) for i, lab in enumerate(pts)}
                    ok = mx["below"] == 0.0 and mx["just below"] == 0.0 and mx["above"] > 0.0
                    detail = f"max |row of a non-{hq} parton| below / just below / above the pair threshold: {mx}"
                except Exception as e:  # noqa
                    ok, detail = False, f"{type(e).__name__}: {e}"
                o = ob_eval(f"C09/bounded/real run/FFNS NC {name} pto={pto}: non-{hq} rows vanish at and below Q2(1-x)/x = 4m2 and not above", ok, kind="bounded", detail=detail, inputs={} if ok else {"observable": name, "points": str(pts), "observed": detail}, replay={"confirmed": True, "python": "contracts.harness.real_ops(FFNS, NC, ...)"})
                o.bounded = True
                rep.add(o)
        # CC: slow rescaling chi = x (1 + m2/Q2)
        ptc = {"chi>1": {"x": 0.8, "Q2": 2.0 * m2}, "chi=1+": {"x": 0.5, "Q2": m2 * (1 - 1e-9)}, "chi<1": {"x": 0.3, "Q2": 4.0 * m2}}
        for kind in ("F2", "F3") + (("FL",) if thorough else ()):
            name = f"{kind}_{hq}"
            rep.cases += 1
            try:
                ops, pids = H.real_ops(dict(FNS="FFNS", NfFF=ihq - 1, PTO=1, PTODIS=1), dict(prDIS="CC", ProjectileDIS="neutrino"), [name], list(ptc.values()))
                rows = [i for i, p in enumerate(pids) if abs(p) != ihq]
                mx = {lab: max((float(np.max(np.abs(v[rows]))) for v, _ in ops[name][i].values()), default=0.0) for i, lab in enumerate(ptc)}
                ok = mx["chi>1"] == 0.0 and mx["chi=1+"] == 0.0 and mx["chi<1"] > 0.0
                detail = f"max |row of a non-{hq} parton| for chi > 1 / chi just above 1 / chi < 1: {mx}"
            except Exception as e:  # noqa
                ok, detail = False, f"{type(e).__name__}: {e}"
            o = ob_eval(f"C09/bounded/real run/FFNS CC {name} NLO: non-{hq} rows vanish for x(1+m2/Q2) > 1 and not below", ok, kind="bounded", detail=detail, inputs={} if ok else {"observable": name, "points": str(ptc), "observed": detail}, replay={"confirmed": True, "python": "contracts.harness.real_ops(FFNS, CC, ...)"})
            o.bounded = True
            rep.add(o)


def run(rep, tier, seed, only=None):
    rep.assume(
        "A-ext: LeProHQ and the N3LO splines are uninterpreted (contract stubs that record being reached)",
        "conv.convolution is exercised with an eko basis-function stub (A-eko) and scipy.integrate.quad must not be reached on the zero paths",
    )
    rep.stub("LeProHQ.* -> uninterpreted recording stub", "heavy.n3lo.interpolator -> uninterpreted recording stub", "scipy.integrate.quad -> must-not-be-called stub", "eko BasisFunction -> BasisStub")
    for nm, f in (("predicate", sec_threshold_predicate), ("decorator", sec_decorator), ("sharedesf", sec_decorator_shared_esf), ("closures", sec_closures), ("cc", sec_cc), ("masses", sec_generator_masses), ("ccarg", sec_cc_argument_only), ("point_use", sec_point_use), ("realruns", lambda r: sec_real_runs(r, tier))):
        if only and only not in nm:
            continue
        rep.add(guarded(f"C09/{nm}", lambda f=f: (f(rep), [])[1]))
    if not only and rep.replay_target is None:
        rep.add(guarded("C09/selfcheck", lambda: (sec_selfcheck(rep, seed), [])[1]))
    rep.extra["rule"] = "cases = every heavy NC class (module scan) x order x nf, and every heavy CC class; x, z, Q2, m2 symbolic on both sides of and exactly at the threshold"
