"""C06 -- number of active flavours follows the thresholds and the scheme.

Functions under contract: input.compatibility.update_fns, the threshold/Atlas part of
Runner.__init__, Combiner.__init__, the nf argument handed to the scale-variation manager by
EvaluatedStructureFunction.compute_local.  eko's nf_default (+ numpy's digitize underneath) is
not assumed: the real function is *run symbolically in Q2* on the real Atlas that the real
Runner.__init__ builds for each scheme, so the boundary convention is derived, not postulated.
"""
from __future__ import annotations

import ast
import copy
import math
import os

import numpy as np

from pvc.core import ob_eval, ob_smt, guarded, Ob, PROVED, REFUTED, UNDECIDED
from pvc.explore import explore
from pvc.stubs import rebind
from pvc.sym import R, And, Not, compare

from . import harness as H
from pvc import boot

LEVEL = "proof"
HQ = "cbt"


def spec_update_fns(fns, nf, before):
    """Expected k?Thr / ZM? after update_fns (DESIGN C06)."""
    out = {}
    for k, fl in enumerate(HQ):
        q = k + 4
        if fns == "ZM-VFNS":
            out[f"k{fl}Thr"] = before[f"k{fl}Thr"]
            out[f"ZM{fl}"] = True
        elif fns in ("FFNS", "FFN0"):
            out[f"k{fl}Thr"], out[f"ZM{fl}"] = (0.0, True) if q <= nf else (math.inf, False)
        elif fns in ("FONLL-FFNS", "FONLL-FFN0"):
            if q <= nf:
                out[f"k{fl}Thr"], out[f"ZM{fl}"] = 0.0, True
            elif q == nf + 1:
                out[f"k{fl}Thr"], out[f"ZM{fl}"] = math.inf, False
            else:
                out[f"k{fl}Thr"], out[f"ZM{fl}"] = math.inf, True
    return out


def sec_update_fns(rep):
    from yadism.input import compatibility as comp

    rep.under_contract(comp.update_fns)
    sy = H.Sy(extra="kc kb kt")
    for fns in H.SCHEMES + ("FFNS3", "", "zm-vfns"):
        for nf in (3, 4, 5, 6):
            for opt in ("absent", "None", "given", "legacy-entries"):
                rep.cases += 1

                def case(sy, fns=fns, nf=nf, opt=opt):
                    th = {"FNS": fns, "NfFF": nf, "PTO": 2, "kcThr": sy.kc, "kbThr": sy.kb, "ktThr": sy.kt, "mc": 1.5}
                    if opt == "legacy-entries":
                        # entries of older cards that the documentation does not list (kDIS*Thr of the
                        # benchmark cards, comments, ...) must not decide anything: the table is a function
                        # of FNS, NfFF and k*Thr alone
                        th.update(kDIScThr=2.5, kDISbThr=0.25, kDIStThr=7.0, Comments="theory 200", ID=200, kThr=3.0)
                    if opt == "None":
                        th["PTODIS"], th["FONLLParts"] = None, None
                    elif opt == "given":
                        th["PTODIS"], th["FONLLParts"] = 1, "massive"
                    before = dict(th)
                    comp.update_fns(th)
                    exp = spec_update_fns(fns, nf, before)
                    out = []
                    for k, v in exp.items():
                        if isinstance(v, float) and math.isinf(v):
                            out.append((k, th[k] == math.inf, True))
                        else:
                            out.append((k, th[k], v))
                    if opt == "legacy-entries":
                        out.append(("frame: legacy entries left as they are", {k: th.get(k) for k in ("kDIScThr", "kDISbThr", "kDIStThr", "Comments", "ID", "kThr")}, {"kDIScThr": 2.5, "kDISbThr": 0.25, "kDIStThr": 7.0, "Comments": "theory 200", "ID": 200, "kThr": 3.0}))
                    out.append(("PTODIS", th["PTODIS"], 1 if opt == "given" else 2))
                    out.append(("FONLLParts", th["FONLLParts"], "massive" if opt == "given" else "full"))
                    out.append(("frame: other keys untouched", {k: th[k] for k in ("FNS", "NfFF", "PTO", "mc")}, {k: before[k] for k in ("FNS", "NfFF", "PTO", "mc")}))
                    out.append(("frame: no new keys", sorted(set(th) - set(before)), sorted({"ZMc", "ZMb", "ZMt", "PTODIS", "FONLLParts"} - set(before))))
                    return out

                known = fns in H.SCHEMES
                rep.check(f"C06/update_fns/post/{fns or 'empty'}/NfFF={nf}/{opt}", case, sy, exc_ok=None if known else (lambda p: isinstance(p.exc, ValueError)))


def _cards(fns, nf_ff, sy=None, **over):
    th = H.base_theory(FNS=fns, NfFF=nf_ff, PTO=1, **over)
    ob = H.base_obs()
    if sy is not None:
        th.update(mc=sy.mc, mb=sy.mb, mt=sy.mt, kcThr=sy.kc, kbThr=sy.kb, ktThr=sy.kt)
    return th, ob


def sec_runner_atlas(rep):
    """Runner.__init__: the Atlas is built from the *updated* card: walls [0, mc2 kc2, mb2 kb2, mt2 kt2, inf];
    theory parameters scheme / nf_ff / ZMq / m2hq / pto come from the documented keys."""
    from yadism import runner

    rep.under_contract(runner.Runner.__init__)
    sy = H.Sy(extra="mc mb mt kc kb kt")

    def case_zm(sy):
        th, ob = _cards("ZM-VFNS", 3, sy)
        r = runner.Runner(th, ob)
        walls = r.configs.managers["threshold"].walls
        exp = [0, sy.mc**2 * sy.kc**2, sy.mb**2 * sy.kb**2, sy.mt**2 * sy.kt**2]
        out = [("n-walls", len(walls), 5), ("last-wall-inf", walls[-1] == math.inf, True)]
        out += [(f"wall{i}", walls[i], exp[i]) for i in range(4)]
        out += [(f"m2hq{i}", r.configs.theory["m2hq"][i], [sy.mc, sy.mb, sy.mt][i] ** 2) for i in range(3)]
        out.append(("origin", tuple(r.configs.managers["threshold"].origin), (th["Q0"] ** 2, th["nf0"])))
        return out

    rep.cases += 1
    rep.check("C06/Runner.__init__/atlas/ZM-VFNS(symbolic masses and ratios)", case_zm, sy)

    for fns in H.SCHEMES:
        for nf_ff in (3, 4, 5):
            rep.cases += 1

            def case(sy, fns=fns, nf_ff=nf_ff):
                th, ob = _cards(fns, nf_ff, kcThr=1.3, kbThr=0.7, ktThr=2.0)
                r = runner.Runner(th, ob)
                walls = r.configs.managers["threshold"].walls
                upd = spec_update_fns(fns, nf_ff, th)
                exp = [0] + [th[f"m{fl}"] ** 2 * upd[f"k{fl}Thr"] ** 2 for fl in HQ] + [math.inf]
                t = r.configs.theory
                wl = [("n-walls", len(walls), 5)]
                for i, (w, e) in enumerate(zip(walls, exp)):
                    if math.isinf(float(e)) or math.isinf(float(w)):
                        wl.append((f"wall{i}-inf", float(w), float(e)) if False else (f"wall{i}-inf", math.isinf(float(w)) and math.isinf(float(e)), True))
                    else:
                        wl.append((f"wall{i}", float(w), float(e)))
                return wl + [
                    ("ZMq", tuple(t["ZMq"]), tuple(upd[f"ZM{fl}"] for fl in HQ)),
                    ("scheme", t["scheme"], fns), ("nf_ff", t["nf_ff"], nf_ff), ("pto", t["pto"], 1), ("pto_evol", t["pto_evol"], 1),
                    ("m2hq", [float(v) for v in t["m2hq"]], [th[f"m{fl}"] ** 2 for fl in HQ]),
                    ("caller-card-not-updated", (th["kcThr"], th["kbThr"], th["ktThr"], "ZMc" in th), (1.3, 0.7, 2.0, False)),
                ]

            rep.check(f"C06/Runner.__init__/atlas/{fns}/NfFF={nf_ff}", case, sy)


def count_goal(Q2, scales, nf):
    """nf = 3 + #{q: s_q <= Q2} for non-decreasing scales."""
    k = nf - 3
    if k < 0 or k > 3:
        return False
    conds = []
    for i, s in enumerate(scales):
        if i < k:
            if isinstance(s, float) and math.isinf(s):
                return False
            conds.append(compare("<=", R.lift(s), Q2) if not (isinstance(s, (int, float)) and s <= 0) else True)
        else:
            if isinstance(s, float) and math.isinf(s):
                continue
            conds.append(compare("<", Q2, R.lift(s)))
    return And(*conds)


def sec_nf(rep):
    """Combiner.__init__: nf = nf_default(esf.Q2, esf.info.threshold), explored for ALL Q2 > 0 through
    the real eko/numpy code on the real Atlas of each scheme."""
    import yadism.coefficient_functions as cf
    from yadism import runner

    rep.under_contract(cf.Combiner.__init__)
    sy = H.Sy()
    pre = [sy.Q2 > 0]
    for fns in H.SCHEMES:
        for nf_ff in (3, 4, 5):
            for masses in ((1.51, 4.92, 172.5), (1.0, 1.0, 50.0)):  # second: coinciding thresholds
                rep.cases += 1
                th, ob = _cards(fns, nf_ff, mc=masses[0], mb=masses[1], mt=masses[2], kcThr=1.0, kbThr=1.0, ktThr=1.0)
                r = runner.Runner(th, ob)
                scales = [float(w) for w in r.configs.managers["threshold"].walls[1:4]]
                cfg = r.configs
                name = f"C06/Combiner.__init__/nf/{fns}/NfFF={nf_ff}/m={masses}"
                if rep.replay_target is not None:
                    continue

                def build():
                    esf = H.FakeESF(sy.x, sy.Q2, H.obs_name("F2", "total"), cfg)
                    c = cf.Combiner(esf)
                    return c.nf, c.masses, c.scheme

                try:
                    paths = explore(build, pre)
                except Exception as e:  # noqa
                    rep.add(Ob(name, "post", UNDECIDED, "engine", 0, f"{type(e).__name__}: {e}"))
                    continue
                rep.paths += len(paths)
                fixed = fns != "ZM-VFNS"
                for i, p in enumerate(paths):
                    if p.exc is not None:
                        rep.add(ob_eval(f"{name}/path{i}/no-exception", False, detail=repr(p.exc)))
                        continue
                    nf, masses_flag, scheme = p.result
                    if fixed:
                        rep.add(ob_eval(f"{name}/path{i}/nf=NfFF-at-every-Q2", nf == nf_ff, detail=f"nf={nf} on path {p.pc}", inputs={} if nf == nf_ff else {"nf": nf, "path": str(p.pc)}))
                    else:
                        rep.add(ob_smt(f"{name}/path{i}/nf=3+#(scales<=Q2)", pre + p.pc, count_goal(sy.Q2, scales, nf)))
                    upd = spec_update_fns(fns, nf_ff, th)
                    rep.add(ob_eval(f"{name}/path{i}/masses-flags", masses_flag == {4 + k: (not upd[f"ZM{fl}"]) for k, fl in enumerate(HQ)} and scheme == fns))
                if not fixed:
                    # cover: every count 3..6 is reached (non-vacuity), incl. the equality paths
                    reached = sorted({p.result[0] for p in paths if p.exc is None})
                    distinct = sorted({3 + sum(1 for s in scales if s <= q) for q in [0.5] + [s for s in scales] + [s * 1.5 for s in scales]})
                    rep.add(ob_eval(f"{name}/cover/all-flavour-numbers-reached", reached == distinct, kind="cover", detail=f"reached {reached}"))
                    eq_paths = sum(1 for p in paths if any(l.op == "not" for l in p.pc) and len(p.pc) >= 2)
                    rep.add(ob_eval(f"{name}/cover/equality-paths-present", eq_paths >= 1, kind="cover", detail=f"{len(paths)} paths"))
    rep.sample({"nf": "ZM-VFNS, walls [0, 2.28, 24.2, 29756, inf]: on each of the explored paths of eko.nf_default(Q2) (real numpy searchsorted on a symbolic Q2) z3 proves path-condition => nf = 3 + #{s_q <= Q2}; Q2 == s_q exactly is its own path and counts the quark"})

    # matching scales that are NOT ordered (a large kcThr lifts the charm scale above the bottom one):
    # the count is still '#scales <= Q2' -- or the request is refused; never a silently different number
    import itertools

    from pvc.sym import Or as _Or

    for ks in ((4.0, 1.0, 1.0), (1.0, 50.0, 1.0)):
        rep.cases += 1
        th, ob = _cards("ZM-VFNS", 3, mc=1.5, mb=4.5, mt=172.5, kcThr=ks[0], kbThr=ks[1], ktThr=ks[2])
        name = f"C06/Combiner.__init__/nf/ZM-VFNS/unordered-matching-scales(kThr={ks})"
        try:
            r = runner.Runner(th, ob)
            cfg = r.configs
            scales = [float(w) for w in (th["mc"] ** 2 * ks[0] ** 2, th["mb"] ** 2 * ks[1] ** 2, th["mt"] ** 2 * ks[2] ** 2)]
        except ValueError as e:
            rep.add(ob_eval(name + "/refused-at-construction", True, detail=repr(e)))
            continue

        def build(cfg=cfg):
            esf = H.FakeESF(sy.x, sy.Q2, H.obs_name("F2", "total"), cfg)
            return cf.Combiner(esf).nf

        try:
            paths = explore(build, pre)
        except Exception as e:  # noqa
            rep.add(Ob(name, "post", UNDECIDED, "engine", 0, f"{type(e).__name__}: {e}"))
            continue
        for i, p in enumerate(paths):
            if p.exc is not None:
                rep.add(ob_eval(f"{name}/path{i}/refused with ValueError", isinstance(p.exc, ValueError), detail=repr(p.exc)))
                continue
            k = p.result - 3
            alts = []
            for S in itertools.combinations(range(3), k) if 0 <= k <= 3 else []:
                alts.append(And(*[compare("<=", R.lift(scales[j]), sy.Q2) if j in S else compare("<", sy.Q2, R.lift(scales[j])) for j in range(3)]))
            rep.add(ob_smt(f"{name}/path{i}/nf = 3 + #(scales <= Q2)", pre + p.pc, _Or(*alts) if alts else False))

    # the arguments handed to nf_default are exactly (esf.Q2, configs.threshold)
    rec = []
    cfg = H.make_configs(sy, scheme="ZM-VFNS")
    esf = H.FakeESF(sy.x, sy.Q2, H.obs_name("F2", "total"), cfg)

    def build_rec():
        with rebind((cf, "nf_default", lambda q2, thr: rec.append((q2, thr)) or 4)):
            return cf.Combiner(esf).nf

    try:
        nfs = {p.result for p in explore(build_rec, pre) if p.exc is None}
    except Exception:  # noqa
        nfs = set()
    rep.add(ob_eval("C06/Combiner.__init__/pre-at-call/nf_default(esf.Q2, configs.threshold)", len(rec) >= 1 and all(r_[0] is sy.Q2 and r_[1] is cfg.managers["threshold"] for r_ in rec) and nfs == {4}, kind="pre-at-call", detail=f"{len(rec)} calls, nf {sorted(nfs)}"))


def sec_sv_nf(rep):
    """compute_local hands cfc.nf (the same number) to the scale-variation manager."""
    from yadism.esf import esf as esfmod
    import yadism.coefficient_functions as cf

    rep.under_contract(esfmod.EvaluatedStructureFunction.compute_local)
    for chan in ("non-singlet", "intrinsic"):
        for nf in (3, 4, 5, 6):
            rep.cases += 1
            seen = []

            class SV:
                def apply_common_scale_variations(self, ko, n):
                    seen.append(("common", n))
                    return []

                def apply_diff_scale_variations(self, ko, n):
                    seen.append(("diff", n))
                    return []

            class Coeff(dict):
                # the kernel's own flavour number differs from the Combiner's for intrinsic kernels
                # (built with ihq - 1): the scale-variation manager must get the Combiner's
                def convolution_point(self):
                    return 0.3

            Coeff.nf = nf - 1 if chan == "intrinsic" else nf + 10

            class K:
                channel = chan
                partons = {1: 1.0}
                coeff = Coeff({0: lambda: None, 1: lambda: None})

                def has_order(self, o):
                    return True

            class Comb:
                def __init__(self, e):
                    self.nf = nf

                def collect_elems(self):
                    return [K()]

            sy = H.Sy()
            cfg = H.make_configs(sy, symbolic=False, pto=1, sv=SV())
            e = esfmod.EvaluatedStructureFunction({"x": 0.3, "Q2": 10.0}, H.obs_name("F2", "total"), cfg)
            with rebind((cf, "Combiner", Comb)):
                e.compute_local()
            exp = [("common", nf), ("diff", nf)] if chan != "intrinsic" else [("diff", nf)]
            rep.add(ob_eval(f"C06/compute_local/nf-passed-to-sv-manager/{chan}/nf={nf}", seen == exp, detail=str(seen)))


def _kernel_nf_worker(sub, c):
    """One lattice cell: every kernel the REAL Combiner collects carries the Combiner's nf."""
    sy = H.Sy().numeric({"x": 0.01, "Q2": 5.0e4, "m2c": 2.0, "m2b": 20.0, "m2t": 3.0e4})
    name = "C06/kernel-nf/" + H.cell_name(c)
    fl11_nfs = []
    try:
        cfg = H.cell_configs(sy, c)
        cc = cfg.managers["coupling_constants"]
        orig_fl11 = cc.get_fl11_weight

        def rec_fl11(q, Q2, nf_, ct):
            fl11_nfs.append(nf_)
            return orig_fl11(q, Q2, nf_, ct)

        cc.get_fl11_weight = rec_fl11
        ks, comb = H.collect(sy, cfg, c["kind"], c["flavor"], c["nf"])
    except (NotImplementedError, ValueError):
        sub.extra["cells_rejected"] = sub.extra.get("cells_rejected", 0) + 1  # C16's matter
        return
    sub.cases += 1
    bad = []
    for k in ks:
        fam = type(k.coeff).__module__.split(".")[2]
        knf = getattr(k.coeff, "nf", None)
        pids = sorted({abs(p) for p in k.partons})
        if fam == "intrinsic":
            # heavy-quark-initiated kernels are built for the quark itself: nf = ihq - 1 by design
            exp = (max(pids) - 1) if pids else knf
        else:
            exp = comb.nf
        if knf != exp:
            bad.append((type(k.coeff).__module__.split(".", 2)[2] + "." + type(k.coeff).__name__, knf, exp))
        if fam != "intrinsic" and "Intrinsic" not in type(k.coeff).__name__ and any(p_ > comb.nf for p_ in pids if p_ <= 6):
            # only heavy-quark-initiated kernels may carry a weight for a quark above the nf active ones
            bad.append((type(k.coeff).__module__.split(".", 2)[2] + "." + type(k.coeff).__name__ + " incoming quarks", [p_ for p_ in pids if p_ <= 6], f"<= {comb.nf}"))
        if fam == "heavy" and type(k.coeff).__name__.startswith("Singlet") and pids != list(range(1, comb.nf + 1)):
            bad.append((type(k.coeff).__name__ + " partons", pids, list(range(1, comb.nf + 1))))
    # the flavour average in the gluon / singlet / valence weights of the light family runs over exactly the
    # nf active quarks (the light gluon and singlet coefficients carry the matching factor nf): the singlet
    # and valence weights span the quarks 1..nf, each equal (up to the sign of the valence) to the gluon
    # weight, and in EM/NC the gluon weight is the sum of the quark weights of its non-singlet partner / nf
    for i, k in enumerate(ks):
        if type(k.coeff).__module__.split(".")[2] != "light":
            continue
        cn = type(k.coeff).__name__
        prev = ks[i - 1] if i else None
        prev_light = prev is not None and type(prev.coeff).__module__.split(".")[2] == "light"
        if cn == "Gluon" and c["process"] != "CC":
            if not (prev_light and type(prev.coeff).__name__.startswith("NonSinglet")):
                bad.append(("light Gluon without its non-singlet partner", None, None))
            else:
                g, tot = float(k.partons[21]), sum(float(v) for v in prev.partons.values()) / 2
                if abs(g * comb.nf - tot) > 1e-12 * max(1.0, abs(tot)):
                    bad.append(("light Gluon weight x nf", g * comb.nf, f"sum of the quark weights {tot}"))
        if cn in ("Singlet", "Valence"):
            span = sorted(p_ for p_ in k.partons if p_ > 0)
            if span != list(range(1, comb.nf + 1)) or sorted(-p_ for p_ in k.partons if p_ < 0) != span:
                bad.append((f"light {cn} quarks", sorted(k.partons), f"+-1..+-{comb.nf}"))
            if prev_light and type(prev.coeff).__name__ == "Gluon" and any(abs(abs(float(v)) - abs(float(prev.partons[21]))) > 1e-12 for v in k.partons.values()):
                bad.append((f"light {cn} weights", sorted(set(float(v) for v in k.partons.values())), f"+-{float(prev.partons[21])} (the gluon weight)"))
    wrong_fl11 = sorted({n for n in fl11_nfs if n != comb.nf})
    if wrong_fl11:
        bad.append(("get_fl11_weight(nf=...)", wrong_fl11, comb.nf))
    sub.add(ob_eval(name + f"/every kernel is built with nf={comb.nf} (heavy-quark-initiated ones with ihq-1); heavy singlet weights span the nf light quarks; incoming quarks of every other kernel are among the nf active ones; the flavour averages of the light gluon / singlet / valence weights and the flavour trace of the fl11 weights run over nf", comb.nf == c["nf"] and not bad, detail=f"{len(ks)} kernels" + (f"; offending (class, nf used, nf expected): {bad[:4]}" if bad else ""), inputs={} if not bad else {"cell": H.cell_name(c), "offending": str(bad[:4])}))


def sec_kernel_nf(rep, tier):
    """'the coefficient functions at Q2 use exactly that number': over the configuration lattice the
    number handed to every coefficient-function object (and the flavour range of the heavy singlet
    weights) is the Combiner's nf.  Concrete kinematics suffice: the collectors branch on discrete
    data only once nf is fixed (C20/C07 read-set lemmas)."""
    import yadism.coefficient_functions as cf

    rep.under_contract(cf.Combiner.collect_elems, cf.Combiner.heavy_components, cf.Combiner.light_component)
    cells = list(H.lattice(tier))
    from pvc.core import parallel

    parallel(rep, cells, _kernel_nf_worker)


def sec_sv_history(rep):
    """'The same number governs the beta-function coefficients': one scale-variation manager asked
    for a sequence of flavour numbers answers each request with that number's coefficients
    (contract shared with C05, re-discharged here)."""
    from . import c05

    n0 = len(rep.obs)
    c05.sec_tables(rep)
    keep = [o for o in rep.obs[n0:] if "/history/" in o.name or "/ren_coeffs/" in o.name]
    del rep.obs[n0:]
    for o in keep:
        o.name = o.name.replace("C05/", "C06/scale-variations/", 1)
        rep.obs.append(o)


def sec_readset(rep):
    """Read-set lemma (AST): the Atlas stored under 'threshold' is read in Combiner.__init__ only, so
    results depend on the thresholds only through nf."""
    root = os.path.join(boot.SRC, "yadism")
    hits = []
    for dp, _, fs in os.walk(root):
        for f in fs:
            if not f.endswith(".py"):
                continue
            path = os.path.join(dp, f)
            tree = ast.parse(open(path).read())
            for fn in ast.walk(tree):
                if isinstance(fn, (ast.FunctionDef, ast.AsyncFunctionDef)):
                    for node in ast.walk(fn):
                        hit = (isinstance(node, ast.Attribute) and node.attr == "threshold") or (isinstance(node, ast.Constant) and node.value == "threshold") or (isinstance(node, ast.keyword) and node.arg == "threshold")
                        if hit:
                            hits.append((os.path.relpath(path, root), fn.name, type(node).__name__))
    exp = {("coefficient_functions/__init__.py", "__init__", "Attribute"), ("runner.py", "__init__", "keyword")}
    rep.cases += 1
    rep.add(ob_eval("C06/read-set/threshold-read-only-in-Combiner.__init__", set(hits) == exp, kind="frame", detail=f"occurrences: {sorted(set(hits))}", inputs={} if set(hits) == exp else {"occurrences": sorted(set(hits))}))


def sec_selfcheck(rep, seed):
    """Canary: a strict '<' boundary convention must be refuted by the count lemma."""
    sy = H.Sy()
    scales = [2.0, 20.0, 3e4]

    def wrong_nf(q2):
        # counts s_q < Q2 instead of s_q <= Q2
        return 3 + sum(1 for s in scales if bool(s < q2))

    paths = explore(lambda: wrong_nf(sy.Q2), [sy.Q2 > 0])
    sts = [ob_smt("canary", [sy.Q2 > 0] + p.pc, count_goal(sy.Q2, scales, p.result)).status for p in paths]
    rep.add(Ob("C06/selfcheck/canary-strict-boundary-refuted", "canary", PROVED if REFUTED in sts else "error", "z3", 0, f"path verdicts {sts}"))


def sec_real_runs(rep, tier):
    """BOUNDED companions on real runs: the number of populated quark rows of the LO F2_light operator
    (= the nf the coefficient functions used) is 3 + #{matching scales (m k)^2 <= Q2} in ZM-VFNS, for
    threshold ratios different from 1 and Q2 below / exactly at / above every scale; NfFF at every Q2 in
    the fixed-flavour schemes; and the operator depends on the thresholds only through that number."""
    import numpy as np

    th0 = H.base_theory()
    masses = [th0["mc"], th0["mb"], th0["mt"]]
    thorough = tier == "thorough"
    ratio_sets = [(1.0, 1.0, 1.0), (0.5, 0.5, 1.0), (1.2, 1.3, 0.9)] + ([(2.0, 2.0, 2.0), (0.7, 3.0, 0.2)] if thorough else [])

    def populated(orders, pids):
        v = orders[(0, 0, 0, 0)][0]
        return sorted(abs(p) for i, p in enumerate(pids) if 1 <= p <= 6 and float(np.max(np.abs(v[i]))) > 0)

    for ks in ratio_sets:
        scales = [float(np.power(m, 2) * np.power(k, 2)) for m, k in zip(masses, ks)]  # as the library forms them
        q2s = []
        for s_ in scales:
            q2s += [float(np.nextafter(s_, 0)), s_, float(np.nextafter(s_, np.inf)), 0.7 * s_, 1.4 * s_]
        q2s = [q for q in q2s if q > 0.5]
        pts = [{"x": 0.1, "Q2": q} for q in q2s]
        rep.cases += 1
        try:
            ops, pids = H.real_ops(dict(FNS="ZM-VFNS", NfFF=4, PTO=0, PTODIS=0, kcThr=ks[0], kbThr=ks[1], ktThr=ks[2]), dict(prDIS="EM"), ["F2_light"], pts)
            bad = []
            for q, o_ in zip(q2s, ops["F2_light"]):
                want = 3 + sum(1 for s_ in scales if s_ <= q)
                got = populated(o_, pids)
                if got != list(range(1, want + 1)):
                    bad.append((q, want, got))
            ok, detail = not bad, f"{len(q2s)} virtualities around the scales {scales}; mismatches (Q2, expected nf, populated quark rows): {bad[:3]}"
        except Exception as e:  # noqa
            ok, detail = False, f"{type(e).__name__}: {e}"
        o = ob_eval(f"C06/bounded/real run/ZM-VFNS thresholds k={ks}: nf(Q2) = 3 + #scales <= Q2 (below, at, above each scale)", ok, kind="bounded", detail=detail, inputs={} if ok else {"threshold_ratios": str(ks), "observed": detail}, replay={"confirmed": True, "python": "contracts.harness.real_ops(ZM-VFNS, LO, F2_light)"})
        o.bounded = True
        rep.add(o)
    # fixed flavour number: NfFF at every Q2, whatever the card's ratios
    for scheme in ("FFNS", "FONLL-FFNS") + (("FFN0",) if thorough else ()):
        for nf_ff in (3, 4, 5):
            if scheme.startswith("FONLL") and nf_ff == 3 and not thorough:
                continue
            rep.cases += 1
            q2s = [0.8, 2.0, float(np.power(masses[0], 2)), 10.0, float(np.power(masses[1], 2) * 1.69), 40.0, 1.0e5]
            try:
                ops, pids = H.real_ops(dict(FNS=scheme, NfFF=nf_ff, PTO=0, PTODIS=0, kcThr=1.2, kbThr=1.3, ktThr=0.9), dict(prDIS="EM"), ["F2_light"], [{"x": 0.1, "Q2": q} for q in q2s])
                bad = [(q, populated(o_, pids)) for q, o_ in zip(q2s, ops["F2_light"]) if populated(o_, pids) != list(range(1, nf_ff + 1))]
                ok, detail = not bad, f"mismatches (Q2, populated quark rows): {bad[:3]}"
            except NotImplementedError as e:
                ok, detail = True, f"explicitly unsupported: {e}"
            except Exception as e:  # noqa
                ok, detail = False, f"{type(e).__name__}: {e}"
            o = ob_eval(f"C06/bounded/real run/{scheme} NfFF={nf_ff}: {nf_ff} light flavours at every Q2 (ratios 1.2, 1.3, 0.9 in the card)", ok, kind="bounded", detail=detail, inputs={} if ok else {"scheme": scheme, "NfFF": nf_ff, "observed": detail})
            o.bounded = True
            rep.add(o)
    # dependence on the thresholds only through nf: two cards with the same nf at the point agree bit for bit
    rep.cases += 1
    try:
        pt = [{"x": 0.1, "Q2": 30.0}]
        a, _ = H.real_ops(dict(FNS="ZM-VFNS", NfFF=4, PTO=1, PTODIS=1, kbThr=1.2), dict(prDIS="NC"), ["F2_light", "F3_total"], pt)   # (4.92*1.2)^2 = 34.9 > 30: nf = 4
        b, _ = H.real_ops(dict(FNS="ZM-VFNS", NfFF=4, PTO=1, PTODIS=1, mb=6.5, kcThr=0.8), dict(prDIS="NC"), ["F2_light", "F3_total"], pt)  # 42 > 30, (1.51*.8)^2 < 30: nf = 4
        worst = max(H.ops_deviation(a[n], b[n])[0] for n in a)
        ok, detail = worst == 0.0, f"max relative deviation {worst:.2e}"
    except Exception as e:  # noqa
        ok, detail = False, f"{type(e).__name__}: {e}"
    o = ob_eval("C06/bounded/real run/ZM-VFNS NLO: two cards with different masses and ratios but the same nf at the point give identical operators", ok, kind="bounded", detail=detail, inputs={} if ok else {"observed": detail})
    o.bounded = True
    rep.add(o)


def run(rep, tier, seed, only=None):
    rep.assume(
        "eko.matchings.nf_default / numpy.searchsorted are executed (not modelled) on symbolic Q2 with the concrete walls of each scheme; for arbitrary (unsorted) walls numpy's digitize contract is assumed",
        "floats as reals: the threshold is by definition the computed double m^2*k^2, only comparisons follow",
        "Runner.__init__ is run for real (eko interpolator, Atlas); symbolic masses only in ZM-VFNS (other schemes multiply by inf thresholds)",
    )
    for nm, f in (("update_fns", sec_update_fns), ("runner", sec_runner_atlas), ("nf", sec_nf), ("sv", sec_sv_nf), ("svhistory", sec_sv_history), ("svoperators", lambda r: __import__("contracts.c05", fromlist=["x"]).sec_compute_raw(r)), ("readset", sec_readset), ("kernelnf", lambda r: sec_kernel_nf(r, tier)), ("realruns", lambda r: sec_real_runs(r, tier))):
        if only and only not in nm:
            continue
        rep.add(guarded(f"C06/{nm}", lambda f=f: (f(rep), [])[1]))
    if not only and rep.replay_target is None:
        rep.add(guarded("C06/selfcheck", lambda: (sec_selfcheck(rep, seed), [])[1]))
    rep.extra["rule"] = "cases = scheme x NfFF x optional-key presence x mass pattern; Q2 symbolic over all positive reals (paths include Q2 exactly at each threshold)"
