"""C12 -- nuclear target is an isospin rotation of up and down.

Functions under contract: Combiner.{apply_isospin, drop_empty, collect_elems},
input.compatibility.update_target, and -- as an ownership/aliasing postcondition -- every
kernel generator reached by Combiner.collect over the configuration lattice.

Top-level postcondition (from the property statement): for every kernel, contracting the
rotated weights with arbitrary parton values f equals contracting the original weights with
u, d (ubar, dbar) replaced by (Z u+(A-Z) d)/A and (Z d+(A-Z) u)/A.
"""
from __future__ import annotations

import copy

import numpy as np
from fractions import Fraction as Fr

from pvc.core import ob_eval, guarded, Ob, PROVED, REFUTED, UNDECIDED
from pvc.stubs import rebind
from pvc.sym import R, Not, Eq

from . import harness as H

LEVEL = "proof"
PIDS = [-6, -5, -4, -3, -2, -1, 21, 1, 2, 3, 4, 5, 6]


def mixed(sy, f):
    """PDFs of the target: u,d (and antiquarks) replaced by their isospin mixtures."""
    z, a = sy.Zt, sy.At
    g = dict(f)
    for s in (1, -1):
        u, d = f[2 * s], f[1 * s]
        g[2 * s] = (z * u + (a - z) * d) / a
        g[1 * s] = (z * d + (a - z) * u) / a
    return g


def contraction(weights, f):
    tot = 0
    for p, w in weights.items():
        tot = tot + w * f[p]
    return tot


def sec_apply_isospin(rep):
    """Unit contract (requires pairwise distinct partons dictionaries)."""
    import yadism.coefficient_functions as cf
    from yadism.coefficient_functions.kernels import Kernel

    rep.under_contract(cf.Combiner.apply_isospin)
    sy = H.Sy()
    pre = [Not(Eq(sy.At, 0))]
    shapes = {
        "all-quarks+gluon": PIDS,
        "only-u": [2],
        "only-dbar": [-1],
        "u,d": [1, 2],
        "gluon-only": [21],
        "heavy-only": [4, -4],
        "empty": [],
    }
    for nm, pids in shapes.items():
        rep.cases += 1

        def case(sy, pids=pids):
            import yadism.coefficient_functions as cfm
            from pvc.stubs import np_shim_for

            from yadism.coefficient_functions.partonic_channel import EmptyPartonicChannel

            # the rotation is a property of the weights alone: kernels whose coefficient function is an
            # EmptyPartonicChannel (gL / g4 valence, disabled channels) sit anywhere in a real list and
            # must neither be treated specially nor stop the loop
            empty = EmptyPartonicChannel.__new__(EmptyPartonicChannel)
            ks = [Kernel({p: sy.U("w", k, p) for p in pids}, empty if k in (0, 2) else object()) for k in range(4)]
            old = [dict(k.partons) for k in ks]
            coeffs = [k.coeff for k in ks]
            f = {p: sy.U("f", p) for p in PIDS}
            with rebind(*([] if sy.is_numeric else np_shim_for(cfm))):
                r = cf.Combiner.apply_isospin(ks, sy.Zt, sy.At)
            out = [("returns-None(in-place)", r, None)]
            for i, k in enumerate(ks):
                new = k.partons
                out.append((f"k{i}/contraction(new, f) = contraction(old, mixed f)", contraction(new, f), contraction(old[i], mixed(sy, f))))
                z, a = sy.Zt, sy.At
                for s in (1, -1):
                    o1, o2 = old[i].get(s * 1, 0), old[i].get(s * 2, 0)
                    out.append((f"k{i}/new[{s*1}]", new.get(s * 1, 0), (z * o1 + (a - z) * o2) / a))
                    out.append((f"k{i}/new[{s*2}]", new.get(s * 2, 0), ((a - z) * o1 + z * o2) / a))
                for p in pids:
                    if abs(p) not in (1, 2):
                        out.append((f"k{i}/frame[{p}]", new[p], old[i][p]))
                out.append((f"k{i}/frame:keys", sorted(set(new) - {1, 2, -1, -2}), sorted(set(old[i]) - {1, 2, -1, -2})))
                out.append((f"k{i}/frame:coeff", k.coeff is coeffs[i], True))
            return out

        rep.check(f"C12/apply_isospin/post/{nm}", case, sy, pre, sides=True, max_paths=64, budget_s=15)

    # special targets (from the documentation): proton identity, neutron swap
    def case_named(sy):
        import yadism.coefficient_functions as cfm
        from pvc.stubs import np_shim_for

        out = []
        for tname, (z, a) in {"proton": (1.0, 1.0), "neutron": (0.0, 1.0), "isoscalar": (1.0, 2.0)}.items():
            k = Kernel({p: sy.U("w", p) for p in PIDS}, object())
            old = dict(k.partons)
            with rebind(*([] if sy.is_numeric else np_shim_for(cfm))):
                cf.Combiner.apply_isospin([k], z, a)
            for s in (1, -1):
                if tname == "proton":
                    e1, e2 = old[s], old[2 * s]
                elif tname == "neutron":
                    e1, e2 = old[2 * s], old[s]
                else:
                    e1 = e2 = (old[s] + old[2 * s]) / 2
                out += [(f"{tname}[{s}]", k.partons[s], e1), (f"{tname}[{2*s}]", k.partons[2 * s], e2)]
        return out

    rep.cases += 1
    rep.check("C12/apply_isospin/post/proton-neutron-isoscalar", case_named, sy)


def sec_apply_isospin_number_types(rep):
    """Z and A arrive as whatever the run card holds: Python ints (a YAML card with `Z: 26, A: 56`),
    floats, numpy scalars.  The rotation is the same map for all of them and never an internal error
    (the symbolic contract above runs on real-valued symbols and cannot see number-type effects)."""
    import yadism.coefficient_functions as cf
    from yadism.coefficient_functions.kernels import Kernel

    base = {1: 0.3, -1: 0.7, 2: 1.1, -2: 0.2, 3: 0.5, 21: 0.9}
    for z, a in ((1, 2), (26, 56), (0, 1), (1, 1), (82, 208)):
        variants = {"int": (int(z), int(a)), "float": (float(z), float(a)), "numpy int64": (np.int64(z), np.int64(a)), "numpy float64": (np.float64(z), np.float64(a)), "mixed": (int(z), float(a))}
        ref = None
        for nm, (zz, aa) in variants.items():
            rep.cases += 1
            k = Kernel(dict(base), object())
            try:
                cf.Combiner.apply_isospin([k], zz, aa)
                got = {p: float(w) for p, w in k.partons.items()}
                exp = dict(base)
                for sgn in (1, -1):
                    d_, u_ = base.get(sgn * 1, 0.0), base.get(sgn * 2, 0.0)
                    exp[sgn * 1] = (z * d_ + (a - z) * u_) / a
                    exp[sgn * 2] = ((a - z) * d_ + z * u_) / a
                ok = set(got) == set(exp) and all(abs(got[p] - exp[p]) <= 1e-14 for p in exp)
                detail = "" if ok else f"got {got} expected {exp}"
            except Exception as e:  # noqa
                ok, detail = False, f"{type(e).__name__}: {e}"
            rep.add(ob_eval(f"C12/apply_isospin/number-types/Z={z},A={a} given as {nm}", ok, detail=detail, inputs={} if ok else {"Z": repr(zz), "A": repr(aa), "observed": detail}))


def sec_apply_isospin_native_shapes(rep):
    """Native companion of the unit contract (floats only, so it also speaks where the symbolic engine
    cannot follow a rewrite): kernel lists of every shape a run produces -- weights on one member of a
    doublet only (charged current, coupling-restricted runs), on antiquarks only, none at all, empty
    coefficient functions, several kernels -- on targets whose mixing matrix has exact zeros (neutron,
    proton) and on generic ones.  A rotated weight that is exactly zero REPLACES the old weight."""
    import yadism.coefficient_functions as cf
    from yadism.coefficient_functions.kernels import Kernel
    from yadism.coefficient_functions.partonic_channel import EmptyPartonicChannel

    empty = EmptyPartonicChannel.__new__(EmptyPartonicChannel)
    shapes = {
        "u only": {2: 1.3}, "d only": {1: 0.7}, "ubar only": {-2: 0.4}, "dbar only": {-1: 0.9}, "u and dbar": {2: 1.3, -1: 0.9},
        "d, s, cbar (CC charm)": {1: 0.05, 3: 0.95, -4: 1.0}, "all light": {1: 0.3, -1: 0.7, 2: 1.1, -2: 0.2, 3: 0.5, -3: 0.5}, "gluon only": {21: 2.0}, "no weights": {}, "heavy only": {4: 1.0, -4: 1.0},
    }
    for z, a in ((0, 1), (1, 1), (1, 2), (23.403, 49.618), (82, 208), (2, 2), (0.0, 3.0)):
        rep.cases += 1
        ks = [Kernel(dict(w), empty if i % 4 == 1 else object()) for i, w in enumerate(shapes.values())]
        bad = []
        try:
            cf.Combiner.apply_isospin(ks, z, a)
            for (nm, w), k in zip(shapes.items(), ks):
                exp = dict(w)
                for sgn in (1, -1):
                    d_, u_ = w.get(sgn * 1, 0.0), w.get(sgn * 2, 0.0)
                    exp[sgn * 1] = (z * d_ + (a - z) * u_) / a
                    exp[sgn * 2] = ((a - z) * d_ + z * u_) / a
                got = {p: float(v) for p, v in k.partons.items()}
                # a key may be absent where the expected weight is zero (drop_empty removes zeros anyway)
                if any(abs(got.get(p, 0.0) - v) > 1e-14 for p, v in exp.items()) or any(p not in exp and abs(v) > 0 for p, v in got.items()):
                    bad.append((nm, got, exp))
        except Exception as e:  # noqa
            bad.append(("raised", f"{type(e).__name__}: {e}", None))
        ok = not bad
        rep.add(ob_eval(f"C12/apply_isospin/native shapes/Z={z},A={a}: one-sided doublets, antiquark-only, empty and heavy kernels", ok, detail="" if ok else f"(kernel, got, expected): {bad[:2]}", inputs={} if ok else {"Z": z, "A": a, "kernel": str(bad[0][0]), "got": str(bad[0][1]), "expected": str(bad[0][2])}, replay={"confirmed": True, "python": "Combiner.apply_isospin([...kernels of the listed shapes...], Z, A)"}))


CAP_HITS = [0]


def sec_lattice(rep, tier):
    """For every cell: the REAL collected kernel list, rotated by the REAL apply_isospin, carries
    on every kernel exactly one rotation of the weights the generator produced (aliasing of
    partons dictionaries between kernels would apply it repeatedly)."""
    import yadism.coefficient_functions as cf
    from pvc.stubs import np_shim_for

    rep.under_contract(cf.Combiner.collect, cf.Combiner.light_component, cf.Combiner.heavylight_components, cf.Combiner.heavy_components)
    sy = H.Sy()
    pre = [Not(Eq(sy.At, 0)), sy.x > 0, sy.x <= 1, sy.Q2 > 0] + sy.mass_pre()
    from pvc.core import parallel
    from pvc.explore import explore

    def worker(sub, c):
        name = H.cell_name(c)
        if CAP_HITS[0] >= 4:
            # the engine could not follow the code under analysis in four cells already (path cap or time
            # budget): the remaining cells of this worker are not attempted -- undecided, in bounded time
            sub.add(Ob(f"C12/collect+apply_isospin/{name}", "post", UNDECIDED, "engine", 0, "not attempted: the exploration exceeded its budget in four earlier cells of this worker"))
            return

        def trial(c=c):
            cfg = H.cell_configs(sy, c)
            return H.collect(sy, cfg, c["kind"], c["flavor"], c["nf"], what="collect")[0]

        if sub.replay_target is None:
            tp = explore(trial, pre)
            if any(isinstance(p.exc, H.INTERNAL_ERRORS + (ValueError, NotImplementedError)) for p in tp):
                sub.extra["lattice_skipped_raising"] = sub.extra.get("lattice_skipped_raising", 0) + 1
                return  # unsupported / defective dispatch: C16's matter
            if not any(p.result for p in tp):
                sub.extra["lattice_cells_without_kernels"] = sub.extra.get("lattice_cells_without_kernels", 0) + 1
                return
        sub.cases += 1
        sub.extra["lattice_cells"] = sub.extra.get("lattice_cells", 0) + 1

        def case(sy, c=c):
            cfg = H.cell_configs(sy, c)
            ks, comb = H.collect(sy, cfg, c["kind"], c["flavor"], c["nf"], what="collect")
            old = [dict(k.partons) for k in ks]
            f = {p: sy.U("f", p) for p in PIDS}
            with rebind(*([] if sy.is_numeric else np_shim_for(cf))):
                cf.Combiner.apply_isospin(ks, sy.Zt, sy.At)
            out = []
            for i, k in enumerate(ks):
                fe = {p: f.get(p, 0) for p in set(k.partons) | set(old[i])}
                for p in (1, 2, -1, -2):
                    fe.setdefault(p, f[p])
                out.append((f"kernel{i}:{type(k.coeff).__module__.split('.')[-2]}.{type(k.coeff).__name__}/rotated-exactly-once", contraction(k.partons, fe), contraction(old[i], mixed(sy, fe))))
            # history: a second collection (same configuration object) hands out the same weights as the
            # first one did before its in-place rotation (no weight dictionary survives between calls)
            ks2, _ = H.collect(sy, cfg, c["kind"], c["flavor"], c["nf"], what="collect")
            out.append(("second collection: same number of kernels", len(ks2), len(ks)))
            for i, (k2, o1) in enumerate(zip(ks2, old)):
                for p in sorted(set(k2.partons) | set(o1)):
                    out.append((f"second collection: kernel{i}[{p}] unaffected by the earlier rotation", k2.partons.get(p, 0), o1.get(p, 0)))
            return out

        sub.check(f"C12/collect+apply_isospin/{name}", case, sy, pre, max_paths=64, budget_s=8)
        CAP_HITS[0] += getattr(sub, "cap_hits", 0)
        sub.cap_hits = 0

    if tier == "thorough":
        cells = list(H.lattice(tier, kinds=("F2", "FL", "F3", "g1", "gL", "g4"), ptos=((0, 0), (1, 0), (1, 1), (2, 2), (3, 2), (3, 3))))
    else:
        # quick: the generators read kind only through parity and module dispatch, and pto/pto_evol only
        # through the N3LO fl11 kernels and the number of asymptotic logs -> two kinds, two order pairs
        cells = list(H.lattice(tier, kinds=("F2", "F3"), ptos=((1, 1), (3, 2)), with_fonllparts=False))
        # ... and the polarised kinds at NNLO, whose lists hold empty channels in front of the
        # light-quark kernels of the heavy-quark loop
        cells += [c for c in H.lattice(tier, kinds=("gL", "g1"), flavors=("total", "light"), ptos=((2, 2),), with_fonllparts=False) if c["process"] != "CC"]
    parallel(rep, cells, worker)
    rep.sample({"lattice cells enumerated": len(cells)})


def sec_collect_elems(rep):
    """collect_elems = flatten(collect()) -> apply_isospin(target Z, A) -> drop_empty; drop_empty
    removes exactly the zero weights, kernels without weights and EmptyPartonicChannel kernels."""
    import yadism.coefficient_functions as cf
    from yadism.coefficient_functions.kernels import Kernel
    from yadism.coefficient_functions.partonic_channel import EmptyPartonicChannel

    rep.under_contract(cf.Combiner.collect_elems, cf.Combiner.drop_empty)
    sy = H.Sy()
    log = []
    k1, k2, k3 = Kernel({1: 1.0}, "a"), Kernel({2: 2.0}, "b"), Kernel({3: 3.0}, "c")

    class Comb(cf.Combiner):
        def __init__(self):
            self.target = {"Z": 0.3, "A": 1.7}

        def collect(self):
            log.append("collect")
            return [cf.Component(0, [k1, k2]), cf.Component(4, [k3])]

        @staticmethod
        def apply_isospin(full, z, a):
            log.append(("iso", list(full), z, a))

        @staticmethod
        def drop_empty(full):
            log.append(("drop", list(full)))
            return "dropped"

    r = Comb().collect_elems()
    ok = r == "dropped" and log == ["collect", ("iso", [k1, k2, k3], 0.3, 1.7), ("drop", [k1, k2, k3])]
    rep.cases += 1
    rep.add(ob_eval("C12/collect_elems/post(collect -> isospin(Z,A of target) -> drop_empty)", ok, detail=str(log)[:300]))
    # Z and A are taken by name: the order of the entries of the target mapping is irrelevant
    for tname, tgt in (("A-first", {"A": 1.7, "Z": 0.3}), ("extra-key-first", {"id": "x", "A": 1.7, "Z": 0.3}), ("Z-first", {"Z": 0.3, "A": 1.7})):
        del log[:]
        c = Comb()
        c.target = tgt
        try:
            c.collect_elems()
            got = [e for e in log if isinstance(e, tuple) and e[0] == "iso"]
            ok = len(got) == 1 and got[0][2:] == (0.3, 1.7)
            detail = str(got)[:200]
        except Exception as e:  # noqa
            ok, detail = False, f"{type(e).__name__}: {e}"
        rep.cases += 1
        rep.add(ob_eval(f"C12/collect_elems/target mapping read by name/{tname}", ok, detail=detail, inputs={} if ok else {"target": str(tgt), "apply_isospin called with": detail}, replay={"confirmed": True}))

    class E(EmptyPartonicChannel):
        def __init__(self):
            pass

    ks = [Kernel({1: 0.0, 2: 1.5, 21: 0}, "a"), Kernel({1: 0.0}, "b"), Kernel({3: 2.0}, E()), Kernel({}, "d"), Kernel({-1: -1.0}, "e")]
    out = cf.Combiner.drop_empty(ks)
    ok = [k.coeff for k in out] == ["a", "e"] and out[0].partons == {2: 1.5} and out[1].partons == {-1: -1.0}
    rep.cases += 1
    rep.add(ob_eval("C12/drop_empty/post", ok, detail=str(out)))


def sec_update_target(rep):
    from yadism.input import compatibility as comp

    rep.under_contract(comp.update_target)
    docs = {
        "proton": (1.0, 1.0), "neutron": (0.0, 1.0), "isoscalar": (1.0, 2.0), "iron": (23.403, 49.618),
        "lead": (82.0, 208.0), "neon": (10.0, 20.0), "marble": ((20 + 3 * 8 + 6) / 5, (40 + 3 * 16 + 12) / 5),
    }
    for name, (z, a) in docs.items():
        rep.cases += 1
        o = {"TargetDIS": name, "other": 1}
        comp.update_target(o)
        ok = o["TargetDIS"] == {"Z": z, "A": a} and o["other"] == 1 and 0 <= z <= a
        rep.add(ob_eval(f"C12/update_target/post/{name}", ok, detail=str(o)))
    for bad in ("Proton", "deuteron", ""):
        rep.cases += 1
        try:
            comp.update_target({"TargetDIS": bad})
            ok = False
        except ValueError:
            ok = True
        rep.add(ob_eval(f"C12/update_target/unknown-raises/{bad or 'empty'}", ok))
    d = {"Z": 3.0, "A": 7.0}
    o = {"TargetDIS": d}
    comp.update_target(o)
    rep.cases += 1
    rep.add(ob_eval("C12/update_target/dict-passes-through", o == {"TargetDIS": d} and o["TargetDIS"] is d))


def sec_selfcheck(rep, seed):
    """Canary: two kernels sharing one partons dict must be refuted by the lattice-style obligation."""
    import yadism.coefficient_functions as cf
    from yadism.coefficient_functions.kernels import Kernel
    from pvc.core import Report
    from pvc.stubs import np_shim_for

    sy = H.Sy()
    scratch = Report(rep.pid, rep.tier, seed)

    def case(sy):
        shared = {1: sy.U("w", 1), 2: sy.U("w", 2)}
        ks = [Kernel(shared, "a"), Kernel(shared, "b")]
        old = [dict(k.partons) for k in ks]
        f = {p: sy.U("f", p) for p in (1, 2, -1, -2)}
        with rebind(*([] if sy.is_numeric else np_shim_for(cf))):
            cf.Combiner.apply_isospin(ks, sy.Zt, sy.At)
        return [(f"k{i}", contraction(k.partons, f), contraction(old[i], mixed(sy, f))) for i, k in enumerate(ks)]

    scratch.check("canary", case, sy, [Not(Eq(sy.At, 0))])
    bad = [o for o in scratch.obs if o.status == REFUTED and o.replay.get("confirmed")]
    rep.add(Ob("C12/selfcheck/canary-aliasing-refuted-and-replayed", "canary", PROVED if bad else "error", "ratfun+replay", 0, f"shared partons dict: refuted+replayed={len(bad)}"))


def sec_dict_targets(rep):
    """A target given as a mapping is read BY KEY and taken as it is: whatever the order of its entries
    (a card that went through yaml.dump lists A before Z), integer or float entries, per-nucleon
    fractions with A = 1 -- through compatibility.update_target and through Runner.__init__ into the
    configuration the isospin rotation reads."""
    from yadism import runner as rmod
    from yadism.input import compatibility as comp

    rep.under_contract(rmod.Runner.__init__)
    cases = [{"Z": 26, "A": 56}, {"A": 56, "Z": 26}, {"A": 208.0, "Z": 82.0}, {"Z": 0.5, "A": 1}, {"A": 1.0, "Z": 23.403 / 49.618}, {"Z": 0, "A": 1}, {"A": 1, "Z": 1}, {"Z": 0.0, "A": 2.0}, {"A": 7, "Z": 3.0}]
    for t in cases:
        rep.cases += 1
        try:
            ob = H.base_obs(TargetDIS=dict(t))
            comp.update_target(ob)
            kept = isinstance(ob["TargetDIS"], dict) and ob["TargetDIS"].get("Z") == t["Z"] and ob["TargetDIS"].get("A") == t["A"] and set(ob["TargetDIS"]) == {"Z", "A"}
            r = rmod.Runner(H.base_theory(PTO=0, PTODIS=0), H.base_obs(TargetDIS=dict(t)))
            tg = r.configs.target
            wired = tg["Z"] == t["Z"] and tg["A"] == t["A"]
            ok, detail = kept and wired, f"update_target -> {ob['TargetDIS']!r}; Runner.configs.target -> {dict(tg)!r}"
        except Exception as e:  # noqa
            ok, detail = False, f"{type(e).__name__}: {e}"
        rep.add(ob_eval(f"C12/dict target {t!r}: read by key, taken as it is (update_target, Runner.__init__)", ok, detail=detail, inputs={} if ok else {"TargetDIS": repr(t), "observed": detail}, replay={"confirmed": True, "python": f"Runner(theory, observables with TargetDIS={t!r}).configs.target"}))


def sec_real_runs(rep, tier):
    """BOUNDED companions on real runs: the operator of a (Z, A) target is the proton operator with
    the u/d (ubar/dbar) rows mixed, per entry; named targets through the card."""
    pts = [{"x": 0.1, "Q2": 20.0}, {"x": 0.3, "Q2": 90.0}]
    thorough = tier == "thorough"
    targets = {"neutron": (0.0, 1.0), "isoscalar": (1.0, 2.0), "iron": (23.403, 49.618), "{Z:3,A:7}": (3, 7), "{Z:0,A:2}": (0, 2)}
    if thorough:
        targets.update({"lead": (82.0, 208.0), "neon": (10.0, 20.0), "{Z:82.0,A:208}": (82.0, 208)})
    cfgs = [("ZM-VFNS", 4, "NC", "electron", ("F2_total", "F3_total"), 1)]
    if thorough:
        cfgs += [("ZM-VFNS", 5, "CC", "neutrino", ("F2_total", "F3_light", "FL_total"), 1), ("FFNS", 3, "CC", "antineutrino", ("F2_charm", "F3_total"), 1), ("FFNS", 4, "NC", "positron", ("F2_total", "g1_total"), 2), ("FONLL-FFNS", 4, "EM", "electron", ("F2_total",), 1)]
    for scheme, nf_ff, pr, proj, names, pto in cfgs:
        th = dict(FNS=scheme, NfFF=nf_ff, PTO=pto, PTODIS=pto)
        try:
            base, pids = H.real_ops(th, dict(prDIS=pr, ProjectileDIS=proj, TargetDIS="proton"), names, pts)
        except Exception as e:  # noqa
            rep.add(Ob(f"C12/bounded/real run/{scheme} NfFF={nf_ff} {pr} pto={pto}/proton", "bounded", UNDECIDED, "native", 0, f"{type(e).__name__}: {e}"))
            continue
        idx = {p: i for i, p in enumerate(pids)}
        for tname, (z, a) in targets.items():
            tgt = {"Z": z, "A": a} if tname.startswith("{") else tname

            def rowmap(v, z=z, a=a):
                w = np.array(v, dtype=float).copy()
                for u, d in ((2, 1), (-2, -1)):
                    w[idx[u]] = (z * v[idx[u]] + (a - z) * v[idx[d]]) / a
                    w[idx[d]] = (z * v[idx[d]] + (a - z) * v[idx[u]]) / a
                return w

            for n in names:
                H.bounded_ob(rep, f"C12/bounded/real run/{scheme} NfFF={nf_ff} {pr} {proj} pto={pto}/{n}/target {tname} = proton operator with u/d rows mixed (Z={z}, A={a})", lambda n=n, tgt=tgt, rowmap=rowmap: H.ops_deviation(H.real_ops(th, dict(prDIS=pr, ProjectileDIS=proj, TargetDIS=tgt), [n], pts)[0][n], base[n], rowmap))


def run(rep, tier, seed, only=None):
    rep.assume(
        "CouplingConstants.get_weight replaced by its contract value w(|pid|,type,mask) (C02); nf_default by the enumerated nf (C06)",
        "cells whose dispatch raises are C16's matter and are skipped here (counted in the evidence)",
        "the contraction lemma is stated per kernel with uninterpreted parton values f(pid); linearity of apply_pdf (C17) lifts it to operators",
    )
    rep.stub("CouplingConstants -> WStub", "eko nf_default -> enumerated nf")
    for nm, f in (("apply_isospin", sec_apply_isospin), ("numbertypes", sec_apply_isospin_number_types), ("nativeshapes", sec_apply_isospin_native_shapes), ("lattice", lambda r: sec_lattice(r, tier)), ("collect_elems", sec_collect_elems), ("update_target", sec_update_target), ("dicttargets", sec_dict_targets), ("realruns", lambda r: sec_real_runs(r, tier))):
        if only and only not in nm:
            continue
        rep.add(guarded(f"C12/{nm}", lambda f=f: (f(rep), [])[1]))
    if not only and rep.replay_target is None:
        rep.add(guarded("C12/selfcheck", lambda: (sec_selfcheck(rep, seed), [])[1]))
    rep.extra["rule"] = "cases = parton-key shapes for the unit contract; process x projectile x scheme x NfFF x nf x FONLL part x kind x heavyness x (pto,pto_evol) for the lattice; Z, A and all weights symbolic"
