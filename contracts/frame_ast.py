"""AST frame lemma: no function of the package writes process-global state.

A function may write to its locals, its arguments and the object it is a method of.  Reported (with file,
function, line): `global` statements; stores, deletions and mutating method calls (append, update,
setdefault, ...) whose receiver is a module-level object (dict / list / function object / logger ...) not
shadowed by a local; stores on class objects (cls.X, ClassName.X, type(self).X, self.__class__.X, setattr on
a class); stores *through an instance* on an attribute whose only binding is a mutable literal in the class
body (shared by every instance) unless __init__ rebinds it per instance; memoising decorators (lru_cache,
cache); mutable default arguments.  The scan is purely syntactic and re-reads the source on every run.
What it does not see: state reached through an alias other than a direct local binding (`d = MODULE_DICT;
d[k] = v` is seen; `f(MODULE_DICT)` mutating its parameter, or `d = MODULE.get(...)`, is not), C extensions, monkey-patching from
outside the package."""
import ast
import os
MUT = {"append","extend","update","setdefault","pop","popitem","clear","insert","add","remove","discard","__setitem__","sort","reverse"}
def mutable_literal(v):
    if isinstance(v,(ast.Dict,ast.List,ast.Set,ast.DictComp,ast.ListComp,ast.SetComp)): return True
    if isinstance(v,ast.Call):
        f=v.func; n=f.id if isinstance(f,ast.Name) else (f.attr if isinstance(f,ast.Attribute) else "")
        return n in ("dict","list","set","defaultdict","OrderedDict","Counter","deque")
    return False
def scan(path, rel):
    tree=ast.parse(open(path).read()); out=[]
    G=set(); 
    for n in tree.body:
        if isinstance(n,(ast.Assign,ast.AnnAssign,ast.AugAssign)):
            for t in (n.targets if isinstance(n,ast.Assign) else [n.target]):
                for x in ast.walk(t):
                    if isinstance(x,ast.Name): G.add(x.id)
        elif isinstance(n,(ast.FunctionDef,ast.ClassDef)): G.add(n.name)
    classes={n.name:n for n in ast.walk(tree) if isinstance(n,ast.ClassDef)}
    cattr={}
    for cn,c in classes.items():
        d={}
        for n in c.body:
            if isinstance(n,ast.Assign):
                for t in n.targets:
                    if isinstance(t,ast.Name): d[t.id]=n.value
            elif isinstance(n,ast.AnnAssign) and isinstance(n.target,ast.Name) and n.value is not None: d[n.target.id]=n.value
        cattr[cn]=d
    def base_of(e):
        while isinstance(e,(ast.Subscript,ast.Attribute)): e=e.value
        return e
    def classy(e):
        # expression denotes a class object: cls, ClassName, type(self), self.__class__
        if isinstance(e,ast.Name) and (e.id=="cls" or e.id in classes): return True
        if isinstance(e,ast.Call) and isinstance(e.func,ast.Name) and e.func.id=="type": return True
        if isinstance(e,ast.Attribute) and e.attr=="__class__": return True
        return False
    def visit_func(fn, cls):
        params={a.arg for a in fn.args.args+fn.args.kwonlyargs+fn.args.posonlyargs}|({fn.args.vararg.arg} if fn.args.vararg else set())|({fn.args.kwarg.arg} if fn.args.kwarg else set())
        local=set(params)
        for n in ast.walk(fn):
            if isinstance(n,ast.Name) and isinstance(n.ctx,ast.Store): local.add(n.id)
            if isinstance(n,(ast.For,ast.comprehension)):
                for x in ast.walk(n.target):
                    if isinstance(x,ast.Name): local.add(x.id)
            if isinstance(n,ast.Import) or isinstance(n,ast.ImportFrom):
                for a in n.names: local.add((a.asname or a.name).split(".")[0])
        # local names bound directly to a module-level object (d = MODULE_DICT; self-evident aliases only)
        aliases={t.id for n in ast.walk(fn) if isinstance(n,ast.Assign) and isinstance(n.value,ast.Name) and n.value.id in G and n.value.id not in params for t in n.targets if isinstance(t,ast.Name)}
        globs=set()
        for n in ast.walk(fn):
            if isinstance(n,ast.Global): globs|=set(n.names); out.append((rel,fn.name,n.lineno,f"global {', '.join(n.names)}"))
        for d in fn.args.defaults+[k for k in fn.args.kw_defaults if k is not None]:
            if mutable_literal(d): out.append((rel,fn.name,d.lineno,"mutable default argument"))
        for d in fn.decorator_list:
            t=ast.unparse(d)
            if "lru_cache" in t or t.split("(")[0].split(".")[-1] in ("cache","memoize"): out.append((rel,fn.name,d.lineno,f"memoising decorator {t}"))
        selfname=fn.args.args[0].arg if (cls and fn.args.args) else None
        def mut_class_attr(attr):
            # attr is a class-level mutable of cls (or of a same-module base) and not rebound per instance in __init__
            c=cls; seen=set()
            while c is not None and c.name not in seen:
                seen.add(c.name)
                if attr in cattr[c.name] and mutable_literal(cattr[c.name][attr]):
                    init=next((m for m in cls.body if isinstance(m,ast.FunctionDef) and m.name=="__init__"),None)
                    rebound=init is not None and any(isinstance(x,ast.Attribute) and isinstance(x.ctx,ast.Store) and x.attr==attr and isinstance(x.value,ast.Name) and x.value.id==init.args.args[0].arg for x in ast.walk(init))
                    return not rebound
                nxt=None
                for b in c.bases:
                    bn=b.id if isinstance(b,ast.Name) else (b.attr if isinstance(b,ast.Attribute) else None)
                    if bn in classes: nxt=classes[bn]; break
                c=nxt
            return False
        def check_target(t, what, lineno):
            b=base_of(t)
            if t is b: return  # plain name store: local (or declared global, reported above)
            # class-object stores
            e=t
            while isinstance(e,(ast.Subscript,ast.Attribute)):
                if classy(e.value): out.append((rel,fn.name,lineno,f"{what} on a class object: {ast.unparse(t)[:60]}")); return
                e=e.value
            if isinstance(b,ast.Name):
                if b.id in aliases or b.id in G and b.id not in local or b.id in globs:
                    out.append((rel,fn.name,lineno,f"{what} on module-level {b.id}: {ast.unparse(t)[:60]}")); return
                if selfname and b.id==selfname:
                    # self.X[...] = / self.X.mut(): X class-level mutable?
                    e=t; chain=[]
                    while isinstance(e,(ast.Subscript,ast.Attribute)):
                        chain.append(e); e=e.value
                    first=chain[-1]
                    if isinstance(first,ast.Attribute) and len(chain)>=2 and mut_class_attr(first.attr):
                        out.append((rel,fn.name,lineno,f"{what} through the instance on the class-level mutable {first.attr}: {ast.unparse(t)[:60]}"))
        for n in ast.walk(fn):
            if isinstance(n,ast.Assign):
                for t in n.targets:
                    for tt in (t.elts if isinstance(t,(ast.Tuple,ast.List)) else [t]): check_target(tt,"store",n.lineno)
            elif isinstance(n,(ast.AugAssign,ast.AnnAssign)): check_target(n.target,"store",n.lineno)
            elif isinstance(n,ast.Delete):
                for t in n.targets: check_target(t,"del",n.lineno)
            elif isinstance(n,ast.Call) and isinstance(n.func,ast.Attribute) and n.func.attr in MUT:
                # receiver.mut(...): treat receiver like a store target with one more level
                fake=ast.Attribute(value=n.func.value,attr=n.func.attr,ctx=ast.Store())
                check_target(fake,f"mutating call .{n.func.attr}()",n.lineno)
            elif isinstance(n,ast.Call) and isinstance(n.func,ast.Name) and n.func.id=="setattr" and n.args and classy(n.args[0]):
                out.append((rel,fn.name,n.lineno,"setattr on a class object"))
    def walk(node, cls):
        for n in ast.iter_child_nodes(node):
            if isinstance(n,ast.ClassDef): walk(n,n)
            elif isinstance(n,(ast.FunctionDef,ast.AsyncFunctionDef)): visit_func(n,cls)
            else: walk(n,cls)
    walk(tree,None)
    return out


def scan_package(root):
    out = []
    for dp, _, fs in os.walk(root):
        for f in sorted(fs):
            if f.endswith(".py"):
                p = os.path.join(dp, f)
                out += scan(p, os.path.relpath(p, root))
    return out
