"""C17 -- applying a PDF contracts the operator with the right scales and couplings.

Functions under contract: ESFResult.apply_pdf, EXSResult.apply_pdf, Output.{apply_pdf,
apply_pdf_theory, apply_pdf_alphas_alphaqed_xir_xif}, MaskedPDF.{xfxQ2, __getattr__}.
Uninterpreted: the PDF (xfxQ2, hasFlavor), alpha_s, alpha_qed; eko's Legacy runcard, Couplings
and Atlas are recording contract stubs.
"""
from __future__ import annotations

import math

import numpy as np

from pvc.core import ob_eval, guarded, Ob, PROVED, REFUTED, UNDECIDED
from pvc.stubs import rebind, NumpyShim
from pvc.sym import R, Not, Eq

from . import harness as H

LEVEL = "proof"


class PDF:
    """lhapdf-like contract stub: uninterpreted xfxQ2; a fixed set of available flavours."""

    def __init__(self, sy, flavors, tag="xf"):
        self.sy, self.flavors, self.tag = sy, set(flavors), tag
        self.asked = []

    def hasFlavor(self, pid):
        return pid in self.flavors

    def xfxQ2(self, pid, x, Q2):
        self.asked.append(pid)
        return self.sy.U(self.tag, pid, x, Q2)


def spec_apply(sy, orders, pids, xgrid, pdf_tag, flavors, Q2, xiR, xiF, sqrt, log, which=0):
    muF2 = Q2 * xiF**2
    a_s = sy.U("alpha_s", sqrt(Q2) * xiR) / (4 * math.pi)
    aem = sy.U("alpha_qed", sqrt(Q2) * xiR)
    tot = 0
    for o, ve in orders.items():
        v = ve[which]
        pref = a_s ** o[0] * aem ** o[1]
        if o[2]:
            pref = pref * log(1 / xiR**2) ** o[2]
        if o[3]:
            pref = pref * log(1 / xiF**2) ** o[3]
        contr = 0
        for a, pid in enumerate(pids):
            if pid not in flavors:
                continue
            for j, xj in enumerate(xgrid):
                contr = contr + v[a][j] * sy.U(pdf_tag, pid, xj, muF2) / xj
        tot = tot + pref * contr
    return tot


def _fns(sy):
    if sy.is_numeric:
        return math.sqrt, math.log
    return (lambda v: R.lift(v).sqrt()), (lambda v: R.lift(v).log())


def sec_result_apply(rep):
    from yadism.esf import result as resmod
    from yadism.esf.result import ESFResult, EXSResult

    rep.under_contract(ESFResult.apply_pdf, EXSResult.apply_pdf)
    pids_all = [22, -2, -1, 21, 1, 2]
    import itertools

    # every subset of provided flavours (which positions of ``pids`` the PDF lacks matters: the
    # operator row of a provided flavour must stay aligned with its position in ``pids``)
    combos = [(npid, have) for npid in (1, 2, 3) for have in itertools.product((True, False), repeat=npid)]
    for npid, have in combos:
        for ng in (1, 2, 3):
            for keys in ([(0, 0, 0, 0)], [(0, 0, 0, 0), (1, 0, 0, 0), (1, 0, 0, 1)], [(2, 0, 1, 0), (2, 1, 0, 2), (3, 0, 2, 1), (1, 0, 0, 0)]):
                for cls in ("ESF", "EXS"):
                    if not all(have) and (ng == 2 or len(keys) == 3) and cls == "EXS":
                        continue  # the partial-flavour patterns are explored on a thinner product
                    rep.cases += 1
                    sy = H.Sy(extra="xiR xiF")
                    pre = [sy.Q2 > 0, sy.xiR > 0, sy.xiF > 0, sy.x > 0]

                    def case(sy, npid=npid, ng=ng, keys=keys, cls=cls, have=have):
                        sqrt, log = _fns(sy)
                        pids = pids_all[:npid] if npid < 3 else [21, 1, -2]
                        xgrid = [0.1, 0.4, 0.9][:ng]
                        orders = {}
                        for k in keys:
                            v = np.empty((npid, ng), dtype=object)
                            e = np.empty((npid, ng), dtype=object)
                            for a in range(npid):
                                for j in range(ng):
                                    v[a, j], e[a, j] = sy.U("v", str(k), a, j), sy.U("e", str(k), a, j)
                            orders[k] = (v, e) if not sy.is_numeric else (v.astype(float), e.astype(float))
                        flavors = {p_ for p_, h_ in zip(pids, have) if h_}
                        pdf = PDF(sy, flavors)
                        r = ESFResult(sy.x, sy.Q2, 4, orders) if cls == "ESF" else EXSResult(sy.x, sy.Q2, sy.y, 4, orders)
                        binds = [] if sy.is_numeric else [(resmod, "np", NumpyShim())]
                        with rebind(*binds):
                            out = r.apply_pdf(pdf, pids, xgrid, lambda mu: sy.U("alpha_s", mu), lambda mu: sy.U("alpha_qed", mu), sy.xiR, sy.xiF)
                        res = [
                            ("result", out["result"], spec_apply(sy, orders, pids, xgrid, "xf", flavors, sy.Q2, sy.xiR, sy.xiF, sqrt, log, 0)),
                            ("error", out["error"], spec_apply(sy, orders, pids, xgrid, "xf", flavors, sy.Q2, sy.xiR, sy.xiF, sqrt, log, 1)),
                            ("x", out["x"], sy.x), ("Q2", out["Q2"], sy.Q2),
                            ("keys", sorted(out), sorted(["x", "Q2", "result", "error"] + (["y"] if cls == "EXS" else []))),
                            ("PDF asked only for flavours it provides", set(pdf.asked) <= flavors, True),
                        ]
                        if cls == "EXS":
                            res.append(("y", out["y"], sy.y))
                        return res

                    rep.check(f"C17/{cls}Result.apply_pdf/post/pids={npid}/provided={''.join('y' if h_ else 'n' for h_ in have)}/grid={ng}/orders={len(keys)}", case, sy, pre, sides=(npid == 1 and ng == 1))
    # concrete companions of the symbolic cases: exact central scales given as int / float / numpy
    # scalars, integer Q2, a PDF lacking flavours, one point on a one-node grid -- the same formula
    import numpy as _np

    class NumPDF:
        def __init__(s, flavors):
            s.flavors = set(flavors)

        def hasFlavor(s, pid):
            return pid in s.flavors

        def xfxQ2(s, pid, x, Q2):
            return (0.3 + 0.01 * pid) * x**0.5 * (1 - x) ** 2 * (1 + 0.1 * _np.log(Q2))

    a_s = lambda mu: 0.3 / (1 + 0.2 * _np.log(mu))  # noqa: E731
    a_em = lambda mu: 0.0078 * (1 + 0.001 * mu)  # noqa: E731
    keys = [(0, 0, 0, 0), (1, 0, 0, 0), (1, 0, 1, 0), (2, 0, 0, 1), (2, 1, 2, 0), (2, 0, 1, 2)]
    rng = _np.random.default_rng(5)
    for cls in ("ESF", "EXS"):
        for xiR, xiF in ((1, 1), (1.0, 1.0), (_np.float64(1.0), 1), (2, 0.5), (1, 2.0), (0.5, 1)):
            for Q2 in (10, 10.0, _np.float64(3.5)):
                for npid, ng in ((1, 1), (3, 2)):
                    rep.cases += 1
                    pids = [21, 2, -1][:npid]
                    xgrid = [0.1, 0.4][:ng]
                    orders = {k: (rng.normal(size=(npid, ng)), abs(rng.normal(size=(npid, ng)))) for k in keys}
                    flavors = set(pids[: max(1, npid - 1)]) if npid > 1 else set(pids)
                    r = ESFResult(0.3, Q2, 4, orders) if cls == "ESF" else EXSResult(0.3, Q2, 0.5, 4, orders)
                    try:
                        out = r.apply_pdf(NumPDF(flavors), pids, xgrid, a_s, a_em, xiR, xiF)
                        exp = [0.0, 0.0]
                        for o, ve in orders.items():
                            pref = (a_s(float(Q2) ** 0.5 * float(xiR)) / (4 * math.pi)) ** o[0] * a_em(float(Q2) ** 0.5 * float(xiR)) ** o[1] * math.log(1 / float(xiR) ** 2) ** o[2] * math.log(1 / float(xiF) ** 2) ** o[3]
                            for w in (0, 1):
                                exp[w] += pref * sum(ve[w][a, j] * NumPDF(flavors).xfxQ2(p_, xgrid[j], float(Q2) * float(xiF) ** 2) / xgrid[j] for a, p_ in enumerate(pids) if p_ in flavors for j in range(ng))
                        ok = abs(out["result"] - exp[0]) <= 1e-12 * max(1, abs(exp[0])) and abs(out["error"] - exp[1]) <= 1e-12 * max(1, abs(exp[1])) and out["x"] == 0.3 and out["Q2"] == Q2 and (cls == "ESF" or out["y"] == 0.5)
                        detail = f"result {out['result']!r} expected {exp[0]!r}"
                    except Exception as e:  # noqa
                        ok, detail = False, repr(e)
                    rep.add(ob_eval(f"C17/{cls}Result.apply_pdf/concrete/xiR={xiR!r},xiF={xiF!r},Q2={Q2!r}/pids={npid}/grid={ng}", ok, detail=detail, inputs={} if ok else {"xiR": repr(xiR), "xiF": repr(xiF), "Q2": repr(Q2), "observed": detail}))
    # history on ONE result object: a sequence of PDFs with different flavour content (all, some, none, all
    # again), different PDFs and scale ratios -- every application equals the formula for ITS PDF
    class NumPDF2(NumPDF):
        def __init__(s, flavors, c):
            super().__init__(flavors)
            s.c = c

        def xfxQ2(s, pid, x, Q2):
            return s.c * NumPDF.xfxQ2(s, pid, x, Q2) + (s.c - 1) * x

    for cls in ("ESF", "EXS"):
        for pids, xgrid in (([21, 2, -1], [0.1, 0.4]), ([1], [0.3]), ([22, -2, -1, 21, 1, 2], [0.05, 0.2, 0.6])):
            rep.cases += 1
            orders = {k: (rng.normal(size=(len(pids), len(xgrid))), abs(rng.normal(size=(len(pids), len(xgrid))))) for k in keys}
            r = ESFResult(0.3, 7.0, 4, orders) if cls == "ESF" else EXSResult(0.3, 7.0, 0.5, 4, orders)
            seq = [(set(pids), 1.0, 1, 1), (set(pids[:1]), 2.0, 1, 2.0), (set(), 1.5, 2, 1), (set(pids[-1:]), 0.5, 0.5, 0.5), (set(pids), 3.0, 1, 1), (set(pids[1:]), 1.0, 1, 1)]
            bad = []
            try:
                for step, (flavors, c, xiR, xiF) in enumerate(seq):
                    pdf = NumPDF2(flavors, c)
                    out = r.apply_pdf(pdf, pids, xgrid, a_s, a_em, xiR, xiF)
                    exp = 0.0
                    for o, ve in orders.items():
                        pref = (a_s(7.0**0.5 * float(xiR)) / (4 * math.pi)) ** o[0] * a_em(7.0**0.5 * float(xiR)) ** o[1] * math.log(1 / float(xiR) ** 2) ** o[2] * math.log(1 / float(xiF) ** 2) ** o[3]
                        exp += pref * sum(ve[0][a, j] * pdf.xfxQ2(p_, xgrid[j], 7.0 * float(xiF) ** 2) / xgrid[j] for a, p_ in enumerate(pids) if p_ in flavors for j in range(len(xgrid)))
                    if abs(out["result"] - exp) > 1e-12 * max(1, abs(exp)):
                        bad.append((step, sorted(flavors), out["result"], exp))
                same = all(_np.array_equal(orders[k][0], r.orders[k][0]) for k in orders)
                if not same:
                    bad.append(("operator modified by apply_pdf", None, None, None))
            except Exception as e:  # noqa
                bad.append(("raised", repr(e), None, None))
            rep.add(ob_eval(f"C17/{cls}Result.apply_pdf/history: one result object applied to six PDFs in a row (flavours all, one, none, last, all, all-but-first)/pids={len(pids)}/grid={len(xgrid)}", not bad, detail=str(bad[:2]), inputs={} if not bad else {"pids": str(pids), "xgrid": str(xgrid), "step, flavours of that PDF, observed, expected": str(bad[0])}))
    # Q2 not a number -> ValueError
    r = ESFResult(0.1, None, 4, {})
    try:
        r.apply_pdf(None, [], [], None, None, 1.0, 1.0)
        ok = False
    except ValueError:
        ok = True
    rep.add(ob_eval("C17/ESFResult.apply_pdf/Q2-unset-raises-ValueError", ok))
    rep.sample({"apply_pdf": "result == sum_o (alpha_s(sqrt(Q2) xiR)/4pi)^o0 alpha(sqrt(Q2) xiR)^o1 ln(1/xiR^2)^o2 ln(1/xiF^2)^o3 sum_{a,j} v_o[a,j] xfxQ2(pid_a, x_j, Q2 xiF^2)/x_j over the flavours the PDF has; symbolic Q2, xiR, xiF, operator entries"})


def sec_linearity(rep):
    """Lemma: linear in the PDF (f = c1 f1 + c2 f2)."""
    from yadism.esf import result as resmod
    from yadism.esf.result import ESFResult

    sy = H.Sy(extra="xiR xiF c1 c2")
    pre = [sy.Q2 > 0, sy.xiR > 0, sy.xiF > 0]

    def case(sy):
        pids, xgrid = [21, 1, -2], [0.2, 0.7]
        keys = [(0, 0, 0, 0), (1, 0, 0, 1), (2, 0, 1, 1)]
        orders = {}
        for k in keys:
            v = np.empty((3, 2), dtype=object)
            for a in range(3):
                for j in range(2):
                    v[a, j] = sy.U("v", str(k), a, j)
            orders[k] = (v, v) if not sy.is_numeric else (v.astype(float), v.astype(float))
        r = ESFResult(0.3, sy.Q2, 4, orders)
        p1, p2 = PDF(sy, pids, "f1"), PDF(sy, pids, "f2")

        class Comb:
            def hasFlavor(s, pid):
                return True

            def xfxQ2(s, pid, x, Q2):
                return sy.c1 * p1.xfxQ2(pid, x, Q2) + sy.c2 * p2.xfxQ2(pid, x, Q2)

        al = (lambda mu: sy.U("alpha_s", mu), lambda mu: sy.U("alpha_qed", mu))
        binds = [] if sy.is_numeric else [(resmod, "np", NumpyShim())]
        with rebind(*binds):
            rc = r.apply_pdf(Comb(), pids, xgrid, *al, sy.xiR, sy.xiF)["result"]
            r1 = r.apply_pdf(p1, pids, xgrid, *al, sy.xiR, sy.xiF)["result"]
            r2 = r.apply_pdf(p2, pids, xgrid, *al, sy.xiR, sy.xiF)["result"]
        return [("apply_pdf(c1 f1 + c2 f2) = c1 apply_pdf(f1) + c2 apply_pdf(f2)", rc, sy.c1 * r1 + sy.c2 * r2)]

    rep.cases += 1
    rep.check("C17/linearity", case, sy, pre, kind="lemma")


def sec_output(rep):
    """Output.apply_pdf_alphas_alphaqed_xir_xif iterates exactly the valid non-None observables and
    passes self['pids'], self['xgrid']['grid'] and the couplings/scales unchanged."""
    from yadism.output import Output, PDFOutput, MaskedPDF

    rep.under_contract(Output.apply_pdf_alphas_alphaqed_xir_xif, Output.apply_pdf, MaskedPDF.xfxQ2, MaskedPDF.__getattr__)
    calls = []

    from yadism.esf.result import ESFResult

    class Res(ESFResult):
        """a real result object (x, Q2, nf, orders present) whose apply_pdf records its call; the
        points are NOT listed by increasing Q2 or x: ret[obs][i] must belong to self[obs][i]"""

        def __init__(s, tag, x=0.3, Q2=10.0):
            super().__init__(x, Q2, 4)
            s.tag = tag

        def apply_pdf(s, *args):
            calls.append((s.tag, args))
            return {"tag": s.tag}

    out = Output()
    out["pids"] = [21, 1]
    out["xgrid"] = {"grid": [0.1, 1.0], "log": True}
    out["F2_total"] = [Res("a", 0.5, 100.0), Res("b", 0.1, 10.0)]
    out["XSHERANC_charm"] = [Res("c")]
    out["FL_light"] = None
    out["g1_bottom"] = []
    out["interpolation_polynomial_degree"] = 4
    out["projectilePID"] = 11
    pdf, a_s, a_q = object(), object(), object()
    ret = out.apply_pdf_alphas_alphaqed_xir_xif(pdf, a_s, a_q, 0.5, 2.0)
    exp_args = (pdf, out["pids"], out["xgrid"]["grid"], a_s, a_q, 0.5, 2.0)
    ok = isinstance(ret, PDFOutput) and dict(ret) == {"F2_total": [{"tag": "a"}, {"tag": "b"}], "XSHERANC_charm": [{"tag": "c"}], "g1_bottom": []}
    ok = ok and [c[0] for c in calls] == ["a", "b", "c"] and all(len(c[1]) == 7 and all(x is y for x, y in zip(c[1][:5], exp_args[:5])) and c[1][5:] == (0.5, 2.0) for c in calls)
    rep.cases += 1
    rep.add(ob_eval("C17/Output.apply_pdf_alphas_alphaqed_xir_xif/post", ok, detail=f"observables={list(ret)} calls={[c[0] for c in calls]}", inputs={} if ok else {"F2_total": "[a: (x=0.5, Q2=100), b: (x=0.1, Q2=10)]", "XSHERANC_charm": "[c]", "FL_light": "None", "g1_bottom": "[]", "returned": str(dict(ret)), "calls": str([c[0] for c in calls])}, replay={"confirmed": True, "python": "Output with the listed observables; apply_pdf_alphas_alphaqed_xir_xif(pdf, a_s, a_q, 0.5, 2.0)"}))
    # apply_pdf delegates to apply_pdf_theory with the stored theory card
    seen = []
    o2 = Output()
    o2.theory = {"marker": 1}
    o2.apply_pdf_theory = lambda p, t: seen.append((p, t)) or "ret"
    rep.cases += 1
    rep.add(ob_eval("C17/Output.apply_pdf/post", o2.apply_pdf(pdf) == "ret" and seen == [(pdf, o2.theory)] and seen[0][1] is o2.theory))
    # MaskedPDF
    class P:
        def xfxQ2(s, pid, x, q2):
            return 10.0 * pid + x + q2

        def hasFlavor(s, pid):
            return pid != 6

        other = "attr"

    m = MaskedPDF(P(), [21, 2])
    ok = m.xfxQ2(2, 0.5, 3.0) == 23.5 and m.xfxQ2(1, 0.5, 3.0) == 0.0 and m.hasFlavor(6) is False and m.hasFlavor(1) is True and m.other == "attr"
    rep.cases += 1
    rep.add(ob_eval("C17/MaskedPDF/post", ok))


def sec_theory(rep):
    """apply_pdf_theory: couplings from the card (reference value/scale/nf, order, method, squared
    masses and ratios), alpha_s(muR) = 4 pi a_s(muR^2, nf_to) with nf_to = NfFF in the fixed-flavour
    schemes and nf_default(muR^2, atlas) in ZM-VFNS, unknown scheme -> ValueError, alpha_qed =
    alphaqed, XIR/XIF from the card."""
    from yadism import output as outmod
    from yadism.output import Output

    rep.under_contract(Output.apply_pdf_theory)
    sy = H.Sy(extra="muR")

    class CouplingsStub:
        created = []

        def __init__(self, **kw):
            self.kw = kw
            CouplingsStub.created.append(self)

        last_used = None

        def a_s(self, scale, nf_to=None):
            CouplingsStub.last_used = self
            return sy.U("a_s", scale, nf_to)

    class AtlasStub:
        created = []

        def __init__(self, matching_scales, origin):
            self.matching_scales, self.origin = list(matching_scales), origin
            AtlasStub.created.append(self)

    used_atlas = []
    # history: the calls run in ONE process on cards that share (alphas, Qref, PTO, ModEv) and differ
    # in masses, matching ratios and reference nf -- the coupling USED by each call (not merely the
    # last one constructed) must be the one of that call's card
    cases = (("FFNS", 3), ("FFNS", 4), ("FFN0", 5), ("FONLL-FFNS", 4), ("FONLL-FFN0", 3), ("ZM-VFNS", 3), ("ZM-VFNS", 4), ("bogus", 3))
    for i, (fns, nf_ff) in enumerate(cases):
        rep.cases += 1
        # every perturbative order the card can name is handed on unchanged (PTO 0..3 over the history)
        th = H.base_theory(FNS=fns, NfFF=nf_ff, PTO=(1, 3, 0, 2, 3, 3, 1, 2)[i], QED=(0, 1, 2, 0, 1, 2, 1, 0)[i], XIR=0.5, XIF=2.0, alphaqed=0.0078, kcThr=1.2 + 0.05 * i, kbThr=0.8 + 0.03 * i, ktThr=1.0 + 0.01 * i)
        th["mc"] *= 1 + 0.02 * i
        th["mb"] *= 1 + 0.01 * i
        th["nfref"] = 5 if i % 2 == 0 else 4
        CouplingsStub.created.clear()
        AtlasStub.created.clear()
        CouplingsStub.last_used = None
        del used_atlas[:]
        got = {}

        def fake_apply(self, pdf, alpha_s, alpha_qed, xiR, xiF):
            got.update(alpha_s=alpha_s, alpha_qed=alpha_qed, xiR=xiR, xiF=xiF, pdf=pdf, alpha_s_at_muR=alpha_s(sy.muR))
            return "ret"

        o = Output()
        exc = None
        with rebind((outmod, "Couplings", CouplingsStub), (outmod, "Atlas", AtlasStub), (outmod, "nf_default", lambda mu2, atlas: (used_atlas.append(atlas), sy.U("nf_default", mu2, id(atlas) and "atlas"))[1]), (Output, "apply_pdf_alphas_alphaqed_xir_xif", fake_apply)):
            try:
                r = o.apply_pdf_theory("PDF", th)
            except Exception as e:  # noqa
                exc = e
        name = f"C17/apply_pdf_theory/{fns}/NfFF={nf_ff}"
        if fns == "bogus":
            rep.add(ob_eval(name + "/unknown-scheme-raises-ValueError", isinstance(exc, ValueError), detail=repr(exc)))
            continue
        if exc is not None:
            rep.add(ob_eval(name + "/no-exception", False, detail=repr(exc)))
            continue
        if CouplingsStub.last_used is None or (fns == "ZM-VFNS" and not used_atlas):
            rep.add(ob_eval(name + "/alpha_s uses a Couplings object (and, in ZM-VFNS, an Atlas)", False, detail="alpha_s(muR) did not reach Couplings.a_s / nf_default"))
            continue
        c = CouplingsStub.last_used.kw
        a = used_atlas[-1] if used_atlas else (AtlasStub.created[-1] if AtlasStub.created else None)
        m2 = [th["mc"] ** 2, th["mb"] ** 2, th["mt"] ** 2]
        k2 = [th["kcThr"] ** 2, th["kbThr"] ** 2, th["ktThr"] ** 2]
        ok_c = [abs(x - y) < 1e-12 * y for x, y in zip(c["masses"], m2)] and all(abs(x - y) < 1e-12 for x, y in zip(c["thresholds_ratios"], k2))
        ok_c = ok_c and abs(c["couplings"].alphas - th["alphas"]) < 1e-15 and abs(c["couplings"].scale - th["Qref"]) < 1e-12 and c["couplings"].num_flavs_ref == th["nfref"] and tuple(c["order"]) == (th["PTO"] + 1, th["QED"])
        rep.add(ob_eval(name + "/Couplings used (reference value, scale, nf, order, squared masses and ratios of THIS card)", bool(ok_c), detail=str({k: str(v)[:60] for k, v in c.items()})))
        if a is not None:
            ok_a = all(abs(x - y * z) < 1e-9 * max(1, y * z) for x, y, z in zip(a.matching_scales, m2, k2)) and abs(a.origin[0] - th["Qref"] ** 2) < 1e-9 and a.origin[1] == th["nfref"]
            rep.add(ob_eval(name + "/Atlas used (matching scales m^2 k^2, origin Qref^2, nfref of THIS card)", ok_a, detail=f"{a.matching_scales} {a.origin}"))
        val = got["alpha_s_at_muR"]
        if fns == "ZM-VFNS":
            exp = sy.U("a_s", sy.muR**2, sy.U("nf_default", sy.muR**2, "atlas")) * 4 * math.pi
        else:
            exp = sy.U("a_s", sy.muR**2, nf_ff) * 4 * math.pi
        from pvc.core import ob_identity

        rep.add(ob_identity(name + "/alpha_s(muR) = 4 pi a_s(muR^2, nf_to)", val, exp))
        rep.add(ob_eval(name + "/alpha_qed, XIR, XIF, pdf passed on", got["alpha_qed"](123.0) == th["alphaqed"] and got["xiR"] == 0.5 and got["xiF"] == 2.0 and got["pdf"] == "PDF" and r == "ret"))


def sec_selfcheck(rep, seed):
    from pvc.core import Report
    from canaries import c17 as canary

    sy = H.Sy(extra="xiR xiF")
    scratch = Report(rep.pid, rep.tier, seed)

    def case(sy):
        sqrt, log = _fns(sy)
        v = np.empty((1, 1), dtype=object)
        v[0, 0] = sy.U("v", 0)
        orders = {(1, 0, 0, 1): (v if not sy.is_numeric else v.astype(float),) * 2}
        pdf = PDF(sy, [21])
        got = canary.apply_pdf_wrong_scale(orders, sy.Q2, pdf, [21], [0.5], lambda mu: sy.U("alpha_s", mu), sy.xiR, sy.xiF, sqrt, log)
        return got, spec_apply(sy, orders, [21], [0.5], "xf", {21}, sy.Q2, sy.xiR, sy.xiF, sqrt, log, 0)

    scratch.check("canary", case, sy, [sy.Q2 > 0, sy.xiR > 0, sy.xiF > 0])
    bad = [o for o in scratch.obs if o.status == REFUTED]
    rep.add(Ob("C17/selfcheck/canary-pdf-at-Q2-instead-of-muF2-refuted", "canary", PROVED if bad else "error", "ratfun", 0, str([o.status for o in scratch.obs])))


def run(rep, tier, seed, only=None):
    rep.assume(
        "xfxQ2, hasFlavor, alpha_s, alpha_qed are uninterpreted (any lhapdf-like PDF, any callables)",
        "eko Legacy runcard translation is executed for real; Couplings and Atlas are recording stubs (the coupling solver itself is eko's)",
        "array shapes 1..3 x 1..3 (the contraction is a real numpy einsum over object arrays; A-np)",
    )
    rep.stub("eko.couplings.Couplings, eko.matchings.Atlas, nf_default -> recording stubs", "PDF / alpha_s / alpha_qed -> uninterpreted")
    for nm, f in (("result", sec_result_apply), ("linearity", sec_linearity), ("output", sec_output), ("names", H.observable_names_contract), ("theory", sec_theory)):
        if only and only not in nm:
            continue
        rep.add(guarded(f"C17/{nm}", lambda f=f: (f(rep), [])[1]))
    if not only and rep.replay_target is None:
        rep.add(guarded("C17/selfcheck", lambda: (sec_selfcheck(rep, seed), [])[1]))
    rep.extra["rule"] = "cases = pid count x grid size x order-key set x result class; schemes for the coupling; Q2, xiR, xiF, operator entries symbolic"
