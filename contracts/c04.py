"""C04 -- massless coefficient functions obey sum rules and NLO closed forms.

Functions under contract: light/nlo/{f2,fl,f3,g1}.py kernels and distribution constants (through
the real classes light.{f2,fl,f3,g1}_nc / *_cc), and the non-singlet kernels of light/nnlo/*,
light/n3lo/* selected by the real classes f2_cc.NonSingletOdd, f3_nc.NonSinglet
(= f3_cc.NonSingletOdd), g1_nc.NonSinglet.

  closed forms   for all z in (0,1), nf: NLO quark/gluon coefficients of F2, FL, F3, g1 == the
                 published closed forms (spec/nlo.py), as identities in Q(z, ln z, ln(1-z))
  sum rules      first moment M1 = int_0^1 reg dz + loc(0+)  (the plus-distribution part has no
                 first moment) computed by exact term-wise reduction of the symbolic normal form
                 of the real kernel to a table of definite integrals (pvc/moments.py):
                 Adler  M1[c2,ns(nu-nubar)] = 0 (orders 1,2,3),
                 GLS/Bjorken  M1[c3,ns] = M1[g1,ns] = -4, -16(55/12 - nf/3), -64[...] (spec/sumrules.py)
"""
from __future__ import annotations

import math

import mpmath as mp

from pvc.core import ob_eval, guarded, Ob, PROVED, REFUTED, UNDECIDED, parallel
from pvc.moments import first_moment, value_at_zero, NotIntegrable, J
from pvc.stubs import rebind
from pvc.sym import R

from spec import nlo as spec_nlo, sumrules as spec_sr
from . import harness as H
from . import sites as S

LEVEL = "proof"
BAND_FIT = 5e-4    # |M1 - expected| <= BAND * (|int reg| + |loc(0+)|) for the fitted NNLO/N3LO parametrisations
BAND_EXACT = 1e-12  # NLO exact expressions
REL_FIT = 1e-3      # and |M1 - expected| <= REL_FIT * |expected| where the expected coefficient does not vanish
ORDER_NAME = ["LO", "NLO", "NNLO", "N3LO"]


def _log(sy):
    return math.log if sy.is_numeric else (lambda v: R.lift(v).log())


def get_rsl(sy, modname, clsname, order, nf):
    import importlib

    mod = importlib.import_module(f"yadism.coefficient_functions.light.{modname}")
    cls = getattr(mod, clsname)
    site = S.Site("light", modname, cls, order, nf)
    with rebind(*S.stub_binds(sy)):
        o = site.construct(sy)
        return o[order]()


def parts(sy, rsl, z):
    import numpy as np

    out = {}
    for p in ("reg", "sing", "loc"):
        f = getattr(rsl, p)
        if f is not None:
            a = rsl.args[p] if not sy.is_numeric else np.array(rsl.args[p], dtype=float)
            out[p] = f(z, a)
    return out


def sec_closed_forms(rep):
    sy = H.Sy(extra="z")
    pre = [sy.z > 0, sy.z < 1, sy.x > 0, sy.x < 1, sy.Q2 > 0]
    quark = {("f2_nc", "NonSinglet"): spec_nlo.c2q, ("f2_cc", "NonSingletEven"): spec_nlo.c2q, ("f2_cc", "NonSingletOdd"): spec_nlo.c2q,
             ("fl_nc", "NonSinglet"): spec_nlo.cLq, ("fl_cc", "NonSingletEven"): spec_nlo.cLq, ("fl_cc", "NonSingletOdd"): spec_nlo.cLq,
             ("f3_nc", "NonSinglet"): spec_nlo.c3q, ("f3_cc", "NonSingletEven"): spec_nlo.c3q, ("f3_cc", "NonSingletOdd"): spec_nlo.c3q,
             ("g1_nc", "NonSinglet"): spec_nlo.g1q}
    gluon = {("f2_nc", "Gluon"): spec_nlo.c2g, ("f2_cc", "Gluon"): spec_nlo.c2g, ("fl_nc", "Gluon"): spec_nlo.cLg, ("fl_cc", "Gluon"): spec_nlo.cLg, ("g1_nc", "Gluon"): spec_nlo.g1g}
    for (modname, clsname), f in quark.items():
        rep.cases += 1

        def case(sy, modname=modname, clsname=clsname, f=f):
            log = _log(sy)
            rsl = get_rsl(sy, modname, clsname, 1, 4)
            p = parts(sy, rsl, sy.z)
            reg, plus, delta = f(sy.z, log)
            L1 = log(1 - sy.z)
            sing = sum((c * L1**k for k, c in enumerate(plus)), 0) / (1 - sy.z) if plus else 0
            loc = delta + sum((c * L1 ** (k + 1) / (k + 1) for k, c in enumerate(plus)), 0)
            return [("regular part", p.get("reg", 0), reg), ("plus distributions (singular part)", p.get("sing", 0), sing), ("delta coefficient and local part", p.get("loc", 0), loc)]

        rep.check(f"C04/NLO-closed-form/{modname}.{clsname}", case, sy, pre, sides=True)
    for (modname, clsname), f in gluon.items():
        for nf in (3, 4, 5, 6):
            rep.cases += 1

            def case(sy, modname=modname, clsname=clsname, f=f, nf=nf):
                log = _log(sy)
                rsl = get_rsl(sy, modname, clsname, 1, nf)
                p = parts(sy, rsl, sy.z)
                return [("regular part", p.get("reg", 0), f(sy.z, nf, log)), ("no singular part", rsl.sing is None, True), ("no local part", rsl.loc is None, True)]

            rep.check(f"C04/NLO-closed-form/{modname}.{clsname}/nf={nf}", case, sy, pre, sides=True)
    # channels that must be absent at NLO
    for modname, clsname in (("f2_nc", "Singlet"), ("fl_nc", "Singlet"), ("g1_nc", "Singlet"), ("f3_nc", "Gluon"), ("f3_nc", "Singlet"), ("f3_nc", "Valence")):
        rep.cases += 1
        rsl = get_rsl(sy, modname, clsname, 1, 4)
        rep.add(ob_eval(f"C04/NLO-closed-form/{modname}.{clsname}/absent", rsl is None or (rsl.reg is None and rsl.sing is None and rsl.loc is None)))
    rep.sample({"closed form": "light.f2_nc.NonSinglet.NLO: reg(z) == CF(-2(1+z)ln(1-z) - 2(1+z^2)/(1-z) ln z + 6 + 4z), sing == CF(-3 + 4 ln(1-z))/(1-z), loc == -CF(9 + 4 zeta2) + CF(-3 L1 + 2 L1^2), identities in Q(z, ln z, ln(1-z)) with log((1-z)/z) expanded under 0<z<1"})


SUM_RULES = [
    # (rule, module, class, orders, expected function)
    ("Adler(F2 nu-nubar)", "f2_cc", "NonSingletOdd", (1, 2, 3), spec_sr.adler),
    ("GLS/Bjorken(F3)", "f3_nc", "NonSinglet", (1, 2, 3), spec_sr.bjorken),
    ("GLS/Bjorken(F3, CC odd)", "f3_cc", "NonSingletOdd", (1, 2, 3), spec_sr.bjorken),
    ("Bjorken(g1)", "g1_nc", "NonSinglet", (1, 2), spec_sr.bjorken),
    # GLS = Bjorken-like non-singlet part + light-by-light (valence, fl02) part, first at a_s^3
    ("GLS light-by-light(F3 valence)", "f3_nc", "Valence", (3,), spec_sr.gls_valence),
    ("GLS light-by-light(F3 valence, CC)", "f3_cc", "Valence", (3,), spec_sr.gls_valence),
]


def moment_worker(sub, item):
    rule, modname, clsname, order, nf, expected = item
    sub.cases += 1
    sy = H.Sy(extra="z")
    pre = [sy.z > 0, sy.z < 1]
    name = f"C04/sum-rule/{rule}/{modname}.{clsname}.{ORDER_NAME[order]}/nf={nf}"
    try:
        rsl = get_rsl(sy, modname, clsname, order, nf)
        if rsl is None:
            # the class answers this order with "no coefficient" (an empty channel): its first moment is 0
            exp = expected(order, nf)
            ok = abs(exp) == 0
            sub.add(Ob(name, "lemma", PROVED if ok else REFUTED, "moments", 0, f"{modname}.{clsname}.{ORDER_NAME[order]}() returns None (no coefficient at this order): M1 = 0, expected {mp.nstr(exp, 12)}", {} if ok else {"class": f"{modname}.{clsname}", "order": ORDER_NAME[order], "nf": nf, "first_moment": 0.0, "expected": float(exp)}, {} if ok else {"confirmed": True, "observed_native": "the real class returns None for this order", "expected_spec": float(exp)}))
            return
        p = parts(sy, rsl, sy.z)
        m_reg, gross = first_moment(p["reg"], sy.z, pre) if "reg" in p else (mp.mpf(0), mp.mpf(0))
        delta = value_at_zero(p["loc"], sy.z, pre) if "loc" in p else mp.mpf(0)
        m1 = m_reg + delta
        exp = expected(order, nf)
        band = BAND_EXACT if order == 1 else BAND_FIT
        termsum = gross + abs(delta)
        gross = abs(m_reg) + abs(delta)  # scale of the cancellation between the regular and the local part
        dev = abs(m1 - exp)
        allowed = band * gross
        if order > 1 and exp != 0:
            # the published parametrisations claim 0.1 % accuracy: a non-vanishing series coefficient
            # is reproduced at least that well, whatever the size of the cancellation behind it
            allowed = min(allowed, REL_FIT * abs(exp))
        ok = dev <= allowed
        detail = f"M1 = {mp.nstr(m1, 12)} expected {mp.nstr(exp, 12)} |dev| = {mp.nstr(dev, 4)} allowed = {mp.nstr(allowed, 4)} [band = {band:g} * {mp.nstr(gross, 6)}" + (f", {REL_FIT:g} * |expected|" if order > 1 and exp != 0 else "") + f"] (int reg = {mp.nstr(m_reg, 10)}, loc(0+) = {mp.nstr(delta, 10)})"
        o = Ob(name, "lemma", PROVED if ok else REFUTED, "moments", 0, detail, {} if ok else {"first_moment": float(m1), "expected": float(exp), "deviation": float(dev), "gross_scale": float(gross)}, {})
        if not ok:
            # native replay: high-precision quadrature of the real kernel (floats)
            import numpy as np

            syn = sy.numeric({})
            rn = get_rsl(syn, modname, clsname, order, nf)
            a_reg = np.array(rn.args["reg"], dtype=float)
            val = mp.quad(lambda t: rn.reg(float(t), a_reg), [mp.mpf(10) ** -12, 0.5, 1 - mp.mpf(10) ** -12]) if rn.reg is not None else 0
            d0 = rn.loc(1e-14, np.array(rn.args["loc"], dtype=float)) if rn.loc is not None else 0
            o.replay = {"observed_native": float(val + d0), "expected_spec": float(exp), "confirmed": bool(abs(val + d0 - exp) > allowed), "note": "mpmath quadrature of the real reg kernel + loc(0+)"}
        sub.add(o)
    except NotIntegrable as e:
        sub.add(Ob(name, "lemma", UNDECIDED, "moments", 0, f"not reducible to the integral table: {e}"))


def sec_sum_rules(rep, tier):
    items = []
    for rule, modname, clsname, orders, expected in SUM_RULES:
        for order in orders:
            for nf in (3, 4, 5, 6):
                items.append((rule, modname, clsname, order, nf, expected))
    parallel(rep, items, moment_worker)
    rep.sample({"sum rule": "GLS/Bjorken, f3_nc.NonSinglet.N3LO nf=4: int_0^1 c3nm3a dz + c3nm3c(0+) computed term by term from the normal form of the real kernel (polynomial in z, ln z, ln(1-z)) == -64 [13841/216 + 44/9 zeta3 - 55/2 zeta5 - nf(10339/1296 + 61/54 zeta3 - 5/3 zeta5) + 115/648 nf^2] within the stated band"})


def sec_cc_pairing(rep):
    """The sum rules are statements about the q - qbar combination: Adler for F2(nu) - F2(nubar), GLS for
    F3(nu) + F3(nubar), both proportional to sum_q (q - qbar).  They are discharged above for the classes
    f2_cc.NonSingletOdd / f3_cc.NonSingletOdd; for them to hold for the structure functions, the kernel
    generator must hand THOSE classes the weights that are antisymmetric under q <-> qbar (and the *Even
    classes the symmetric ones) -- for every projectile, kind and nf (real light.kernels.generate, CKM
    weights by their contract values)."""
    from yadism.coefficient_functions import light

    sy = H.Sy().numeric({})
    rep.under_contract(light.kernels.generate)
    for kind in ("F2", "FL", "F3"):
        for proj in H.PROJECTILES:
            for nf in (3, 4, 5, 6):
                rep.cases += 1
                c = dict(process="CC", projectile=proj, scheme="ZM-VFNS", nf_ff=3, nf=nf, kind=kind, flavor="light", pto=3, pto_evol=2, fonllparts="full")
                bad, seen = [], set()
                try:
                    cfg = H.cell_configs(sy, c, cc_spec=True)
                    esf = H.FakeESF(sy.x, sy.Q2, H.obs_name(kind, "light"), cfg)
                    for k in light.kernels.generate(esf, nf):
                        nm = type(k.coeff).__name__
                        if nm not in ("NonSingletEven", "NonSingletOdd"):
                            continue
                        seen.add(nm)
                        w = {p_: float(v) for p_, v in k.partons.items()}
                        sym = all(abs(w.get(q, 0.0) - w.get(-q, 0.0)) < 1e-12 for q in range(1, 7))
                        anti = all(abs(w.get(q, 0.0) + w.get(-q, 0.0)) < 1e-12 for q in range(1, 7))
                        nonzero = any(abs(v) > 0 for v in w.values())
                        if nonzero and not (anti if nm == "NonSingletOdd" else sym):
                            bad.append((type(k.coeff).__module__.split(".")[-1] + "." + nm, w))
                    if seen != {"NonSingletEven", "NonSingletOdd"}:
                        bad.append(("classes handed out", sorted(seen)))
                except Exception as e:  # noqa
                    bad.append(("raised", f"{type(e).__name__}: {e}"))
                ok = not bad
                rep.add(ob_eval(f"C04/cc-pairing/{kind}/{proj}/nf={nf}: NonSingletOdd carries the q - qbar weights, NonSingletEven the q + qbar ones", ok, detail="" if ok else str(bad[0])[:400], inputs={} if ok else {"kind": kind, "projectile": proj, "nf": nf, "observed (class, weights)": str(bad[0])[:500]}, replay={"confirmed": True, "python": f"light.kernels.generate(esf({kind}_light, CC, {proj}), {nf})"}))


def sec_selfcheck(rep, seed):
    # table entries against closed forms
    checks = [
        (J(0, 1, 0, 1), -mp.zeta(2)), (J(0, 2, 0, 1), 2 * mp.zeta(3)), (J(0, 0, 1, 0), mp.mpf(-1)), (J(1, 0, 1, 0), mp.mpf(-3) / 4),
        (J(0, 1, 1, 0), 2 - mp.zeta(2)), (J(0, 0, 2, 0), mp.mpf(2)), (J(0, 1, 1, 1), mp.zeta(3)),
    ]
    bad = [(float(a), float(b)) for a, b in checks if abs(a - b) > mp.mpf(10) ** -30]
    rep.add(Ob("C04/selfcheck/integral-table-vs-closed-forms", "selfcheck", PROVED if not bad else "error", "mpmath", 0, f"{len(checks)} entries; mismatches {bad}"))
    # canary: a kernel with a dropped term must violate the Adler moment
    sy = H.Sy(extra="z")
    z = sy.z
    CF = spec_nlo.CF
    reg = CF * (-2 * (1 + z) * R.lift((1 - z) / z).log() - 4 * R.lift(z).log() / (1 - z) + 6)  # "+ 4 z" dropped
    m, g = first_moment(reg, z, [z > 0, z < 1])
    delta = -CF * (9 + 4 * mp.zeta(2))
    dev = abs(m + mp.mpf(delta.numerator) / delta.denominator if hasattr(delta, "numerator") else m + delta)
    rep.add(Ob("C04/selfcheck/canary-dropped-term-violates-Adler", "canary", PROVED if dev > 1e-6 else "error", "moments", 0, f"deviation {mp.nstr(dev, 6)}"))


def run(rep, tier, seed, only=None):
    rep.assume(
        "spec/nlo.py, spec/sumrules.py typed from the literature (Bardeen et al. / Furmanski-Petronzio; Gorishny-Larin, Larin-Vermaseren) in the a_s = alpha_s/4pi normalisation",
        "the table of definite integrals J(a,b,c,k) is computed by mpmath at 40 digits (trusted numerics, spot-checked against closed forms in zeta values); the reduction of the kernel's normal form to the table is exact",
        f"acceptance band: |M1 - expected| <= {BAND_EXACT:g} (NLO, exact) / {BAND_FIT:g} (fitted NNLO/N3LO parametrisations) times (|int_0^1 reg| + |loc(0+)|), the scale of the cancellation that produces the first moment, and additionally 1e-3 * |expected| where the series coefficient does not vanish (the 0.1 % accuracy the parametrisations claim; clean tree: <= 2.2e-4 of |expected|) (measured on this tree: 4e-7 .. 1.3e-4 of that scale, worst case NNLO F3/g1 at nf=6)",
        "the first moment of a plus distribution vanishes; loc(0+) is the delta coefficient (C03)",
        "only the constraints named by the property are claimed (first moments; no higher Mellin N); the GLS coefficient at a_s^3 is checked as its two pieces: Bjorken-like non-singlet and light-by-light valence (Larin-Vermaseren)",
    )
    for nm, f in (("closed", sec_closed_forms), ("sum", lambda r: sec_sum_rules(r, tier)), ("pairing", sec_cc_pairing), ("special", H.special_functions_contract)):
        if only and only not in nm:
            continue
        rep.add(guarded(f"C04/{nm}", lambda f=f: (f(rep), [])[1]))
    if not only and rep.replay_target is None:
        rep.add(guarded("C04/selfcheck", lambda: (sec_selfcheck(rep, seed), [])[1]))
    rep.extra["rule"] = "cases = kernel class x order x nf 3..6; z symbolic"
