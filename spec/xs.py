"""Reduced cross sections, typed from docs/source/theory/intro.rst ("Cross sections"):

    sigma = N ( F2 - yL/y+ FL + (-1)^l y-/y+ xF3 ),   l = 0 leptons, 1 antileptons

returned here as the coefficient vector (c_F2, c_FL, c_xF3) = N * (1, -yL/y+, (-1)^l y-/y+).

One deviation from the page, recorded in DESIGN 6: for XSFPFCC the page prints
N = G_F^2 / (8 pi x (1+Q2/MW2)^2) y+, while the standard double-differential CC cross section
d2sigma/dx dQ2 = G_F^2 / (4 pi x (1+Q2/MW2)^2) [Y+ F2 -/+ Y- xF3 - y^2 FL] (PDG; FPF papers) has
4 pi; the spec uses 4 pi (the page has a typo) together with the GeV^-2 -> pb conversion.
"""
import math

GEV_CM2_CONV = 3.893793e10  # GeV^-2 -> 10^-38 cm^2 (value quoted by the package)


def coeffs(kind, y, x, Q2, projectile_pid, M2target, M2W, GF, sqrt=math.sqrt):
    yp = 1 + (1 - y) ** 2
    ym = 1 - (1 - y) ** 2
    yL = y**2
    sign = -1 if projectile_pid < 0 else 1
    if kind == "F1":  # 2xF1 = F2 - FL
        return (1, -1, 0)
    if kind == "XSHERANCAVG":
        return (1, -yL / yp, 0)
    if kind == "XSHERANC":
        return (1, -yL / yp, sign * ym / yp)
    if kind == "XSHERACC":
        return (yp / 4, -yL / 4, sign * ym / 4)
    if kind == "FW":
        Mh = sqrt(M2target)
        yLw = y**2 / (2 * (y**2 / 2 + (1 - y) - (Mh * x * y) ** 2 / Q2))
        return (1, -yLw, 0)
    # below N = N0 * y+ is multiplied out: N (1, -yL/y+, +-y-/y+) = N0 (y+, -yL, +-y-)
    if kind == "XSFPFCC":
        N0 = (GEV_CM2_CONV / 100) * GF**2 / (4 * math.pi * x * (1 + Q2 / M2W) ** 2)
        return (N0 * yp, -N0 * yL, sign * N0 * ym)
    Mh = sqrt(M2target)
    ypc = 1 + (1 - y) ** 2 - 2 * (x * y * Mh) ** 2 / Q2
    if kind == "XSCHORUSCC":
        N0 = GEV_CM2_CONV * GF**2 * Mh / (2 * math.pi * (1 + Q2 / M2W) ** 2)
    elif kind == "XSNUTEVCC":
        N0 = 100 / (2 * (1 + Q2 / M2W) ** 2)
    elif kind == "XSNUTEVNU":
        N0 = GEV_CM2_CONV * GF**2 * Mh / (2 * math.pi)
    else:
        raise ValueError(kind)
    return (N0 * ypc, -N0 * yL, sign * N0 * ym)


def coeffs_polarized(kind):
    if kind == "g5":  # 2xg5 = g4 - gL on the basis (g4, gL, 2xg1)
        return (1, -1, 0)
    raise ValueError(kind)
