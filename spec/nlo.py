"""NLO massless coefficient functions in the normalisation a_s = alpha_s/(4 pi), typed from the
literature (Bardeen, Buras, Duke, Muta 1978; Furmanski-Petronzio 1982; quoted e.g. in
Ellis-Stirling-Webber ch. 4 in alpha_s/(2 pi), here multiplied by 2; van Neerven-Vogt
hep-ph/9907472 eqs. (3.1)-(3.3); polarised: Zijlstra-van Neerven (1994), de Florian-Sassot):

 c_{2,q}^{(1)} = CF { 4 [ln(1-z)/(1-z)]_+ - 3 [1/(1-z)]_+ - 2(1+z) ln(1-z) - 2 (1+z^2)/(1-z) ln z
                      + 6 + 4z - (4 zeta2 + 9) delta(1-z) }
 c_{2,g}^{(1)} = 4 nf TR { (1 - 2z + 2z^2) ln((1-z)/z) - 1 + 8 z (1-z) }
 c_{L,q}^{(1)} = 4 CF z                      c_{L,g}^{(1)} = 16 nf TR z (1-z)
 c_{3,q}^{(1)} = c_{2,q}^{(1)} - 2 CF (1+z)
 Delta c_q^{(1)} (2x g1) = c_{3,q}^{(1)}
 Delta c_g^{(1)} = 4 nf TR { (2z-1) (ln((1-z)/z) - 1) + 2 (1-z) }

Each quark coefficient is returned as (reg(z), [c_0, c_1] of the plus distributions
sum_k c_k [ln^k(1-z)/(1-z)]_+, delta coefficient).
"""
from fractions import Fraction as Fr
import math

CF = Fr(4, 3)
TR = Fr(1, 2)
ZETA2 = math.pi**2 / 6


def c2q(z, log):
    reg = CF * (-2 * (1 + z) * log(1 - z) - 2 * (1 + z**2) / (1 - z) * log(z) + 6 + 4 * z)
    return reg, [-3 * CF, 4 * CF], -CF * (4 * ZETA2 + 9)


def c3q(z, log):
    reg, plus, delta = c2q(z, log)
    return reg - 2 * CF * (1 + z), plus, delta


def g1q(z, log):
    return c3q(z, log)


def cLq(z, log):
    return 4 * CF * z, [], 0


def c2g(z, nf, log):
    return 4 * nf * TR * ((1 - 2 * z + 2 * z**2) * log((1 - z) / z) - 1 + 8 * z * (1 - z))


def cLg(z, nf, log):
    return 16 * nf * TR * z * (1 - z)


def g1g(z, nf, log):
    return 4 * nf * TR * ((2 * z - 1) * (log((1 - z) / z) - 1) + 2 * (1 - z))
