"""Target-mass corrections, typed from the literature in the conventions in which yadism
stores the structure functions (F2, FL, xF3, 2x g1):

Schienbein et al., J.Phys.G35 (2008) 053101, eqs. (22)-(26) [exact], (28)-(30) [approximate];
Goharipour-Rostami eq. (2),(4); polarised: Bluemlein-Tkabladze NPB553 (1999) 427 eq. (twist-2
g1), Accardi-Melnitchouk PLB670 (2008) 114 (D.26).

 mu = M^2/Q^2,  r = sqrt(1+4 x^2 mu),  xi = 2x/(1+r)
 h2[F](xi) = int_xi^1 du F(u)/u^2        g2[F](xi) = int_xi^1 du (u-xi) F(u)/u^2
 h3[F3]    = int_xi^1 du F3(u)/u  = h2[xF3]            (xF3 is what is stored)
 k1[g1]    = int_xi^1 du g1(u)/u  = h2[2x g1]/2
 k2[g1]    = int_xi^1 du ln(u/xi) g1(u)/u = l2[2x g1]/2, l2[F] = int_xi^1 du ln(u/xi) F(u)/u^2

 F2^TMC  = x^2/(xi^2 r^3) F2(xi) + 6 mu x^3/r^4 h2[F2] + 12 mu^2 x^4/r^5 g2[F2]
 FL^TMC  = x^2/(xi^2 r)   FL(xi) + 4 mu x^3/r^2 h2[F2] +  8 mu^2 x^4/r^3 g2[F2]
 xF3^TMC = x^2/(xi^2 r^2) xF3(xi) + 2 mu x^3/r^3 h2[xF3]
 g1^TMC  = x/(xi r^3) g1(xi) + 4 mu x^2/r^4 [ (x+xi)/xi k1 + (r^2-3)/(2 r) k2 ]
   =>  2x g1^TMC = x^2/(xi^2 r^3) G(xi) + 4 mu x^3/r^4 [ (x+xi)/xi h2[G] + (r^2-3)/(2r) l2[G] ],  G = 2x g1
 APFEL  = exact with the nested integral (g2 resp. k2) dropped.
 approximate (Schienbein eqs. 28-30):
 F2  ~ x^2/(xi^2 r^3) F2(xi) [1 + 6 mu x xi/r (1-xi)^2]
 FL  ~ x^2/(xi^2 r) [FL(xi) + F2(xi) (4 mu x xi/r (1-xi) + 8 (mu x xi/r)^2 (-ln xi - 1 + xi))]
 xF3 ~ x^2/(xi^2 r^2) xF3(xi) [1 - mu x xi/r (1-xi) ln xi]
 g1  ~ exact with G(u) -> G(xi) under the integrals: h2 -> G(xi)(1-xi)/xi, l2 -> G(xi)(1/xi - 1 + ln xi)

Each formula is returned as a list of (coefficient, term) with term one of
 ("F", kind)          structure function of `kind` at the shifted point xi
 ("I", kind, weight)  integral of the structure function of `kind` with weight in
                      {"1/u^2", "(u-xi)/u^2", "ln(u/xi)/u^2"}
"""


def variables(x, mu, sqrt):
    r = sqrt(1 + 4 * x**2 * mu)
    xi = 2 * x / (1 + r)
    return r, xi


def formula(kind, mode, x, mu, sqrt, log):
    """mode: 1 APFEL, 2 approximate, 3 exact."""
    r, xi = variables(x, mu, sqrt)
    if kind == "F2":
        sh = x**2 / (xi**2 * r**3)
        if mode == 2:
            return [(sh * (1 + 6 * mu * x * xi / r * (1 - xi) ** 2), ("F", "F2"))]
        out = [(sh, ("F", "F2")), (6 * mu * x**3 / r**4, ("I", "F2", "1/u^2"))]
        if mode == 3:
            out.append((12 * mu**2 * x**4 / r**5, ("I", "F2", "(u-xi)/u^2")))
        return out
    if kind == "FL":
        sh = x**2 / (xi**2 * r)
        if mode == 2:
            return [(sh, ("F", "FL")), (sh * (4 * mu * x * xi / r * (1 - xi) + 8 * (mu * x * xi / r) ** 2 * (-log(xi) - 1 + xi)), ("F", "F2"))]
        out = [(sh, ("F", "FL")), (4 * mu * x**3 / r**2, ("I", "F2", "1/u^2"))]
        if mode == 3:
            out.append((8 * mu**2 * x**4 / r**3, ("I", "F2", "(u-xi)/u^2")))
        return out
    if kind == "F3":
        sh = x**2 / (xi**2 * r**2)
        if mode == 2:
            return [(sh * (1 - mu * x * xi / r * (1 - xi) * log(xi)), ("F", "F3"))]
        return [(sh, ("F", "F3")), (2 * mu * x**3 / r**3, ("I", "F3", "1/u^2"))]
    if kind == "g1":
        sh = x**2 / (xi**2 * r**3)
        c = 4 * mu * x**3 / r**4
        c1 = c * (x + xi) / xi
        c2 = c * (r**2 - 3) / (2 * r)
        if mode == 2:
            return [(sh + c1 * (1 - xi) / xi + c2 * (1 / xi - 1 + log(xi)), ("F", "g1"))]
        out = [(sh, ("F", "g1")), (c1, ("I", "g1", "1/u^2"))]
        if mode == 3:
            out.append((c2, ("I", "g1", "ln(u/xi)/u^2")))
        return out
    raise ValueError(kind)


# change of variables u = xi/z (lemma L-cov, DESIGN appendix): int_xi^1 du w(u) F(u) is the Mellin
# convolution at xi of F with the kernel k(z) below (k(z) = (xi/z) w(xi/z) ... worked out):
KERNEL_OF_WEIGHT = {
    "1/u^2": lambda z, xi, log: z / xi,
    "(u-xi)/u^2": lambda z, xi, log: 1 - z,
    "1/u": lambda z, xi, log: 1,
    "ln(u/xi)/u^2": lambda z, xi, log: z * log(1 / z) / xi,
}


# the weights themselves, as functions of u (for the machine check of L-cov's kernel table:
# k(z) == (xi/z) * w(xi/z), which is what the substitution u = xi/z, du = -xi dz/z^2 gives)
WEIGHT = {
    "1/u^2": lambda u, xi, log: 1 / u**2,
    "(u-xi)/u^2": lambda u, xi, log: (u - xi) / u**2,
    "1/u": lambda u, xi, log: 1 / u,
    "ln(u/xi)/u^2": lambda u, xi, log: log(u / xi) / u**2,
}
