"""First-moment constraints on the non-singlet coefficient functions (a_s = alpha_s/4pi):

 Adler:   int_0^1 dz c_{2,ns}^{nu - nubar}(z) = 0 at every order.
 GLS / polarised Bjorken (non-singlet part), a = alpha_s/pi = 4 a_s:
   1 - a - (55/12 - nf/3) a^2
     - [13841/216 + 44/9 zeta3 - 55/2 zeta5 - nf (10339/1296 + 61/54 zeta3 - 5/3 zeta5) + 115/648 nf^2] a^3
   (Gorishny-Larin 1986; Larin-Vermaseren 1991)
 => first moments of c_{3,ns}^{(k)} and of the 2x g1 non-singlet coefficient:
   k=1: -3 CF = -4,   k=2: -16 (55/12 - nf/3),   k=3: -64 [ ... ]
 GLS beyond Bjorken: the light-by-light ("fl02", valence) term, first at a^3 (Larin-Vermaseren 1991):
   + nf (d^{abc} d^{abc} / n_c) (zeta3/8 - 11/192) a^3,   d^{abc} d^{abc} / n_c = 40/9
   (numerically 0.4132 nf: the GLS a^3 coefficient is -41.44 + 8.02 nf - 0.177 nf^2, the Bjorken one
   -41.44 + 7.607 nf - 0.177 nf^2)  =>  first moment of the valence coefficient c_{3,v}^{(3)}: +64 nf (40/9)(zeta3/8 - 11/192);
   no such term at lower orders.
"""
import mpmath as mp

ZETA3 = mp.zeta(3)
ZETA5 = mp.zeta(5)


def adler(order, nf):
    return mp.mpf(0)


def bjorken(order, nf):
    nf = mp.mpf(nf)
    if order == 1:
        return mp.mpf(-4)
    if order == 2:
        return -16 * (mp.mpf(55) / 12 - nf / 3)
    if order == 3:
        c = mp.mpf(13841) / 216 + mp.mpf(44) / 9 * ZETA3 - mp.mpf(55) / 2 * ZETA5 - nf * (mp.mpf(10339) / 1296 + mp.mpf(61) / 54 * ZETA3 - mp.mpf(5) / 3 * ZETA5) + mp.mpf(115) / 648 * nf**2
        return -64 * c
    raise ValueError(order)


def gls_valence(order, nf):
    if order < 3:
        return mp.mpf(0)
    if order == 3:
        return 64 * mp.mpf(nf) * mp.mpf(40) / 9 * (ZETA3 / 8 - mp.mpf(11) / 192)
    raise ValueError(order)

