"""Electroweak parton-model weights, typed from the PDG review "Structure functions"
(eqs. for F2^NC, xF3^NC with lepton polarisation, and the CC parton model), *not* from
the code and not from docs/theory/fact.rst (which has typos in eta_gammaZ and xF3^NC).

Conventions
-----------
lepton (e-): e_l = -1, g_V^e = -1/2 + 2 s2w, g_A^e = -1/2
quark q:     e_q, g_V^q = T3_q - 2 e_q s2w, g_A^q = T3_q
eta_gZ = Q2/(Q2+MZ2) / (4 s2w (1-s2w)) / (1-Delta)        eta_Z = eta_gZ^2
For e^-/+ with polarisation lambda (PDG, upper sign e+, lower sign e-):
 F2^NC  = F2^g - (gV -/+ ... )   written below with s = +1 for e+, -1 for e-:
 F2^NC  = F2^g  - (gVe + s*lam*gAe) eta_gZ F2^gZ + (gVe^2+gAe^2 + 2 s lam gVe gAe) eta_Z F2^Z
 xF3^NC =       - (gAe + s*lam*gVe) eta_gZ xF3^gZ + (2 gVe gAe + s lam (gVe^2+gAe^2)) eta_Z xF3^Z
 [F2^g, F2^gZ, F2^Z]  = x sum_q [e_q^2, 2 e_q gV_q, gV_q^2 + gA_q^2] (q + qbar)
 [xF3^gZ, xF3^Z]      = x sum_q [2 e_q gA_q, 2 gV_q gA_q] (q - qbar)
For neutrinos the PDG NC expressions are obtained with e_l = 0 (no photon), gV = gA = 1/2
and lam = -1 (nu) / +1 (nubar) helicity; the yadism convention keeps `polarization` as a
free parameter for neutrinos too, with the opposite sign convention of charged leptons of
the same pid parity; the spec below follows the *general chiral form*
   sum over lepton chiralities of (coupling)^2 weighted by (1 -/+ lam)/2
which reduces to the PDG formulas above for charged leptons.

The refinement into quark coupling types (VV, AA, VA, AV) used for massive quarks:
   VV: e_q^2, 2 e_q gV_q -> e_q gV_q (x2 from the interference), gV_q^2
   AA: 0, 0, gA_q^2          VA: 0, e_q gA_q, gV_q gA_q        AV: 0, 0, gA_q gV_q
so that VV+AA and VA+AV are the PDG parity-conserving / -violating weights.
"""
from fractions import Fraction as Fr

UP = (2, 4, 6)
DOWN = (1, 3, 5)


def e_q(q):
    return Fr(2, 3) if q % 2 == 0 else Fr(-1, 3)


def t3_q(q):
    return Fr(1, 2) if q % 2 == 0 else Fr(-1, 2)


def gv_q(q, s2w):
    return t3_q(q) - 2 * e_q(q) * s2w


def ga_q(q):
    return t3_q(q)


def lepton(projectile_pid):
    """(e_l, T3_l, s) with s=+1 for antiparticles."""
    a = abs(projectile_pid)
    if a in (11, 13, 15):
        e, t3 = Fr(-1), Fr(-1, 2)
    elif a in (12, 14, 16):
        e, t3 = Fr(0), Fr(1, 2)
    else:
        raise ValueError(projectile_pid)
    return e, t3, (1 if projectile_pid < 0 else -1)


def eta_gZ(Q2, MZ2, s2w, delta):
    return Q2 / (Q2 + MZ2) / (4 * s2w * (1 - s2w)) / (1 - delta)


def eta_W(Q2, MZ2, MW2, s2w, delta):
    # PDG: eta_W = 1/2 (G_F M_W^2/(4 pi alpha) Q2/(Q2+M_W^2))^2 ; with the tree-level relation
    # G_F M_Z^2/(2 sqrt2 pi alpha) = 1/(4 s2w c2w) =: k this is ((k/2) (MZ2+Q2)/MZ2 * MW2... ) -- yadism keeps
    # eta_W only as a cross-section normalisation (not in the CC structure-function weights).
    k = eta_gZ(Q2, MZ2, s2w, delta)
    return ((k / 2) * (1 + Q2 / MZ2) / (1 + Q2 / MW2)) ** 2


def lepton_factors(projectile_pid, pol, s2w):
    """PDG lepton-side factors (for gamma-gamma, gamma-Z, ZZ) for parity conserving (pc) and
    parity violating (pv) structure functions; pol is the *particle's* polarisation lambda."""
    e_l, t3, s = lepton(projectile_pid)
    gv = t3 - 2 * e_l * s2w
    ga = t3
    lam = pol
    pc = (e_l**2, e_l * (gv + s * lam * ga), gv**2 + ga**2 + 2 * s * lam * gv * ga)
    pv = (0, e_l * (ga + s * lam * gv), 2 * gv * ga + s * lam * (gv**2 + ga**2))
    return pc, pv


def quark_factors(q, coupling_type, s2w):
    """(gamma-gamma, gamma-Z (incl. the interference factor 2), ZZ) quark-side factors."""
    q = abs(q)
    e, gv, ga = e_q(q), gv_q(q, s2w), ga_q(q)
    return {
        "VV": (e * e, 2 * e * gv, gv * gv),
        "AA": (0, 0, ga * ga),
        "VA": (0, 2 * e * ga, gv * ga),
        "AV": (0, 0, ga * gv),
    }[coupling_type]


def nc_weight(process, projectile_pid, q, coupling_type, Q2, MZ2, s2w, pol, delta, pos_charge_pid=None):
    """PDG weight of quark q for the given coupling type (EM or NC)."""
    if pos_charge_pid is not None and abs(q) != pos_charge_pid:
        return 0
    pc, pv = lepton_factors(projectile_pid, pol, s2w)
    lept = pc if coupling_type in ("VV", "AA") else pv
    qf = quark_factors(q, coupling_type, s2w)
    if process == "EM":
        return lept[0] * qf[0]
    eta = eta_gZ(Q2, MZ2, s2w, delta)
    return lept[0] * qf[0] + lept[1] * eta * qf[1] + lept[2] * eta**2 * qf[2]


def fl11_weight(process, projectile_pid, q, nf, coupling_type, Q2, MZ2, s2w, pol, delta, pos_charge_pid=None):
    """fl11 flavour class (Larin et al. Table 2 generalised): W_{q,bb'} = tr(Q_b)/nf * Q_b'.
    Sum over boson pairs (b,b') in {ph,Z}^2 of lepton factor * propagator * <g^b_first> * g^b'_second(q)."""
    if pos_charge_pid is not None and abs(q) != pos_charge_pid:
        return 0
    q = abs(q)
    first, second = coupling_type[0], coupling_type[1]
    pc, pv = lepton_factors(projectile_pid, pol, s2w)
    lept = pc if coupling_type in ("VV", "AA") else pv

    def g(quark, boson, t):
        if boson == "ph":
            return e_q(quark) if t == "V" else 0
        return gv_q(quark, s2w) if t == "V" else ga_q(quark)

    def mean(boson, t):
        return sum(g(k, boson, t) for k in range(1, nf + 1)) / Fr(nf)

    w = lept[0] * mean("ph", first) * g(q, "ph", second)
    if process == "EM":
        return w
    eta = eta_gZ(Q2, MZ2, s2w, delta)
    w = w + lept[1] * eta * (mean("ph", first) * g(q, "Z", second) + mean("Z", first) * g(q, "ph", second))
    w = w + lept[2] * eta**2 * mean("Z", first) * g(q, "Z", second)
    return w


# ------------------------------------------------------------------ charged current
ROWS = (2, 4, 6)  # u c t
COLS = (1, 3, 5)  # d s b


def ckm_mask(flavs):
    """Which squared CKM elements participate for a flavour string (docs: 'dus', 'c', 'b', 't')."""
    m = [[0] * 3 for _ in range(3)]
    if "dus" in flavs:
        m[0][0] = m[0][1] = 1  # ud, us
    if "c" in flavs:
        m[1][0] = m[1][1] = 1  # cd, cs
    if "b" in flavs:
        m[0][2] = m[1][2] = 1  # ub, cb
    if "t" in flavs:
        m[2][0] = m[2][1] = m[2][2] = 1
    return m


def cc_quark_weight(q, V, flavs):
    """2 * sum of the participating |V_ij|^2 in the row (up-type) or column (down-type) of quark q."""
    q = abs(q)
    m = ckm_mask(flavs)
    if q % 2 == 0:
        i = ROWS.index(q)
        return 2 * sum(V[i][j] * m[i][j] for j in range(3))
    j = COLS.index(q)
    return 2 * sum(V[i][j] * m[i][j] for i in range(3))


def absorbs_Wplus(projectile_pid):
    """nu and e+ emit a W+ (hits d-type quarks and ubar-type antiquarks)."""
    return projectile_pid in (12, -11)


def cc_parton_model(projectile_pid, V, flavs, nf, is_pv):
    """LO CC parton model: coefficient of each parton pid (|pid| <= nf) in F2/x (xF3/x ...).

    W+ : F2 = 2x sum |V_ij|^2 (d_j + ubar_i),  xF3 = 2x sum |V_ij|^2 (d_j - ubar_i)
    W- : F2 = 2x sum |V_ij|^2 (u_i + dbar_j),  xF3 = 2x sum |V_ij|^2 (u_i - dbar_j)
    """
    out = {}
    wp = absorbs_Wplus(projectile_pid)
    for q in range(1, nf + 1):
        w = cc_quark_weight(q, V, flavs)
        is_down = q % 2 == 1
        quark_hit = is_down if wp else not is_down
        if quark_hit:
            out[q] = w
            out[-q] = 0
        else:
            out[q] = 0
            out[-q] = -w if is_pv else w
    return out
