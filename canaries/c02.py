"""Deliberately wrong variants (never imported by yadism): the machinery must refute them."""


def leptonic_coupling_wrong(self, mode, quark_coupling_type):
    """leptonic_coupling with the polarisation flip applied to the wrong beam."""
    if mode == "WW":
        return 2
    projectile_pid = self.obs_config["projectilePID"]
    pol = self.obs_config["polarization"]
    if projectile_pid < 0:  # wrong: flips positrons instead of electrons
        pol *= -1
    projectile_v = 0.0
    projectile_a = 0.0
    if mode in ["phZ", "ZZ"]:
        projectile_v = self.vectorial_coupling(abs(projectile_pid))
        projectile_a = self.weak_isospin_3[abs(projectile_pid)]
    if mode == "phph":
        if quark_coupling_type in ["VV", "AA"]:
            return self.electric_charge[abs(projectile_pid)] ** 2
        return 0
    if mode == "phZ":
        if quark_coupling_type in ["VV", "AA"]:
            return self.electric_charge[abs(projectile_pid)] * (projectile_v + pol * projectile_a)
        return self.electric_charge[abs(projectile_pid)] * (projectile_a + pol * projectile_v)
    if quark_coupling_type in ["VV", "AA"]:
        return projectile_v**2 + projectile_a**2 + 2.0 * pol * projectile_v * projectile_a
    return 2.0 * projectile_v * projectile_a + pol * (projectile_v**2 + projectile_a**2)


def leptonic_coupling_noflip(self, mode, quark_coupling_type):
    """leptonic_coupling without any beam-dependent polarisation flip (breaks e+(P) = e-(-P))."""
    if mode == "WW":
        return 2
    projectile_pid = self.obs_config["projectilePID"]
    pol = self.obs_config["polarization"]
    projectile_v = 0.0
    projectile_a = 0.0
    if mode in ["phZ", "ZZ"]:
        projectile_v = self.vectorial_coupling(abs(projectile_pid))
        projectile_a = self.weak_isospin_3[abs(projectile_pid)]
    if mode == "phph":
        if quark_coupling_type in ["VV", "AA"]:
            return self.electric_charge[abs(projectile_pid)] ** 2
        return 0
    if mode == "phZ":
        if quark_coupling_type in ["VV", "AA"]:
            return self.electric_charge[abs(projectile_pid)] * (projectile_v + pol * projectile_a)
        return self.electric_charge[abs(projectile_pid)] * (projectile_a + pol * projectile_v)
    if quark_coupling_type in ["VV", "AA"]:
        return projectile_v**2 + projectile_a**2 + 2.0 * pol * projectile_v * projectile_a
    return 2.0 * projectile_v * projectile_a + pol * (projectile_v**2 + projectile_a**2)
