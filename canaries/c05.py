"""Deliberately wrong variant: binomial split of ln(muF^2/muR^2)^n without the alternating sign."""
from scipy.special import binom


def apply_diff_wrong_sign(self, ker_orders, nf):
    if not self.activate_fact and not self.activate_ren:
        return []
    diff_kers = self.apply_raw_diff_scale_variations(ker_orders, nf)
    ren_kers = []
    for o, k in diff_kers:
        n = o[2]
        for j in range(n + 1):
            binomial = binom(n, j)  # wrong: (-1)**j missing
            ren_kers.append(((o[0], o[1], j, n - j + o[3]), (binomial * k[0], k[1], k[2])))
    if not self.activate_ren:
        return filter(lambda e: e[0][2] == 0, ren_kers)
    if not self.activate_fact:
        return filter(lambda e: e[0][3] == 0, ren_kers)
    return ren_kers
