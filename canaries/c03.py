"""Deliberately wrong local term (1/5 instead of 1/2), mimicking the N3LO transcription slip."""
import numpy as np


def sing(y, args):
    dl1 = np.log(1.0 - y)
    return 7.67505 * dl1 / (1.0 - y) + args[0] * dl1**2 / (1.0 - y)


def loc_wrong(y, args):
    dl1 = np.log(1.0 - y)
    return 3.0 + 7.67505 * 1 / 5.0 * dl1**2 + args[0] * dl1**3 / 3.0


def loc_right(y, args):
    dl1 = np.log(1.0 - y)
    return 3.0 + 7.67505 * 0.5 * dl1**2 + args[0] * dl1**3 / 3.0
