"""Deliberately wrong variant: F3 sign not flipped for antileptons."""
import numpy as np


def xs_coeffs_wrong_sign(kind, y, params):
    yp = 1.0 + (1.0 - y) ** 2
    ym = 1.0 - (1.0 - y) ** 2
    yL = y**2
    f3sign = 1  # wrong: ignores params["projectilePID"] < 0
    return np.array([1.0, -yL / yp, f3sign * ym / yp])
