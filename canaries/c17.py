"""Deliberately wrong variant: PDF evaluated at Q2 instead of the factorisation scale."""
import math


def apply_pdf_wrong_scale(orders, Q2, pdf, pids, xgrid, alpha_s, xiR, xiF, sqrt, log):
    a_s = alpha_s(sqrt(Q2) * xiR) / (4 * math.pi)
    res = 0
    for o, (v, _e) in orders.items():
        lnF = 1.0 if o[3] == 0 else log((1 / xiF) ** 2) ** o[3]
        lnR = 1.0 if o[2] == 0 else log((1 / xiR) ** 2) ** o[2]
        contr = 0
        for a, pid in enumerate(pids):
            for j, z in enumerate(xgrid):
                contr = contr + v[a][j] * pdf.xfxQ2(pid, z, Q2) / z  # wrong: should be Q2 * xiF**2
        res = res + a_s ** o[0] * lnR * lnF * contr
    return res
