"""Deliberately wrong variant: strict inequality at the pair threshold."""


def is_below_pair_threshold_strict(self, z):
    shat = self.ESF.Q2 * (1 - z) / z
    return shat < 4 * self.m2hq
