"""Deliberately wrong variant: the plus-prescription subtraction term is dropped."""
from eko import interpolation


def quad_ker_sing_wrong(z, x, is_log, areas, sing, pdf_at_x, sing_args):
    if is_log:
        pdf_at_x_ov_z_div_z = interpolation.log_evaluate_x(x / z, areas) / z
    else:
        pdf_at_x_ov_z_div_z = interpolation.evaluate_x(x / z, areas) / z
    return sing(z, sing_args) * pdf_at_x_ov_z_div_z  # wrong: "- pdf_at_x" missing
