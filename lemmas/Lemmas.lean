/-
Machine-checked textbook lemmas used by the contract arguments of /verif (DESIGN 2.2, C01, C03).
Checked by `lean Lemmas.lean` against the pre-installed Mathlib (no network, no build step).

L-FTC  (C03):  d/dz loc = -sing on (0,z), loc continuous on [0,z], sing integrable
               ==>  loc z = loc 0 - ∫_0^z sing.
L-cov  (C10):  ∫_ξ^1 G(u) du = ∫_ξ^1 (dz/z) (ξ/z) G(ξ/z)   (u = ξ/z), G continuous on [ξ,1].
L-plus (C01):  for C = reg + [sing]_+ + δ_c δ(1-z) acting on a test function h = g·1_(x,1],
               with loc x = δ_c - ∫_0^x sing:
               ∫_0^1 reg h + ∫_0^1 sing (h - h 1) + δ_c h 1
                 = ∫_x^1 reg g + ∫_x^1 sing (g - g 1) + loc x * g 1.
-/
import Mathlib

open MeasureTheory intervalIntegral Set

namespace Yadism

/-- L-FTC: the local part is the delta coefficient minus the primitive of the singular part. -/
theorem loc_eq_delta_sub_primitive (loc sing : ℝ → ℝ) (z : ℝ) (hz : 0 ≤ z)
    (hcont : ContinuousOn loc (Icc 0 z))
    (hderiv : ∀ t ∈ Ioo 0 z, HasDerivAt loc (-(sing t)) t)
    (hint : IntervalIntegrable sing volume 0 z) :
    loc z = loc 0 - ∫ t in (0:ℝ)..z, sing t := by
  have h := integral_eq_sub_of_hasDerivAt_of_le hz hcont hderiv hint.neg
  have h2 : (∫ t in (0:ℝ)..z, -(sing t)) = -∫ t in (0:ℝ)..z, sing t := by
    simp [intervalIntegral.integral_neg]
  rw [h2] at h
  linarith

/-- L-plus: the plus prescription restricted to test functions supported in (x, 1]. -/
theorem plus_prescription_restricted (reg sing g : ℝ → ℝ) (δc x : ℝ) (hx0 : 0 ≤ x) (hx1 : x ≤ 1)
    (hreg : IntervalIntegrable (fun z => reg z * g z) volume x 1)
    (hs0 : IntervalIntegrable sing volume 0 x)
    (hs1 : IntervalIntegrable (fun z => sing z * (g z - g 1)) volume x 1) :
    let h : ℝ → ℝ := (Ioc x 1).indicator g
    (∫ z in (0:ℝ)..1, reg z * h z) + (∫ z in (0:ℝ)..1, sing z * (h z - g 1)) + δc * g 1
      = (∫ z in x..1, reg z * g z) + (∫ z in x..1, sing z * (g z - g 1))
        + (δc - ∫ z in (0:ℝ)..x, sing z) * g 1 := by
  intro h
  -- on (0, x] the test function vanishes, on (x, 1] it is g
  have h_lo : ∀ z ∈ Ioc (0:ℝ) x, h z = 0 := by
    intro z hz
    have : z ∉ Ioc x 1 := fun hz' => absurd hz.2 (not_le.mpr hz'.1)
    simp [h, Set.indicator_of_notMem this]
  have h_hi : ∀ z ∈ Ioc x (1:ℝ), h z = g z := by
    intro z hz
    simp [h, Set.indicator_of_mem hz]
  -- regular part
  have r_lo : (∫ z in (0:ℝ)..x, reg z * h z) = 0 := by
    rw [intervalIntegral.integral_of_le hx0]
    rw [MeasureTheory.setIntegral_congr_fun measurableSet_Ioc (g := fun _ => (0:ℝ))]
    · simp
    · intro z hz; simp [h_lo z hz]
  have r_hi : (∫ z in x..1, reg z * h z) = ∫ z in x..1, reg z * g z := by
    rw [intervalIntegral.integral_of_le hx1, intervalIntegral.integral_of_le hx1]
    apply MeasureTheory.setIntegral_congr_fun measurableSet_Ioc
    intro z hz; simp [h_hi z hz]
  have r_lo_int : IntervalIntegrable (fun z => reg z * h z) volume 0 x := by
    rw [intervalIntegrable_iff_integrableOn_Ioc_of_le hx0]
    have : EqOn (fun z => reg z * h z) (fun _ => (0:ℝ)) (Ioc 0 x) := by
      intro z hz; simp [h_lo z hz]
    exact (integrableOn_zero).congr_fun this.symm measurableSet_Ioc
  have r_hi_int : IntervalIntegrable (fun z => reg z * h z) volume x 1 := by
    rw [intervalIntegrable_iff_integrableOn_Ioc_of_le hx1] at hreg ⊢
    have : EqOn (fun z => reg z * g z) (fun z => reg z * h z) (Ioc x 1) := by
      intro z hz; simp [h_hi z hz]
    exact hreg.congr_fun this measurableSet_Ioc
  have r_split : (∫ z in (0:ℝ)..1, reg z * h z) = ∫ z in x..1, reg z * g z := by
    rw [← intervalIntegral.integral_add_adjacent_intervals r_lo_int r_hi_int, r_lo, r_hi, zero_add]
  -- singular part
  have s_lo : (∫ z in (0:ℝ)..x, sing z * (h z - g 1)) = -(g 1) * ∫ z in (0:ℝ)..x, sing z := by
    rw [← intervalIntegral.integral_const_mul]
    rw [intervalIntegral.integral_of_le hx0, intervalIntegral.integral_of_le hx0]
    apply MeasureTheory.setIntegral_congr_fun measurableSet_Ioc
    intro z hz; simp [h_lo z hz]; ring
  have s_hi : (∫ z in x..1, sing z * (h z - g 1)) = ∫ z in x..1, sing z * (g z - g 1) := by
    rw [intervalIntegral.integral_of_le hx1, intervalIntegral.integral_of_le hx1]
    apply MeasureTheory.setIntegral_congr_fun measurableSet_Ioc
    intro z hz; simp [h_hi z hz]
  have s_lo_int : IntervalIntegrable (fun z => sing z * (h z - g 1)) volume 0 x := by
    have base : IntervalIntegrable (fun z => -(g 1) * sing z) volume 0 x := hs0.const_mul _
    rw [intervalIntegrable_iff_integrableOn_Ioc_of_le hx0] at base ⊢
    have : EqOn (fun z => -(g 1) * sing z) (fun z => sing z * (h z - g 1)) (Ioc 0 x) := by
      intro z hz; simp [h_lo z hz]; ring
    exact base.congr_fun this measurableSet_Ioc
  have s_hi_int : IntervalIntegrable (fun z => sing z * (h z - g 1)) volume x 1 := by
    rw [intervalIntegrable_iff_integrableOn_Ioc_of_le hx1] at hs1 ⊢
    have : EqOn (fun z => sing z * (g z - g 1)) (fun z => sing z * (h z - g 1)) (Ioc x 1) := by
      intro z hz; simp [h_hi z hz]
    exact hs1.congr_fun this measurableSet_Ioc
  have s_split : (∫ z in (0:ℝ)..1, sing z * (h z - g 1))
      = -(g 1) * (∫ z in (0:ℝ)..x, sing z) + ∫ z in x..1, sing z * (g z - g 1) := by
    rw [← intervalIntegral.integral_add_adjacent_intervals s_lo_int s_hi_int, s_lo, s_hi]
  rw [r_split, s_split]
  ring

/-- L-cov (C10): the change of variables u = ξ/z behind the target-mass-correction kernels,
`∫_ξ^1 G(u) du = ∫_ξ^1 (dz/z) · (ξ/z) · G(ξ/z)` for G continuous on [ξ, 1]
(G = weight × structure function; the kernel table k(z) = (ξ/z) w(ξ/z) is machine-checked
separately by the C10 contract). -/
theorem tmc_change_of_variables (G : ℝ → ℝ) (ξ : ℝ) (h0 : 0 < ξ) (h1 : ξ ≤ 1)
    (hG : ContinuousOn G (Icc ξ 1)) :
    (∫ u in ξ..1, G u) = ∫ z in ξ..1, (1 / z) * ((ξ / z) * G (ξ / z)) := by
  have hpos : ∀ z ∈ uIcc ξ 1, 0 < z := by
    intro z hz
    rw [uIcc_of_le h1] at hz
    exact lt_of_lt_of_le h0 hz.1
  have hderiv : ∀ z ∈ uIcc ξ 1, HasDerivAt (fun z => ξ / z) (-(ξ / z ^ 2)) z := by
    intro z hz
    have hz0 : z ≠ 0 := ne_of_gt (hpos z hz)
    have h := (hasDerivAt_inv hz0).const_mul ξ
    have e1 : (fun z => ξ / z) = fun y => ξ * y⁻¹ := by funext t; rw [div_eq_mul_inv]
    have e2 : -(ξ / z ^ 2) = ξ * -(z ^ 2)⁻¹ := by rw [div_eq_mul_inv]; ring
    rw [e1, e2]; exact h
  have hcont' : ContinuousOn (fun z => -(ξ / z ^ 2)) (uIcc ξ 1) := by
    apply ContinuousOn.neg
    apply ContinuousOn.div continuousOn_const (continuousOn_id.pow 2)
    intro z hz
    exact pow_ne_zero 2 (ne_of_gt (hpos z hz))
  have himage : (fun z => ξ / z) '' uIcc ξ 1 ⊆ Icc ξ 1 := by
    rintro _ ⟨z, hz, rfl⟩
    have hz' := hz
    rw [uIcc_of_le h1] at hz'
    have hzpos := hpos z hz
    constructor
    · rw [le_div_iff₀ hzpos]; nlinarith [hz'.2]
    · rw [div_le_one hzpos]; exact hz'.1
  have hg : ContinuousOn G ((fun z => ξ / z) '' uIcc ξ 1) := hG.mono himage
  have key := integral_comp_mul_deriv' hderiv hcont' hg
  have e1 : ξ / ξ = 1 := div_self (ne_of_gt h0)
  simp only [Function.comp, e1, div_one] at key
  -- key : ∫ z in ξ..1, G (ξ / z) * -(ξ / z ^ 2) = ∫ u in 1..ξ, G u
  rw [intervalIntegral.integral_symm ξ 1] at key
  have : (∫ z in ξ..1, (1 / z) * ((ξ / z) * G (ξ / z))) = -∫ z in ξ..1, G (ξ / z) * -(ξ / z ^ 2) := by
    rw [← intervalIntegral.integral_neg]
    apply intervalIntegral.integral_congr
    intro z hz
    have hz0 : z ≠ 0 := ne_of_gt (hpos z hz)
    field_simp
  rw [this, key, neg_neg]

end Yadism

#print axioms Yadism.loc_eq_delta_sub_primitive
#print axioms Yadism.plus_prescription_restricted
#print axioms Yadism.tmc_change_of_variables
