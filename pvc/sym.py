"""Symbolic reals / booleans for running real yadism code objects symbolically.

R  -- hash-consed term over the reals (operator overloading builds the IR)
B  -- symbolic boolean; ``bool(B)`` is a *fork* handled by the active explorer

Floats meeting symbols are turned into exact rationals (DESIGN 2.3).
Any other concretisation (float(), int(), hash-as-value, index) raises OutOfReach.
"""
from __future__ import annotations

import math
import numbers
from fractions import Fraction

import numpy as np


class OutOfReach(Exception):
    """The code tried to concretise a symbolic value: obligation is undecided."""


class Infeasible(Exception):
    """Current path condition became unsatisfiable."""


# ----------------------------------------------------------------------------
# float -> exact rational
_FRAC_CACHE = {}


def to_frac(x):
    if isinstance(x, Fraction):
        return x
    if isinstance(x, (bool, np.bool_)):
        return Fraction(int(x))
    if isinstance(x, (int, np.integer)):
        return Fraction(int(x))
    if isinstance(x, (float, np.floating)):
        x = float(x)
        f = _FRAC_CACHE.get(x)
        if f is not None:
            return f
        if math.isnan(x) or math.isinf(x):
            raise OutOfReach(f"non-finite float constant {x}")
        f = Fraction(x).limit_denominator(10**6)
        if float(f) != x:
            f = Fraction(repr(x))
        _FRAC_CACHE[x] = f
        return f
    raise TypeError(f"not a real constant: {type(x)}")


def is_number(x):
    return isinstance(x, (int, float, Fraction, np.integer, np.floating, bool, np.bool_))


# ----------------------------------------------------------------------------
_INTERN = {}
CTX = None  # active PathCtx (set by explore)

KNOWN_FUNCS = ("log", "logabs", "exp", "sqrt", "li2", "li3", "atan", "atanh", "spence")


class R:
    __slots__ = ("op", "args", "_id")
    __array_priority__ = 1000.0
    _count = 0

    def __new__(cls, op, args):
        key = (op, args)
        o = _INTERN.get(key)
        if o is None:
            o = object.__new__(cls)
            o.op = op
            o.args = args
            R._count += 1
            o._id = R._count
            _INTERN[key] = o
        return o

    # -- structure -----------------------------------------------------------
    def __hash__(self):
        return self._id

    def __reduce__(self):
        return (_rebuild, (self.op, self.args))

    @property
    def is_const(self):
        return self.op == "c"

    @property
    def value(self):
        return self.args[0]

    # -- constructors ---------------------------------------------------------
    @staticmethod
    def const(x):
        return R("c", (to_frac(x),))

    @staticmethod
    def var(name):
        return R("v", (name,))

    @staticmethod
    def _arr(x):
        return isinstance(x, np.ndarray) and x.shape != ()

    @staticmethod
    def lift(x):
        if isinstance(x, R):
            return x
        if is_number(x):
            return R.const(x)
        if isinstance(x, np.ndarray) and x.shape == ():
            return R.lift(x.item())
        return None

    # -- arithmetic ------------------------------------------------------------
    def __add__(self, other):
        if isinstance(other, (complex, np.complexfloating, Cx)):
            return getattr(Cx(self, 0), "__add__")(other)
        if R._arr(other):
            return np.add(_obj0(self), other)
        o = R.lift(other)
        if o is None:
            return NotImplemented
        return add(self, o)

    def __radd__(self, other):
        if isinstance(other, (complex, np.complexfloating, Cx)):
            return getattr(Cx(self, 0), "__radd__")(other)
        if R._arr(other):
            return np.add(other, _obj0(self))
        o = R.lift(other)
        if o is None:
            return NotImplemented
        return add(o, self)

    def __sub__(self, other):
        if isinstance(other, (complex, np.complexfloating, Cx)):
            return getattr(Cx(self, 0), "__sub__")(other)
        if R._arr(other):
            return np.subtract(_obj0(self), other)
        o = R.lift(other)
        if o is None:
            return NotImplemented
        return add(self, neg(o))

    def __rsub__(self, other):
        if isinstance(other, (complex, np.complexfloating, Cx)):
            return getattr(Cx(self, 0), "__rsub__")(other)
        if R._arr(other):
            return np.subtract(other, _obj0(self))
        o = R.lift(other)
        if o is None:
            return NotImplemented
        return add(o, neg(self))

    def __mul__(self, other):
        if isinstance(other, (complex, np.complexfloating, Cx)):
            return getattr(Cx(self, 0), "__mul__")(other)
        if R._arr(other):
            return np.multiply(_obj0(self), other)
        o = R.lift(other)
        if o is None:
            return NotImplemented
        return mul(self, o)

    def __rmul__(self, other):
        if isinstance(other, (complex, np.complexfloating, Cx)):
            return getattr(Cx(self, 0), "__rmul__")(other)
        if R._arr(other):
            return np.multiply(other, _obj0(self))
        o = R.lift(other)
        if o is None:
            return NotImplemented
        return mul(o, self)

    def __truediv__(self, other):
        if isinstance(other, (complex, np.complexfloating, Cx)):
            return getattr(Cx(self, 0), "__truediv__")(other)
        if R._arr(other):
            return np.true_divide(_obj0(self), other)
        o = R.lift(other)
        if o is None:
            return NotImplemented
        return mul(self, inv(o))

    def __rtruediv__(self, other):
        if isinstance(other, (complex, np.complexfloating, Cx)):
            return getattr(Cx(self, 0), "__rtruediv__")(other)
        if R._arr(other):
            return np.true_divide(other, _obj0(self))
        o = R.lift(other)
        if o is None:
            return NotImplemented
        return mul(o, inv(self))

    def __neg__(self):
        return neg(self)

    def __pos__(self):
        return self

    def __pow__(self, other):
        if isinstance(other, R):
            if other.is_const:
                other = other.value
            else:
                return fn("exp", mul(other, fn("log", self)))
        if is_number(other):
            e = to_frac(other)
            if e.denominator == 1:
                return power(self, int(e))
            if e == Fraction(1, 2):
                return fn("sqrt", self)
            if e == Fraction(-1, 2):
                return inv(fn("sqrt", self))
            if e.denominator == 2:
                n = (e.numerator - 1) // 2
                return mul(power(self, n), fn("sqrt", self))
            return fn("exp", mul(R.const(e), fn("log", self)))
        return NotImplemented

    def __rpow__(self, other):
        if is_number(other):
            b = to_frac(other)
            if self.is_const and self.value.denominator == 1:
                return R.const(b ** int(self.value))
            if b > 0:
                return fn("exp", mul(self, fn("log", R.const(b))))
        return NotImplemented

    def __abs__(self):
        if self.is_const:
            return R.const(abs(self.value))
        return self if bool(self >= 0) else neg(self)

    # numpy object loops call these
    def log(self):
        return fn("log", self)

    def log1p(self):
        return fn("log", 1 + self)

    def expm1(self):
        return fn("exp", self) - 1

    def log2(self):
        return fn("log", self) / fn("log", R.lift(2))

    def log10(self):
        return fn("log", self) / fn("log", R.lift(10))

    def exp(self):
        return fn("exp", self)

    def sqrt(self):
        return fn("sqrt", self)

    def arctan(self):
        return fn("atan", self)

    def arctanh(self):
        return fn("atanh", self)

    def conjugate(self):
        return self

    @property
    def real(self):
        return self

    @property
    def imag(self):
        return R.const(0)

    # -- comparisons -----------------------------------------------------------
    @staticmethod
    def _inf(x):
        """+1 / -1 for a float infinity, else 0 (symbolic reals are finite)."""
        if isinstance(x, (float, np.floating)) and math.isinf(x):
            return 1 if x > 0 else -1
        return 0

    def _cmp(self, other, op):
        i = R._inf(other)
        if i:
            return i > 0
        o = R.lift(other)
        if o is None:
            return NotImplemented
        return compare(op, self, o)

    def __lt__(self, other):
        return self._cmp(other, "<")

    def __le__(self, other):
        return self._cmp(other, "<=")

    def __gt__(self, other):
        i = R._inf(other)
        if i:
            return i < 0
        o = R.lift(other)
        if o is None:
            return NotImplemented
        return compare("<", o, self)

    def __ge__(self, other):
        i = R._inf(other)
        if i:
            return i < 0
        o = R.lift(other)
        if o is None:
            return NotImplemented
        return compare("<=", o, self)

    def __eq__(self, other):
        if R._inf(other):
            return False
        o = R.lift(other)
        if o is None:
            return False
        return compare("==", self, o)

    def __ne__(self, other):
        if R._inf(other):
            return True
        o = R.lift(other)
        if o is None:
            return True
        r = compare("==", self, o)
        if isinstance(r, bool):
            return not r
        return Not(r)

    # -- concretisation is out of reach -----------------------------------------
    def __float__(self):
        if self.is_const:
            return float(self.value)
        raise OutOfReach(f"float() of symbolic value {self}")

    def __int__(self):
        if self.is_const and self.value.denominator == 1:
            return int(self.value)
        raise OutOfReach(f"int() of symbolic value {self}")

    __index__ = __int__

    def __complex__(self):
        if self.is_const:
            return complex(float(self.value))
        raise OutOfReach("complex() of symbolic value")

    def __bool__(self):
        if self.is_const:
            return self.value != 0
        return bool(Not(compare("==", self, R.const(0))))

    def __round__(self, n=None):
        raise OutOfReach("round() of symbolic value")

    def __repr__(self):
        return show(self)

    def __format__(self, spec):
        return show(self)


def _obj0(x):
    a = np.empty((), dtype=object)
    a[()] = x
    return a


def _rebuild(op, args):
    return R(op, args)


ZERO = R.const(0)
ONE = R.const(1)
numbers.Real.register(R)  # symbolic reals are numbers for ``isinstance(x, numbers.Number)`` guards


class Cx:
    """Symbolic complex number with symbolic-real parts (asymptotic kernels use complex
    intermediate arithmetic and take ``.real`` at the end)."""

    __slots__ = ("real", "imag")
    __array_priority__ = 1001.0

    def __init__(self, re, im=0):
        self.real = R.lift(re)
        self.imag = R.lift(im)

    @staticmethod
    def lift(x):
        if isinstance(x, Cx):
            return x
        if isinstance(x, R) or is_number(x):
            return Cx(x, 0)
        if isinstance(x, (complex, np.complexfloating)):
            return Cx(x.real, x.imag)
        return None

    def __add__(self, o):
        o = Cx.lift(o)
        if o is None:
            return NotImplemented
        return Cx(self.real + o.real, self.imag + o.imag)

    __radd__ = __add__

    def __neg__(self):
        return Cx(-self.real, -self.imag)

    def __sub__(self, o):
        o = Cx.lift(o)
        if o is None:
            return NotImplemented
        return Cx(self.real - o.real, self.imag - o.imag)

    def __rsub__(self, o):
        o = Cx.lift(o)
        if o is None:
            return NotImplemented
        return Cx(o.real - self.real, o.imag - self.imag)

    def __mul__(self, o):
        o = Cx.lift(o)
        if o is None:
            return NotImplemented
        return Cx(self.real * o.real - self.imag * o.imag, self.real * o.imag + self.imag * o.real)

    __rmul__ = __mul__

    def __truediv__(self, o):
        o = Cx.lift(o)
        if o is None:
            return NotImplemented
        den = o.real * o.real + o.imag * o.imag
        return Cx((self.real * o.real + self.imag * o.imag) / den, (self.imag * o.real - self.real * o.imag) / den)

    def __rtruediv__(self, o):
        o = Cx.lift(o)
        if o is None:
            return NotImplemented
        return o.__truediv__(self)

    def __pow__(self, n):
        if isinstance(n, R) and n.is_const:
            n = n.value
        n = to_frac(n)
        if n.denominator != 1 or n < 0:
            raise OutOfReach("complex power")
        r = Cx(1, 0)
        for _ in range(int(n)):
            r = r * self
        return r

    def conjugate(self):
        return Cx(self.real, -self.imag)

    def __repr__(self):
        return f"({self.real!r} + {self.imag!r}j)"


_SUPPRESS_SIDES = [0]


class no_sides:
    """Context manager: evaluate helper/spec expressions without recording definedness
    side conditions (used for auxiliary symbolic probes such as kernel classification)."""

    def __enter__(self):
        _SUPPRESS_SIDES[0] += 1

    def __exit__(self, *a):
        _SUPPRESS_SIDES[0] -= 1


def record_side(kind, term):
    """Record a definedness side condition (den != 0, log arg > 0, sqrt arg >= 0)."""
    if CTX is not None and not _SUPPRESS_SIDES[0]:
        CTX.side(kind, term)


def add(a, b):
    if a.is_const and b.is_const:
        return R.const(a.value + b.value)
    if a.is_const and a.value == 0:
        return b
    if b.is_const and b.value == 0:
        return a
    terms = (a.args if a.op == "+" else (a,)) + (b.args if b.op == "+" else (b,))
    # fold constants
    c = Fraction(0)
    rest = []
    for t in terms:
        if t.is_const:
            c += t.value
        else:
            rest.append(t)
    if c != 0:
        rest.append(R.const(c))
    if not rest:
        return ZERO
    if len(rest) == 1:
        return rest[0]
    return R("+", tuple(rest))


def neg(a):
    if a.is_const:
        return R.const(-a.value)
    return mul(R.const(-1), a)


def mul(a, b):
    if a.is_const and b.is_const:
        return R.const(a.value * b.value)
    if (a.is_const and a.value == 0) or (b.is_const and b.value == 0):
        return ZERO
    if a.is_const and a.value == 1:
        return b
    if b.is_const and b.value == 1:
        return a
    terms = (a.args if a.op == "*" else (a,)) + (b.args if b.op == "*" else (b,))
    c = Fraction(1)
    rest = []
    for t in terms:
        if t.is_const:
            c *= t.value
        else:
            rest.append(t)
    if c == 0:
        return ZERO
    if c != 1:
        rest.insert(0, R.const(c))
    if not rest:
        return ONE
    if len(rest) == 1:
        return rest[0]
    return R("*", tuple(rest))


def inv(a):
    if a.is_const:
        if a.value == 0:
            record_side("div0", a)
            raise ZeroDivisionError("symbolic engine: division by constant zero")
        return R.const(1 / a.value)
    record_side("nonzero", a)
    if a.op == "^":
        return R("^", (a.args[0], -a.args[1]))
    return R("^", (a, -1))


def power(a, n):
    if n == 0:
        return ONE
    if n == 1:
        return a
    if a.is_const:
        if a.value == 0 and n < 0:
            raise ZeroDivisionError("symbolic engine: 0 ** negative")
        return R.const(a.value**n)
    if n < 0:
        record_side("nonzero", a)
    if a.op == "^":
        return R("^", (a.args[0], a.args[1] * n))
    return R("^", (a, n))


def fn(name, *args):
    args = tuple(R.lift(a) for a in args)
    if all(a.is_const for a in args):
        v = _const_fn(name, [a.value for a in args])
        if v is not None:
            return v
    if name == "log":
        record_side("pos", args[0])
    elif name == "logabs":
        record_side("nonzero", args[0])
    elif name == "sqrt":
        record_side("nonneg", args[0])
    elif name == "atanh":
        record_side("absless1", args[0])
    return R("f", (name,) + args)


def _const_fn(name, vals):
    x = vals[0]
    if name == "log":
        if x == 1:
            return ZERO
        if x <= 0:
            raise ValueError("symbolic engine: log of non-positive constant")
    if name == "exp" and x == 0:
        return ONE
    if name == "sqrt":
        if x < 0:
            raise ValueError("symbolic engine: sqrt of negative constant")
        n, d = x.numerator, x.denominator
        rn, rd = math.isqrt(n), math.isqrt(d)
        if rn * rn == n and rd * rd == d:
            return R.const(Fraction(rn, rd))
    if name == "li2" and x == 0:
        return ZERO
    if name == "atan" and x == 0:
        return ZERO
    return None


def uf(name, *args):
    """Application of an uninterpreted function; args: R or hashable concrete values."""
    a = tuple(x if isinstance(x, R) else (R.const(x) if isinstance(x, (float, np.floating)) else x) for x in args)
    return R("u", (name,) + a)


# ----------------------------------------------------------------------------
class B:
    __slots__ = ("op", "args", "_id")
    _count = 0
    _intern = {}

    def __new__(cls, op, args):
        key = (op, args)
        o = B._intern.get(key)
        if o is None:
            o = object.__new__(cls)
            o.op = op
            o.args = args
            B._count += 1
            o._id = B._count
            B._intern[key] = o
        return o

    def __hash__(self):
        return self._id

    def __reduce__(self):
        return (_rebuild_b, (self.op, self.args))

    def __bool__(self):
        if CTX is None:
            raise OutOfReach(f"bool() of symbolic condition outside exploration: {self}")
        return CTX.decide(self)

    def __invert__(self):
        return Not(self)

    def __and__(self, other):
        return And(self, other)

    def __rand__(self, other):
        return And(other, self)

    def __or__(self, other):
        return Or(self, other)

    def __ror__(self, other):
        return Or(other, self)

    def __eq__(self, other):
        return self is other

    def __ne__(self, other):
        return self is not other

    def __repr__(self):
        return showb(self)


def _rebuild_b(op, args):
    return B(op, args)


def compare(op, a, b):
    if a.is_const and b.is_const:
        x, y = a.value, b.value
        return {"<": x < y, "<=": x <= y, "==": x == y}[op]
    if a is b:
        return op != "<"
    return B(op, (a, b))


def Not(b):
    if isinstance(b, (bool, np.bool_)):
        return not b
    if b.op == "not":
        return b.args[0]
    return B("not", (b,))


def And(*bs):
    out = []
    for b in bs:
        if isinstance(b, (bool, np.bool_)):
            if not b:
                return False
            continue
        if b.op == "and":
            out.extend(b.args)
        else:
            out.append(b)
    if not out:
        return True
    if len(out) == 1:
        return out[0]
    return B("and", tuple(out))


def Or(*bs):
    out = []
    for b in bs:
        if isinstance(b, (bool, np.bool_)):
            if b:
                return True
            continue
        if b.op == "or":
            out.extend(b.args)
        else:
            out.append(b)
    if not out:
        return False
    if len(out) == 1:
        return out[0]
    return B("or", tuple(out))


def Implies(a, b):
    return Or(Not(a), b)


def Eq(a, b):
    a, b = R.lift(a), R.lift(b)
    return compare("==", a, b)


# ----------------------------------------------------------------------------
def show(t, depth=0):
    if depth > 6:
        return "…"
    if t.op == "c":
        v = t.value
        return str(v) if v.denominator == 1 else f"({v})"
    if t.op == "v":
        return t.args[0]
    if t.op == "+":
        return "(" + " + ".join(show(a, depth + 1) for a in t.args) + ")"
    if t.op == "*":
        return "*".join(show(a, depth + 1) for a in t.args)
    if t.op == "^":
        return f"{show(t.args[0], depth + 1)}^{t.args[1]}"
    if t.op in ("f", "u"):
        return f"{t.args[0]}(" + ",".join(show(a, depth + 1) if isinstance(a, R) else repr(a) for a in t.args[1:]) + ")"
    return f"<{t.op}>"


def showb(b):
    if b.op in ("<", "<=", "=="):
        return f"{show(b.args[0])} {b.op} {show(b.args[1])}"
    if b.op == "not":
        return f"not({showb(b.args[0])})"
    if b.op in ("and", "or"):
        return "(" + f" {b.op} ".join(showb(a) for a in b.args) + ")"
    return f"<{b.op}>"


def free_vars(t, acc=None):
    """Variables and uninterpreted applications appearing in a term/condition."""
    if acc is None:
        acc = set()
    stack = [t]
    seen = set()
    while stack:
        x = stack.pop()
        if isinstance(x, (R, B)):
            if (type(x), x._id) in seen:
                continue
            seen.add((type(x), x._id))
            if isinstance(x, R) and x.op == "v":
                acc.add(x)
            elif isinstance(x, R) and x.op == "u":
                acc.add(x)
                stack.extend(a for a in x.args[1:] if isinstance(a, R))
            elif isinstance(x, R) and x.op == "c":
                pass
            elif isinstance(x, R) and x.op == "f":
                stack.extend(x.args[1:])
            elif isinstance(x, R) and x.op == "^":
                stack.append(x.args[0])
            else:
                stack.extend(a for a in x.args if isinstance(a, (R, B)))
    return acc


def term_size(t):
    seen = set()
    stack = [t]
    while stack:
        x = stack.pop()
        if not isinstance(x, (R, B)) or (type(x), x._id) in seen:
            continue
        seen.add((type(x), x._id))
        stack.extend(a for a in x.args if isinstance(a, (R, B)))
    return len(seen)


def syms(names):
    return [R.var(n) for n in names.split()]


def sym_array(prefix, shape):
    """Object ndarray filled with fresh variables prefix_i_j."""
    a = np.empty(shape, dtype=object)
    for idx in np.ndindex(*a.shape):
        a[idx] = R.var(prefix + "_" + "_".join(str(i) for i in idx))
    return a
