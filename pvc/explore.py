"""Exhaustive path exploration by re-execution with a decision vector.

Every ``bool(B)`` inside the explored function asks the active PathCtx; the ctx
prunes branches that are infeasible under precondition + path condition (z3),
forks where both are feasible, and the driver re-runs the function until the
decision tree is exhausted.  ``unknown`` feasibility is treated as feasible
(sound for proving).
"""
from __future__ import annotations

from . import sym
from .sym import B, Not, Infeasible, OutOfReach
from .smt import check_sat


class PathCapExceeded(Exception):
    pass


class Path:
    def __init__(self, result, exc, pc, sides, decisions):
        self.result = result
        self.exc = exc
        self.pc = pc
        self.sides = sides
        self.decisions = decisions

    def __repr__(self):
        return f"Path(result={self.result!r}, exc={self.exc!r}, pc={self.pc})"


class PathCtx:
    deadline = None

    def __init__(self, pre, decisions, timeout_ms):
        self.pre = list(pre)
        self.decisions = decisions  # list of [value, has_alternative]
        self.idx = 0
        self.pc = []
        self.sides = []
        self.timeout_ms = timeout_ms
        self.known = {}

    def side(self, kind, term):
        self.sides.append((kind, term, len(self.pc)))

    def assume(self, cond):
        """Add an assumption (used by contract stubs for postconditions of callees)."""
        if isinstance(cond, bool):
            if not cond:
                raise Infeasible()
            return
        self.pc.append(cond)

    def decide(self, b):
        # already decided on this path?
        for lit in self.pc:
            if lit is b:
                return True
        nb = Not(b)
        for lit in self.pc:
            if lit is nb:
                return False
        if self.deadline is not None:
            import time as _time

            if _time.time() > self.deadline:
                raise PathCapExceeded("time budget of the exploration exceeded")
        if self.idx < len(self.decisions):
            val = self.decisions[self.idx][0]
            self.idx += 1
            self.pc.append(b if val else nb)
            return val
        st_t, _ = check_sat(self.pre + self.pc + [b], self.timeout_ms, use_cvc5=False)
        st_f, _ = check_sat(self.pre + self.pc + [nb], self.timeout_ms, use_cvc5=False)
        can_t = st_t != "unsat"
        can_f = st_f != "unsat"
        if can_t and can_f:
            self.decisions.append([True, True])
            val = True
        elif can_t:
            self.decisions.append([True, False])
            val = True
        elif can_f:
            self.decisions.append([False, False])
            val = False
        else:
            raise Infeasible()
        self.idx += 1
        self.pc.append(b if val else nb)
        return val


def explore(fn, pre=(), max_paths=4096, timeout_ms=10000, catch=(Exception,), budget_s=None):
    """Run ``fn()`` on every feasible path.  Returns list[Path].

    Exceptions of the classes in ``catch`` raised by the code under analysis are
    recorded as the path outcome (``exc``); OutOfReach always propagates.
    """
    paths = []
    decisions = []
    import time as _time

    deadline = (_time.time() + budget_s) if budget_s else None
    while True:
        ctx = PathCtx(pre, decisions, timeout_ms)
        ctx.deadline = deadline
        old = sym.CTX
        sym.CTX = ctx
        result = exc = None
        infeasible = False
        try:
            result = fn()
        except Infeasible:
            infeasible = True
        except (OutOfReach, PathCapExceeded):
            raise
        except catch as e:  # noqa
            exc = e
        finally:
            sym.CTX = old
        if not infeasible:
            paths.append(Path(result, exc, list(ctx.pc), list(ctx.sides), [d[0] for d in decisions]))
            if len(paths) > max_paths:
                raise PathCapExceeded(f"more than {max_paths} paths")
        # backtrack
        while decisions and not decisions[-1][1]:
            decisions.pop()
        if not decisions:
            break
        decisions[-1] = [not decisions[-1][0], False]
    return paths
