"""Run-time rebinding of callees (contract stubs) and the numpy constructor shim."""
from __future__ import annotations

import contextlib
import types

import numpy as _np

from .sym import R, OutOfReach

_MISSING = object()


@contextlib.contextmanager
def rebind(*triples):
    """rebind((obj, "attr", new), ...) for the duration of the block."""
    saved = []
    try:
        for obj, name, new in triples:
            if isinstance(obj, dict):
                saved.append((obj, name, obj.get(name, _MISSING)))
                obj[name] = new
            else:
                old = obj.__dict__.get(name, _MISSING) if hasattr(obj, "__dict__") else getattr(obj, name, _MISSING)
                saved.append((obj, name, old))
                setattr(obj, name, new)
        yield
    finally:
        for obj, name, old in reversed(saved):
            if isinstance(obj, dict):
                if old is _MISSING:
                    obj.pop(name, None)
                else:
                    obj[name] = old
            else:
                if old is _MISSING:
                    try:
                        delattr(obj, name)
                    except AttributeError:
                        pass
                else:
                    setattr(obj, name, old)


def _has_sym(x):
    if isinstance(x, R):
        return True
    if isinstance(x, _np.ndarray):
        return x.dtype == object and any(isinstance(v, R) for v in x.flat)
    if isinstance(x, (list, tuple)):
        return any(_has_sym(v) for v in x)
    return False


class NumpyShim(types.ModuleType):
    """numpy look-alike whose constructors fall back to object dtype for symbolic entries.

    Assumption A-np: numpy's object-dtype evaluation of + - * / @ sum einsum is the
    real-number reading of its float64 evaluation.
    """

    def __init__(self, symbolic_zeros=True):
        super().__init__("numpy_shim")
        self._symzeros = symbolic_zeros

    def __getattr__(self, name):
        return getattr(_np, name)

    def array(self, obj, dtype=None, **kw):
        if _has_sym(obj):
            a = _np.empty(len(obj), dtype=object) if isinstance(obj, (list, tuple)) and not any(isinstance(v, (list, tuple, _np.ndarray)) for v in obj) else None
            if a is not None:
                for i, v in enumerate(obj):
                    a[i] = v
                return a
            return _np.array(obj, dtype=object)
        return _np.array(obj, dtype=dtype, **kw)

    def asarray(self, obj, dtype=None, **kw):
        if _has_sym(obj):
            return self.array(obj)
        return _np.asarray(obj, dtype=dtype, **kw)

    UNINITIALISED = 7.77e77

    def empty(self, shape, dtype=None, **kw):
        """Uninitialised memory holds ANY value: modelled by a poison no specification equals, so a
        result entry that is never written (and so depends on what the allocator hands back, i.e. on the
        history of the process) shows as a mismatch instead of passing when the page happens to be zero."""
        if dtype in (None, float, _np.float64, object):
            a = _np.empty(shape, dtype=object if self._symzeros else float)
            a.fill(self.UNINITIALISED)
            return a
        return _np.empty(shape, dtype=dtype, **kw)

    def empty_like(self, a, dtype=None, **kw):
        return self.empty(_np.shape(a), dtype=dtype)

    def zeros(self, shape, dtype=None, **kw):
        if self._symzeros and dtype in (None, float, _np.float64):
            a = _np.empty(shape, dtype=object)
            a.fill(0)
            return a
        return _np.zeros(shape, dtype=dtype, **kw)

    def zeros_like(self, a, dtype=None, **kw):
        if self._symzeros:
            r = _np.empty(_np.shape(a), dtype=object)
            r.fill(0)
            return r
        return _np.zeros_like(a, dtype=dtype, **kw)

    def ones(self, shape, dtype=None, **kw):
        if self._symzeros and dtype in (None, float, _np.float64):
            a = _np.empty(shape, dtype=object)
            a.fill(1)
            return a
        return _np.ones(shape, dtype=dtype, **kw)

    def eye(self, n, *a, **kw):
        if self._symzeros:
            r = _np.empty((n, n), dtype=object)
            r.fill(0)
            for i in range(n):
                r[i, i] = 1
            return r
        return _np.eye(n, *a, **kw)

    def log(self, x, *a, **kw):
        if isinstance(x, R):
            return x.log()
        return _np.log(x, *a, **kw)

    def sqrt(self, x, *a, **kw):
        if isinstance(x, R):
            return x.sqrt()
        return _np.sqrt(x, *a, **kw)

    def exp(self, x, *a, **kw):
        if isinstance(x, R):
            return x.exp()
        return _np.exp(x, *a, **kw)

    def power(self, x, y, *a, **kw):
        if isinstance(x, R) or isinstance(y, R):
            return x**y
        return _np.power(x, y, *a, **kw)

    def abs(self, x, *a, **kw):
        """|x| as an uninterpreted atom abs(x) for symbolic entries (no fork on the sign)."""
        from .sym import uf

        def one(v):
            if isinstance(v, R) and not v.is_const:
                return uf("abs", v)
            return abs(v)

        if isinstance(x, R):
            return one(x)
        if isinstance(x, _np.ndarray) and x.dtype == object:
            out = _np.empty(x.shape, dtype=object)
            for idx in _np.ndindex(*x.shape):
                out[idx] = one(x[idx])
            return out
        return _np.abs(x, *a, **kw)

    absolute = abs

    def isnan(self, a, *args, **kw):
        """On a symbol (the uninterpreted answer of an external library, contract 'a real number or NaN'):
        an uninterpreted predicate of that symbol -- both branches of a guard `if np.isnan(v):` are
        explored, and each must satisfy the obligations (on the NaN branch the code under analysis
        must not use v)."""
        if isinstance(a, R):
            from .sym import compare, fn

            return compare("<", R.const(0), fn("isnan_indicator", a))
        return _np.isnan(a, *args, **kw)

    def isclose(self, a, b, rtol=1e-05, atol=1e-08, equal_nan=False):
        if isinstance(a, R) or isinstance(b, R):
            # numpy's definition, symbolically: |a - b| <= atol + rtol * |b|  (a tolerance is part of
            # the behaviour: reading it as exact equality hid seeded changes that widen a boundary)
            from .sym import And, compare

            a, b = R.lift(a), R.lift(b)
            slack = R.lift(atol) + R.lift(rtol) * abs(b)
            return And(compare("<=", a - b, slack), compare("<=", b - a, slack))
        return _np.isclose(a, b, rtol=rtol, atol=atol, equal_nan=equal_nan)


def np_shim_for(*modules, symbolic_zeros=True):
    """rebind triples replacing the module-level name ``np`` in the given modules."""
    shim = NumpyShim(symbolic_zeros)
    return [(m, "np", shim) for m in modules if hasattr(m, "np")]
