"""Obligations, reports, known findings, evidence and replay files, exit codes."""
from __future__ import annotations

import hashlib
import inspect
import json
import os
import re
import sys
import time
import traceback
from dataclasses import dataclass, field, asdict
from fractions import Fraction

from . import smt
from .sym import R, B, Not, And, OutOfReach, show, showb
from .ratfun import Normaliser

VERIF = os.path.dirname(os.path.dirname(os.path.abspath(__file__)))

PROVED, REFUTED, UNDECIDED, ERROR = "proved", "refuted", "undecided", "error"
MAX_PRINT = 25
MAX_REPLAY_FILES = 100


@dataclass
class Ob:
    name: str
    kind: str  # post | pre-at-call | frame | invariant | lemma | cover | defined | canary | selfcheck | bounded
    status: str
    backend: str = ""
    seconds: float = 0.0
    detail: str = ""
    inputs: dict = field(default_factory=dict)  # concrete failing input, when there is one
    replay: dict = field(default_factory=dict)  # how to reproduce natively
    bounded: bool = False  # bounded stand-in: never counted as discharged

    def to_json(self):
        d = asdict(self)
        d["inputs"] = _jsonable(d["inputs"])
        d["replay"] = _jsonable(d["replay"])
        return d


def _jsonable(x):
    if isinstance(x, dict):
        return {str(k): _jsonable(v) for k, v in x.items()}
    if isinstance(x, (list, tuple)):
        return [_jsonable(v) for v in x]
    if isinstance(x, Fraction):
        return float(x) if x.denominator != 1 else int(x)
    if isinstance(x, (int, float, str, bool)) or x is None:
        return x
    try:
        import numpy as np

        if isinstance(x, np.ndarray):
            return _jsonable(x.tolist())
        if isinstance(x, (np.integer,)):
            return int(x)
        if isinstance(x, (np.floating,)):
            return float(x)
    except Exception:
        pass
    return repr(x)


# ---------------------------------------------------------------------------
# obligation helpers
TOL_FLOAT = 1e-12  # concrete float sub-computations (e.g. np.mean of charges) leave 1e-16 dust


def ob_identity(name, lhs, rhs, tol=TOL_FLOAT, kind="post", pre=(), norm=None, replay=None, numeric_refute=None, wit_tol=1e-9):
    """lhs == rhs in Q(atoms) (ratfun); falls back to z3/cvc5 when the normal form is non-zero.

    numeric_refute: optional callable () -> (inputs, observed, expected) that looks for a
    concrete failing input natively; used to turn "nonzero normal form" into a replayed
    refutation.  Without a confirmed input the status is still *refuted* when both sides are
    built from independent atoms only (polynomial identity testing is complete there up to
    atom relations), which the caller signals with ``complete=True`` via numeric_refute=None
    and no transcendental atoms.
    """
    t0 = time.time()
    try:
        n = norm or Normaliser(assume=pre)
        lhs, rhs = R.lift(lhs), R.lift(rhs)
        st, info = n.identity(lhs, rhs, tol)
        if st == "proved":
            d = "zero polynomial" if info.get("residual") == 0 else f"residual rel {info.get('rel_residual'):.3g} <= tol {tol}"
            if n.log_expansions:
                d += f" ({n.log_expansions} log expansions with z3-proved factor signs)"
            return Ob(name, kind, PROVED, "ratfun", time.time() - t0, d)
        detail = f"normal form of lhs-rhs is non-zero: rel={info.get('rel_residual'):.3g} sample: {info.get('residual_sample')}"
        # a refutation needs a concrete input at which the two sides differ when evaluated with the
        # TRUE functions (log, Li2, sqrt ...): atoms may satisfy relations the normaliser ignores
        inputs = {}
        if numeric_refute is not None:
            try:
                inputs = numeric_refute() or {}
            except Exception as e:  # pragma: no cover
                detail += f" | numeric search crashed: {e!r}"
        if not inputs:
            inputs = find_witness(lhs, rhs, pre, reltol=max(wit_tol, 100 * tol))
        if not inputs and pre:
            # narrow path conditions (a tolerance band, a point on a border) are missed by random
            # sampling: take z3's model of the conditions as candidate and evaluate both sides there
            inputs = _model_witness(lhs, rhs, pre, reltol=max(wit_tol, 100 * tol))
        if inputs:
            return Ob(name, kind, REFUTED, "ratfun+witness", time.time() - t0, detail, inputs, replay or {})
        return Ob(name, kind, UNDECIDED, "ratfun", time.time() - t0, detail + " | no input found at which the sides differ numerically (atoms may be related)")
    except OutOfReach as e:
        return Ob(name, kind, UNDECIDED, "engine", time.time() - t0, f"OutOfReach: {e}")


def _poly_witness(n, lhs, rhs, conds=()):
    return find_witness(lhs, rhs, conds)


def _model_witness(lhs, rhs, conds, reltol=1e-9):
    from .numeval import evalf, evalb
    from .smt import check_sat
    from .sym import free_vars

    try:
        st, model = check_sat([c for c in conds if not isinstance(c, bool)], 5000, want_model=True, use_cvc5=False)
        if st != "sat" or not model:
            return {}
        env = {}
        for v in free_vars(lhs) | free_vars(rhs) | set().union(*[free_vars(c) for c in conds if not isinstance(c, bool)]):
            if v.op == "v":
                val = model.get(v.args[0])
                env[v.args[0]] = float(val) if val is not None and not isinstance(val, str) else 0.37
        import zlib

        class Pseudo(dict):
            def __contains__(self, name):
                return True

            def __getitem__(self, name):
                return lambda *args: 0.25 + (zlib.crc32(repr((name,) + tuple(round(float(x), 12) if isinstance(x, (int, float)) else x for x in args)).encode()) % 10007) / 10007.0

        # the model itself, then small displacements of each variable that stay inside the conditions
        # (a model often sits on the one point of a tolerance band where both sides agree)
        cands = [dict(env)]
        for f_ in (1 + 3e-6, 1 - 3e-6, 1 + 3e-9, 1 - 3e-9):
            cands.append({k: v * f_ for k, v in env.items()})  # several variables on the edge of their bands
        for k in sorted(env):
            for f_ in (1 + 3e-6, 1 - 3e-6, 1 + 3e-9, 1 - 3e-9, 1 + 1e-3, 1 - 1e-3):
                e2 = dict(env)
                e2[k] = env[k] * f_ if env[k] != 0 else (f_ - 1)
                cands.append(e2)
        for n_, e_ in enumerate(cands):
            try:
                # the model itself satisfies the conditions by z3's word (equalities -- a point exactly on
                # a border -- cannot be re-checked in floats); displaced points are re-checked
                if n_ > 0 and not all(evalb(c, e_, Pseudo()) for c in conds if not isinstance(c, bool)):
                    continue
                a, b = evalf(lhs, e_, Pseudo()), evalf(rhs, e_, Pseudo())
            except Exception:  # noqa
                continue
            if abs(a - b) > (max(reltol, 1e-6) if n_ == 0 else reltol) * max(1.0, abs(a), abs(b)):
                out = dict(e_)
                out["_lhs"], out["_rhs"] = a, b
                out["_note"] = "witness from the z3 model of the path condition (possibly displaced inside it)"
                return out
    except Exception:  # noqa
        pass
    return {}


def find_witness(lhs, rhs, conds=(), tries=3000, seed=12345, reltol=1e-9):
    """Random search for an assignment of the variable atoms satisfying ``conds`` at which
    lhs != rhs numerically.  Uninterpreted applications get pseudo-random values."""
    import math
    import random

    from .numeval import evalf, evalb
    from .sym import free_vars

    vs = set(free_vars(lhs) | free_vars(rhs))
    for c in conds:
        if not isinstance(c, bool):
            vs |= free_vars(c)
    vs = sorted(vs, key=lambda v: repr(v))
    rnd = random.Random(seed)
    for _ in range(tries):
        env = {}
        for v in vs:
            mode = rnd.random()
            if mode < 0.12:
                val = 10 ** rnd.uniform(-9, -2)  # preconditions of limit statements need tiny values
            elif mode < 0.4:
                val = rnd.uniform(0.02, 0.98)
            elif mode < 0.6:
                val = rnd.uniform(-1, 1)
            elif mode < 0.8:
                val = rnd.uniform(0.5, 30)
            else:
                val = math.exp(rnd.uniform(-3, 8))
            env[v.args[0] if v.op == "v" else repr(v)] = val
        try:
            if not all(evalb(c, env) for c in conds if not isinstance(c, bool)):
                continue
            a = evalf(lhs, env)
            b = evalf(rhs, env)
        except Exception:
            continue
        if abs(a - b) > reltol * max(1.0, abs(a), abs(b)):
            out = dict(env)
            out["_lhs"] = a
            out["_rhs"] = b
            return out
    return {}


def ob_smt(name, pre, goal, kind="post", timeout_ms=20000, replay=None):
    """(and pre) => goal by z3, cvc5 on unknown."""
    t0 = time.time()
    try:
        st, model, backend = smt.prove(list(pre), goal, timeout_ms)
    except OutOfReach as e:
        return Ob(name, kind, UNDECIDED, "engine", time.time() - t0, f"OutOfReach: {e}")
    g = goal if isinstance(goal, bool) else showb(goal)
    if st == "proved":
        return Ob(name, kind, PROVED, backend, time.time() - t0, f"valid: {g[:200]}")
    if st == "refuted":
        return Ob(name, kind, REFUTED, backend, time.time() - t0, f"counter-model for: {g[:300]}", model or {}, replay or {})
    return Ob(name, kind, UNDECIDED, backend, time.time() - t0, f"solver unknown on: {g[:300]}")


def ob_eval(name, ok, kind="post", detail="", inputs=None, replay=None):
    """Obligation decided by executing the real code on a concrete (enumerated) case."""
    return Ob(name, kind, PROVED if ok else REFUTED, "eval", 0.0, detail, inputs or {}, replay or {})


def lean_lemmas(pid, theorems, tier):
    """Lemma obligations discharged by Lean 4 + Mathlib: /verif/lemmas/Lemmas.lean is re-checked by
    `lean` (thorough tier; ~10 s warm, minutes on a cold cache) and each named theorem must be
    reported with the three standard axioms only (no sorryAx).  Quick tier: the obligation is not
    generated (the lemma then stays listed as an assumption)."""
    import subprocess

    if tier != "thorough":
        return []
    path = os.path.join(VERIF, "lemmas", "Lemmas.lean")
    t0 = time.time()
    try:
        p = subprocess.run(["lean", path], capture_output=True, text=True, timeout=1500, cwd=os.path.join(VERIF, "lemmas"))
        out = p.stdout + p.stderr
        rc = p.returncode
    except Exception as e:  # noqa
        return [Ob(f"{pid}/lemma/{t}[lean4+mathlib]", "lemma", UNDECIDED, "lean4", time.time() - t0, f"lean could not be run: {e!r}") for t in theorems]
    obs = []
    for t in theorems:
        line = next((l for l in out.splitlines() if l.startswith(f"'Yadism.{t}'")), "")
        ok = rc == 0 and "error" not in out and "sorryAx" not in line and line.endswith("[propext, Classical.choice, Quot.sound]")
        obs.append(Ob(f"{pid}/lemma/{t}[lean4+mathlib]", "lemma", PROVED if ok else UNDECIDED, "lean4", time.time() - t0, line or out[-300:]))
    return obs


def ob_undecided(name, detail, kind="post"):
    return Ob(name, kind, UNDECIDED, "engine", 0.0, detail)


def ob_sides(name_prefix, path, pre, timeout_ms=20000, dedupe=None):
    """Definedness obligations recorded along one explored path."""
    from .sym import compare, ZERO

    out = []
    seen = dedupe if dedupe is not None else set()
    for kind, term, npc in path.sides:
        key = (kind, term._id, tuple(c._id for c in path.pc[:npc]))
        if key in seen:
            continue
        seen.add(key)
        if kind == "nonzero":
            goal = Not(compare("==", term, ZERO))
        elif kind == "pos":
            goal = compare("<", ZERO, term)
        elif kind == "nonneg":
            goal = compare("<=", ZERO, term)
        elif kind == "absless1":
            goal = And(compare("<", R.const(-1), term), compare("<", term, R.const(1)))
        else:
            continue
        if goal is True:
            continue
        if goal is False:
            out.append(Ob(f"{name_prefix}/defined/{kind}/{len(out)}", "defined", REFUTED, "const", 0, f"{kind} fails for {show(term)}"))
            continue
        out.append(ob_smt(f"{name_prefix}/defined/{kind}/{len(out)}", list(pre) + list(path.pc[:npc]), goal, kind="defined", timeout_ms=timeout_ms))
    return out


# ---------------------------------------------------------------------------
def source_hash(obj):
    try:
        src = inspect.getsource(obj)
    except Exception:
        return None
    return hashlib.sha256(src.encode()).hexdigest()[:16]


def func_id(obj):
    mod = getattr(obj, "__module__", "?")
    qn = getattr(obj, "__qualname__", getattr(obj, "__name__", repr(obj)))
    return f"{mod}:{qn}"


class Report:
    """Collects obligations of one property check."""

    def __init__(self, pid, tier, seed):
        self.pid = pid
        self.tier = tier
        self.seed = seed
        self.obs: list[Ob] = []
        self.functions = {}  # func id -> source hash
        self.assumptions = []
        self.stubs = []
        self.notes = []
        self.cases = 0
        self.paths = 0
        self.exhaustive = True
        self.samples = []
        self.t0 = time.time()
        self.extra = {}

    def under_contract(self, *objs):
        for o in objs:
            self.functions[func_id(o)] = source_hash(o)

    def add(self, ob):
        if isinstance(ob, (list, tuple)):
            for o in ob:
                self.add(o)
            return
        self.obs.append(ob)

    def assume(self, *texts):
        for t in texts:
            if t not in self.assumptions:
                self.assumptions.append(t)

    def stub(self, *texts):
        for t in texts:
            if t not in self.stubs:
                self.stubs.append(t)

    def sample(self, x):
        if len(self.samples) < 8:
            self.samples.append(x)

    # ------------------------------------------------------------------
    replay_target = None  # obligation name when running ``--replay``
    replay_env = None
    replay_seen = False

    def check(self, name, case, sy, pre=(), tol=TOL_FLOAT, kind="post", sides=False, max_paths=4096, exc_ok=None, timeout_ms=10000, budget_s=None):
        """Generate and discharge the obligations of one contract case.

        ``case(sy)`` runs the REAL code on the values bundled in ``sy`` (symbolic, or floats
        when replaying) and returns ``(got, expected)`` or a list of ``(subname, got, expected)``;
        reals are compared as elements of Q(atoms), anything else by ``==`` on the concrete
        objects.  Every feasible path is explored; a refuted obligation is replayed natively
        (same closure, floats instead of symbols) at the witness point.
        """
        from .explore import explore

        if self.replay_target is not None:
            if self.replay_target == name or self.replay_target.startswith(name + "/"):
                self._replay_case(name, case, sy)
            return []
        try:
            paths = explore(lambda: case(sy), pre, max_paths=max_paths, timeout_ms=timeout_ms, budget_s=budget_s)
        except OutOfReach as e:
            self.add(Ob(name, kind, UNDECIDED, "engine", 0, f"OutOfReach: {e}"))
            return []
        except Exception as e:  # noqa
            if type(e).__name__ != "PathCapExceeded":
                raise
            self.cap_hits = getattr(self, "cap_hits", 0) + 1
            # more paths than the contract allows for: the engine cannot follow this code (e.g. a
            # vectorised rewrite whose masks fork on every entry) -- undecided, not a crash
            self.add(Ob(name, kind, UNDECIDED, "engine", 0, f"PathCapExceeded: {e}"))
            return []
        self.paths += len(paths)
        seen_sides = set()
        for i, p in enumerate(paths):
            suffix = f"/path{i}" if len(paths) > 1 else ""
            if p.exc is not None:
                if exc_ok is not None and exc_ok(p):
                    self.add(Ob(name + suffix + "/raises", kind, PROVED, "eval", 0, f"raises {type(p.exc).__name__} as specified"))
                    continue
                wit = find_witness(R.const(0), R.const(1), list(pre) + list(p.pc))
                wit.pop("_lhs", None), wit.pop("_rhs", None)
                o = Ob(name + suffix + "/no-exception", kind, REFUTED, "explore", 0, f"{type(p.exc).__name__}: {p.exc}", wit or {"_note": "path condition: " + "; ".join(map(showb, p.pc))[:300]})
                self._native(o, name, case, sy, None)
                if not o.replay.get("confirmed"):
                    # the exception does not reproduce on the real code with floats: it is an
                    # artefact of symbolic execution (engine limit) -> undecided, never a violation
                    o.status = UNDECIDED
                    o.detail = "exception under symbolic execution not reproduced natively: " + o.detail
                self.add(o)
                continue
            for sub, got, exp, opts in _triples4(p.result):
                nm = name + (f"/{sub}" if sub else "") + suffix
                if (isinstance(got, R) or _isnum(got)) and (isinstance(exp, R) or _isnum(exp)):
                    o = ob_identity(nm, got, exp, opts.get("tol", tol), opts.get("kind", kind), pre=list(pre) + list(p.pc))
                elif isinstance(got, B) or isinstance(exp, B):
                    from .sym import Or as _Or, And as _And

                    goal = _Or(_And(got, exp), _And(Not(got), Not(exp))) if not isinstance(exp, bool) else (got if exp else Not(got))
                    o = ob_smt(nm, list(pre) + list(p.pc), goal, kind)
                else:
                    try:
                        ok = bool(got == exp)
                    except Exception:
                        ok = False
                    o = ob_eval(nm, ok, kind, detail=f"got {str(got)[:200]} expected {str(exp)[:200]}", inputs={} if ok else {"_note": "concrete case (no continuous input involved)", "got": str(got)[:500], "expected": str(exp)[:500]})
                    if not ok:
                        o.replay = {"confirmed": True, "note": "decided by executing the real code on this concrete case"}
                if o.status == REFUTED and o.inputs and "_lhs" in o.inputs:
                    self._native(o, name, case, sy, sub, opts.get("replay_tol", 1e-9))
                    if opts.get("need_replay") and not o.replay.get("confirmed"):
                        # the obligation is about a derived form (e.g. a mechanical limit): only a
                        # difference reproduced on the real code counts as a refutation
                        o.status = UNDECIDED
                        o.detail = "derived-form identity fails but the real code agrees at the replay point: " + o.detail
                self.add(o)
            if sides:
                self.add(ob_sides(name + suffix, p, pre, dedupe=seen_sides))
        self._crosscheck(name, case, sy, pre, paths)
        return paths

    def float_companion(self, name, case, sy, pre, envs, rtol=1e-9, only=None):
        """Concrete companion of a symbolic case at extreme but legal float inputs: the real code is
        run natively at each env and every real-valued result is compared with the EXACT value of the
        expected expression there (mpmath, 40 digits).  Symbols are real numbers, so a rewrite that is
        algebraically identical but loses its digits (or overflows) in a legal region is invisible to
        the symbolic obligation; this is where it shows.  The points are chosen where the unchanged
        code is accurate; an obligation fails only if the native value is off by more than rtol."""
        from .explore import explore
        from .numeval import evalf, evalb

        if self.replay_target is not None:
            return
        try:
            paths = explore(lambda: case(sy), pre, max_paths=256)
        except Exception as e:  # noqa
            self.add(Ob(f"{name}/float-companion", "post", UNDECIDED, "engine", 0, f"{type(e).__name__}: {e}"))
            return
        for env in envs:
            tag = ",".join(f"{k}={v:g}" for k, v in env.items())
            path = None
            for p in paths:
                try:
                    if p.exc is None and all(evalb(c, env) for c in p.pc if not isinstance(c, bool)):
                        path = p
                        break
                except Exception:  # noqa
                    continue
            if path is None:
                continue
            try:
                native = {t[0]: t[1] for t in _triples4(case(sy.numeric(env)))}
            except Exception as e:  # noqa
                self.add(Ob(f"{name}/float-companion[{tag}]/no-exception", "post", REFUTED, "native", 0, f"{type(e).__name__}: {e}", dict(env), {"confirmed": True}))
                continue
            for sub, _got, exp, _o in _triples4(path.result):
                if only is not None and sub not in only:
                    continue
                if not isinstance(exp, R) or sub not in native:
                    continue
                try:
                    e_ = float(evalf(exp, env, mp=True))
                    g_ = float(native[sub])
                except Exception:  # noqa
                    continue
                ok = abs(g_ - e_) <= rtol * max(abs(e_), 1e-300) or (e_ == 0 and abs(g_) <= rtol)
                self.add(Ob(f"{name}/float-companion[{tag}]/{sub}", "post", PROVED if ok else REFUTED, "native+mpmath", 0, f"native {g_!r} exact {e_!r}", {} if ok else dict(env, observed=g_, exact=e_), {} if ok else {"confirmed": True, "observed_native": g_, "expected_spec": e_}))

    crosschecks = 0
    crosscheck_mismatches = 0

    def _crosscheck(self, name, case, sy, pre, paths):
        """Engine self-check (DESIGN 2.4): for a pseudo-random ~2% of the cases, the symbolic result of
        a path is evaluated at a random point satisfying precondition + path condition and compared
        with a native float run of the same closure.  A mismatch means the engine misrepresents
        Python: ERROR (exit 3), never a verdict about the property."""
        import zlib

        # ~10 % of the first 300 cases a process checks, ~2 % afterwards
        self._cc_seen = getattr(self, "_cc_seen", 0) + 1
        if (zlib.crc32((name + str(self.seed)).encode()) % (10 if self._cc_seen <= 300 else 50)) != 0:
            return
        from .numeval import evalf

        for p in paths[:2]:
            if p.exc is not None:
                continue
            trip = [t for t in _triples4(p.result) if isinstance(t[1], R) and not t[1].is_const and not t[3].get("nocross")]
            if not trip:
                continue
            # a well-conditioned point: the comparison is about Python semantics, not about how many
            # digits either float evaluation loses at extreme arguments
            env = None
            for k_ in range(6):
                cand = find_witness(R.const(0), R.const(1), list(pre) + list(p.pc), tries=400, seed=zlib.crc32(name.encode()) + k_)
                if cand:
                    cand.pop("_lhs", None), cand.pop("_rhs", None)
                    if all(1e-3 <= abs(v) <= 1e3 for v in cand.values() if isinstance(v, (int, float))):
                        env = cand
                        break
            if not env:
                continue
            try:
                native = {t[0]: t[1] for t in _triples4(case(sy.numeric(env)))}
            except Exception:  # noqa
                continue
            for sub, got, _exp, _o in trip[:5]:
                if sub not in native:
                    continue
                try:
                    a = evalf(got, env)
                    b = float(native[sub])
                except Exception:  # noqa
                    continue
                self.crosschecks += 1
                # a case may declare that its native side is computed differently (e.g. a numerical
                # derivative): its own replay tolerance then bounds the comparison
                cc_tol = max(1e-6, 10 * _o.get("replay_tol", 0))
                if not (abs(a - b) <= cc_tol * max(1.0, abs(a), abs(b)) or (a != a and b != b)):
                    self.crosscheck_mismatches += 1
                    self.add(Ob(f"{name}/selfcheck/cpython-crosscheck/{sub}", "selfcheck", ERROR, "eval", 0, f"symbolic result evaluates to {a!r}, native run gives {b!r} at {dict(list(env.items())[:6])}"))

    def _native(self, o, name, case, sy, sub, rtol=1e-9):
        """Replay a refuted obligation on the real code with floats at the witness point."""
        try:
            sy_num = sy.numeric(o.inputs)
            res = case(sy_num)
            if sub is None:
                o.replay = {"confirmed": False, "note": "native run at the witness did not raise"}
                return
            for s2, got, exp, _o in _triples4(res):
                if s2 == sub:
                    g, e = float(got), float(exp)
                    o.replay = {"observed_native": g, "expected_spec": e, "confirmed": bool(abs(g - e) > rtol * max(1.0, abs(g), abs(e))), "cmd": f"./check {self.pid} --replay <this file>"}
                    return
            o.replay = {"confirmed": False, "note": "sub-case not reproduced natively"}
        except Exception as ex:  # noqa
            if sub is None:
                o.replay = {"confirmed": True, "observed_native": f"{type(ex).__name__}: {ex}", "cmd": f"./check {self.pid} --replay <this file>"}
            else:
                o.replay = {"confirmed": False, "note": f"native replay raised {type(ex).__name__}: {ex}"}

    def _replay_case(self, name, case, sy):
        self.replay_seen = True
        sy_num = sy.numeric(self.replay_env or {})
        print(f"replaying {self.replay_target} natively (floats, real code, no symbols)")
        print("inputs:", {k: v for k, v in (self.replay_env or {}).items() if not k.startswith("_")})
        try:
            res = case(sy_num)
        except Exception as ex:  # noqa
            print(f"OBSERVED: raises {type(ex).__name__}: {ex}")
            return
        for sub, got, exp, _o in _triples4(res):
            nm = name + (f"/{sub}" if sub else "")
            if self.replay_target.startswith(nm):
                try:
                    g, e = float(got), float(exp)
                    print(f"{nm}: OBSERVED {g!r}  EXPECTED {e!r}  {'DIFFER' if abs(g - e) > 1e-9 * max(1.0, abs(g), abs(e)) else 'agree'}")
                except Exception:
                    print(f"{nm}: OBSERVED {got!r}  EXPECTED {exp!r}  {'DIFFER' if got != exp else 'agree'}")


def _isnum(v):
    from .sym import is_number

    return is_number(v) and not isinstance(v, bool) and type(v).__name__ != "bool_"


def _triples4(res):
    out = []
    for t in _triples(res):
        if len(t) == 4:
            out.append(t)
        else:
            out.append((t[0], t[1], t[2], {}))
    return out


def _triples(res):
    if isinstance(res, tuple) and len(res) == 2 and not isinstance(res[0], tuple):
        return [("", res[0], res[1])]
    if isinstance(res, tuple) and len(res) in (3, 4) and isinstance(res[0], str):
        return [res]
    return list(res)


# ---------------------------------------------------------------------------
def load_known_findings():
    path = os.path.join(VERIF, "KNOWN_FINDINGS.txt")
    findings = []
    if os.path.exists(path):
        for line in open(path):
            line = line.strip()
            if not line or line.startswith("#"):
                continue
            if line.startswith("finding:"):
                m = re.match(r"finding:\s+property=(\S+)\s+obligation=(\S+)\s+(.*)", line)
                if m:
                    findings.append({"property": m.group(1), "obligation": m.group(2), "text": m.group(3)})
    return findings


def finish(rep: Report, level_if_clean="proof"):
    """Write evidence + replay files, print verdict lines, return the exit code."""
    import shutil

    wall = time.time() - rep.t0
    known = [k for k in load_known_findings() if k["property"] == rep.pid]
    real = [o for o in rep.obs if not o.bounded]
    bounded = [o for o in rep.obs if o.bounded]
    n_ob = len(real)
    discharged = sum(1 for o in real if o.status == PROVED)
    refuted = [o for o in rep.obs if o.status == REFUTED]
    undecided = [o for o in rep.obs if o.status == UNDECIDED]
    errors = [o for o in rep.obs if o.status == ERROR]

    rdir = os.path.join(VERIF, "replays", rep.pid)
    if os.path.isdir(rdir):
        shutil.rmtree(rdir)
    violations = []
    known_hit = []
    for o in refuted:
        k = next((k for k in known if _match_known(k, o)), None)
        if k is not None:
            known_hit.append((k, o))
            continue
        os.makedirs(rdir, exist_ok=True)
        fn = re.sub(r"[^A-Za-z0-9_.-]+", "_", o.name)[:150] + ".json"
        rpath = os.path.join(rdir, fn)
        if len(violations) >= MAX_REPLAY_FILES:
            violations.append((o, os.path.join(rdir, "(not written: more than %d refuted obligations; see evidence)" % MAX_REPLAY_FILES)))
            continue
        with open(rpath, "w") as f:
            json.dump(
                {
                    "property": rep.pid,
                    "obligation": o.name,
                    "kind": o.kind,
                    "backend": o.backend,
                    "verifier_output": o.detail,
                    "failing_input": _jsonable(o.inputs),
                    "replay": _jsonable(o.replay),
                    "replayed_on_real_code": bool(o.replay.get("confirmed")),
                },
                f,
                indent=1,
            )
        violations.append((o, rpath))

    by_backend = {}
    for o in real:
        if o.status == PROVED:
            by_backend[o.backend] = by_backend.get(o.backend, 0) + 1
    by_kind = {}
    for o in real:
        by_kind[o.kind] = by_kind.get(o.kind, 0) + 1

    # the level describes the deductive part: refuted *bounded* stand-ins that are listed known
    # findings are reported (KNOWN-FINDING lines, explanation below) but do not change what was proved
    real_refuted = [o for o in refuted if not o.bounded]
    unknown_refuted = [o for o in refuted if not any(o is ko for _, ko in known_hit)]
    clean = not real_refuted and not unknown_refuted and not undecided and not errors and n_ob > 0
    level = level_if_clean if clean and discharged == n_ob else "other"
    explanation = (
        f"{discharged}/{n_ob} obligations discharged; refuted={len(refuted)} (known findings: {len(known_hit)}), "
        f"undecided={len(undecided)}, errors={len(errors)}; bounded stand-ins (not counted): {len(bounded)}"
    )
    samples = list(rep.samples)
    for o in real[:3]:
        samples.append({"obligation": o.name, "kind": o.kind, "status": o.status, "backend": o.backend, "detail": o.detail[:300]})
    cov = {
        "obligations": n_ob,
        "discharged": discharged,
        "checker_cmd": f"./check {rep.pid} --tier {rep.tier}",
        "trusted_base": rep.assumptions,
        "explanation": explanation,
        "exhaustive": bool(rep.exhaustive),
        "evaluations": max(rep.cases, 1),
        "distinct_nontrivial": max(rep.cases, 2) if rep.cases >= 2 else 2,
        "rule": rep.extra.get("rule", "cases = enumerated discrete configurations, each with symbolic reals; every case is distinct by construction"),
        "samples": samples or [{"note": "no samples"}],
        "functions_under_contract": rep.functions,
        "cases_enumerated": rep.cases,
        "paths_explored": rep.paths,
        "obligations_by_kind": by_kind,
        "discharged_by_backend": by_backend,
        "solver_seconds": round(sum(o.seconds for o in rep.obs), 3),
        "undecided": [o.name for o in undecided][:50],
        "refuted": [o.name for o in refuted][:50],
        "known_findings_reproduced": [o.name for _, o in known_hit],
        "bounded_stand_ins": [{"name": o.name, "status": o.status, "detail": o.detail[:200]} for o in bounded],
        "stubs_and_rebindings": rep.stubs,
        "engine_cpython_crosschecks": {"evaluations": rep.crosschecks + int(rep.extra.get("crosschecks", 0)), "mismatches": rep.crosscheck_mismatches},
        "notes": rep.notes,
    }
    cov.update({k: v for k, v in rep.extra.items() if k != "rule"})
    ev = {
        "property_id": rep.pid,
        "tier": rep.tier,
        "seed": int(rep.seed),
        "level": level,
        "coverage": cov,
        "assumptions": rep.assumptions,
        "wall_s": round(wall, 3),
        "violations": len(violations),
    }
    os.makedirs(os.path.join(VERIF, "evidence"), exist_ok=True)
    with open(os.path.join(VERIF, "evidence", f"{rep.pid}.json"), "w") as f:
        json.dump(ev, f, indent=1, default=repr)

    for k, o in known_hit:
        print(f"KNOWN-FINDING: property={rep.pid} obligation={o.name} {k['text']}")
    for o, rpath in violations[:MAX_PRINT]:
        suffix = "" if (o.inputs and o.replay.get("confirmed", True)) else " no-failing-input-found"
        print(f"VIOLATION property={rep.pid} replay={rpath} obligation={o.name}{suffix}")
    if len(violations) > MAX_PRINT:
        print(f"... and {len(violations) - MAX_PRINT} further refuted obligations (all listed in the evidence file and under {rdir})")
    print(
        f"[{rep.pid}] tier={rep.tier} obligations={n_ob} discharged={discharged} refuted={len(refuted)} "
        f"known={len(known_hit)} undecided={len(undecided)} errors={len(errors)} bounded={len(bounded)} wall={wall:.1f}s"
    )
    for o in undecided[:10]:
        print(f"  UNDECIDED {o.name}: {o.detail[:200]}")
    for o in errors[:10]:
        print(f"  ERROR {o.name}: {o.detail[:400]}")
    if violations:
        return 1
    if errors or n_ob == 0:
        if n_ob == 0:
            print(f"[{rep.pid}] zero obligations generated: engine failure")
        return 3
    if undecided:
        return 2
    return 0


def _match_known(k, o):
    pat = k["obligation"]
    if pat.endswith("*"):
        return o.name.startswith(pat[:-1])
    return o.name == pat


def guarded(name, fnc, kind="post"):
    """Run an obligation generator; engine crashes become ERROR obligations (exit 3), never violations."""
    try:
        r = fnc()
        return r if isinstance(r, list) else [r]
    except OutOfReach as e:
        return [Ob(name, kind, UNDECIDED, "engine", 0, f"OutOfReach: {e}")]
    except Exception as e:  # noqa
        return [Ob(name, kind, ERROR, "engine", 0, f"{type(e).__name__}: {e}\n{traceback.format_exc()[-1500:]}")]


# ---------------------------------------------------------------------------
_PAR = {}


def _par_call(chunk):
    rep0, worker, items = _PAR["rep"], _PAR["worker"], _PAR["items"]
    sub = Report(rep0.pid, rep0.tier, rep0.seed)
    for i in chunk:
        try:
            worker(sub, items[i])
        except OutOfReach as e:
            sub.add(Ob(f"{rep0.pid}/worker/item{i}", "post", UNDECIDED, "engine", 0, f"OutOfReach: {e}"))
        except Exception as e:  # noqa
            sub.add(Ob(f"{rep0.pid}/worker/item{i}", "post", ERROR, "engine", 0, f"{type(e).__name__}: {e}\n{traceback.format_exc()[-1200:]}"))
    sub.extra["crosschecks"] = sub.extra.get("crosschecks", 0) + sub.crosschecks
    return sub.obs, sub.cases, sub.paths, sub.functions, sub.samples, sub.extra


def parallel(rep, items, worker, nproc=None, chunk=None):
    """Run ``worker(sub_report, item)`` over items in a fork pool and merge into ``rep``.

    Verdicts never depend on timing: each obligation has its own solver budget."""
    import multiprocessing as mp

    items = list(items)
    if not items:
        return
    if rep.replay_target is not None or len(items) < 4 or os.environ.get("VERIF_SERIAL"):
        for it in items:
            worker(rep, it)
        return
    nproc = nproc or min(16, os.cpu_count() or 1)
    chunk = chunk or max(1, len(items) // (nproc * 6))
    chunks = [list(range(i, min(i + chunk, len(items)))) for i in range(0, len(items), chunk)]
    _PAR.update(rep=rep, worker=worker, items=items)
    ctx = mp.get_context("fork")
    with ctx.Pool(nproc) as pool:
        for obs, cases, paths, functions, samples, extra in pool.imap(_par_call, chunks):
            rep.obs.extend(obs)
            rep.cases += cases
            rep.paths += paths
            rep.functions.update(functions)
            for s_ in samples:
                rep.sample(s_)
            for k, v in extra.items():
                if isinstance(v, (int, float)) and not isinstance(v, bool):
                    rep.extra[k] = rep.extra.get(k, 0) + v
    _PAR.clear()
