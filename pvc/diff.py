"""Mechanical differentiation of IR terms (lemma L-FTC is assumed, see DESIGN 2.2)."""
from __future__ import annotations

from .sym import R, ZERO, ONE, add, mul, inv, power, fn, neg, OutOfReach, uf


def depends(t, var, memo=None):
    if memo is None:
        memo = {}
    r = memo.get(t._id)
    if r is not None:
        return r
    if t is var:
        r = True
    elif t.op in ("c", "v"):
        r = False
    elif t.op == "^":
        r = depends(t.args[0], var, memo)
    elif t.op in ("f", "u"):
        r = any(depends(a, var, memo) for a in t.args[1:] if isinstance(a, R))
    else:
        r = any(depends(a, var, memo) for a in t.args)
    memo[t._id] = r
    return r


def d(t, var, memo=None, dmemo=None):
    """d t / d var"""
    if memo is None:
        memo = {}
    if dmemo is None:
        dmemo = {}
    r = memo.get(t._id)
    if r is not None:
        return r
    if not depends(t, var, dmemo):
        r = ZERO
    elif t is var:
        r = ONE
    elif t.op == "+":
        r = ZERO
        for a in t.args:
            r = add(r, d(a, var, memo, dmemo))
    elif t.op == "*":
        r = ZERO
        for i, a in enumerate(t.args):
            da = d(a, var, memo, dmemo)
            if da is ZERO:
                continue
            term = da
            for j, b in enumerate(t.args):
                if j != i:
                    term = mul(term, b)
            r = add(r, term)
    elif t.op == "^":
        base, n = t.args
        r = mul(mul(R.const(n), power(base, n - 1)), d(base, var, memo, dmemo))
    elif t.op == "f":
        name = t.args[0]
        u = t.args[1]
        du = d(u, var, memo, dmemo)
        if name == "log":
            r = mul(du, inv(u))
        elif name == "exp":
            r = mul(du, t)
        elif name == "sqrt":
            r = mul(du, inv(mul(R.const(2), t)))
        elif name == "li2":
            # (Re Li2)'(u) = -log|1-u|/u   (real part for u > 1, as special.li2 returns)
            r = mul(du, mul(neg(fn("logabs", add(ONE, neg(u)))), inv(u)))
        elif name == "li3":
            # (Re Li3)'(u) = Re Li2(u)/u
            r = mul(du, mul(fn("li2", u), inv(u)))
        elif name == "logabs":
            r = mul(du, inv(u))
        elif name == "spence":
            # scipy.special.spence(u) = Li2(1-u); d/du = log(u)/(1-u)
            r = mul(du, mul(fn("log", u), inv(add(ONE, neg(u)))))
        elif name == "atan":
            r = mul(du, inv(add(ONE, mul(u, u))))
        elif name == "atanh":
            r = mul(du, inv(add(ONE, neg(mul(u, u)))))
        else:
            raise OutOfReach(f"no derivative rule for {name}")
    elif t.op == "u":
        raise OutOfReach(f"derivative of the uninterpreted application {t.args[0]}(...) is not available")
    else:
        raise OutOfReach(f"cannot differentiate {t.op}")
    memo[t._id] = r
    return r
