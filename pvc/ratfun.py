"""Exact normaliser in the field Q(atoms).

Poly   : dict monomial -> Fraction ; monomial = tuple of (atom_id, exp) sorted by atom_id
RatFun : numerator Poly over a *factored* denominator {monic Poly key -> (Poly, exp)}

Atoms are variables, applications of transcendental functions (keyed by the
canonical form of their arguments) and uninterpreted applications.  Treating
atoms as algebraically independent is sound for "the difference is the zero
polynomial => identity holds"; sqrt atoms carry the relation sqrt(u)^2 = u.
"""
from __future__ import annotations

from fractions import Fraction

from .sym import R, OutOfReach

F0 = Fraction(0)
F1 = Fraction(1)


class Atoms:
    """Per-normalisation atom table."""

    def __init__(self):
        self.by_key = {}
        self.info = []  # index -> (kind, payload)

    def get(self, key, info):
        i = self.by_key.get(key)
        if i is None:
            i = len(self.info)
            self.by_key[key] = i
            self.info.append(info)
        return i

    def name(self, i):
        kind, payload = self.info[i]
        if kind == "v":
            return payload
        if kind == "f":
            return f"{payload[0]}[{payload[1]}]"
        return str(payload)


# ---------------------------------------------------------------- polynomials
def p_const(c):
    c = Fraction(c)
    return {(): c} if c != 0 else {}


def p_atom(i):
    return {((i, 1),): F1}


def p_add(a, b):
    if len(a) < len(b):
        a, b = b, a
    r = dict(a)
    for m, c in b.items():
        v = r.get(m, F0) + c
        if v == 0:
            r.pop(m, None)
        else:
            r[m] = v
    return r


def p_scale(a, c):
    if c == 0:
        return {}
    return {m: v * c for m, v in a.items()}


def m_mul(m1, m2):
    if not m1:
        return m2
    if not m2:
        return m1
    d = dict(m1)
    for i, e in m2:
        d[i] = d.get(i, 0) + e
    return tuple(sorted(d.items()))


def p_mul(a, b):
    if not a or not b:
        return {}
    if len(a) > len(b):
        a, b = b, a
    r = {}
    for m1, c1 in a.items():
        for m2, c2 in b.items():
            m = m_mul(m1, m2)
            v = r.get(m, F0) + c1 * c2
            if v == 0:
                r.pop(m, None)
            else:
                r[m] = v
    return r


def p_pow(a, n):
    r = p_const(1)
    base = a
    while n:
        if n & 1:
            r = p_mul(r, base)
        n >>= 1
        if n:
            base = p_mul(base, base)
    return r


def p_lead(a):
    """Leading monomial under a fixed total order."""
    return max(a.keys())


def p_monic(a):
    lm = p_lead(a)
    c = a[lm]
    if c == 1:
        return a, c
    return {m: v / c for m, v in a.items()}, c


def p_key(a):
    return frozenset(a.items())


def p_maxcoef(a):
    return max((abs(c) for c in a.values()), default=F0)


# ---------------------------------------------------------------- rational functions
class RatFun:
    __slots__ = ("num", "den")

    def __init__(self, num, den=None):
        self.num = num
        self.den = den or {}

    @staticmethod
    def const(c):
        return RatFun(p_const(c))

    def is_zero(self):
        return not self.num

    def key(self):
        return (p_key(self.num), frozenset((k, e) for k, (_, e) in self.den.items()))

    def den_poly(self):
        r = p_const(1)
        for _, (p, e) in self.den.items():
            r = p_mul(r, p_pow(p, e))
        return r


def _den_lcm(d1, d2):
    out = dict(d1)
    for k, (p, e) in d2.items():
        if k in out:
            if out[k][1] < e:
                out[k] = (p, e)
        else:
            out[k] = (p, e)
    return out


def _den_quot(big, small):
    """big / small as a polynomial (big is a multiple of small factor-wise)."""
    r = p_const(1)
    for k, (p, e) in big.items():
        e2 = small.get(k, (None, 0))[1]
        if e > e2:
            r = p_mul(r, p_pow(p, e - e2))
    return r


def rf_add(a, b):
    if not a.num:
        return b
    if not b.num:
        return a
    if a.den.keys() == b.den.keys() and all(a.den[k][1] == b.den[k][1] for k in a.den):
        return _cancel(RatFun(p_add(a.num, b.num), a.den))
    lcm = _den_lcm(a.den, b.den)
    na = p_mul(a.num, _den_quot(lcm, a.den))
    nb = p_mul(b.num, _den_quot(lcm, b.den))
    return _cancel(RatFun(p_add(na, nb), lcm))


def rf_neg(a):
    return RatFun(p_scale(a.num, -1), a.den)


def rf_mul(a, b):
    if not a.num or not b.num:
        return RatFun({})
    den = dict(a.den)
    for k, (p, e) in b.den.items():
        if k in den:
            den[k] = (p, den[k][1] + e)
        else:
            den[k] = (p, e)
    return _cancel(RatFun(p_mul(a.num, b.num), den))


def rf_inv(a):
    if not a.num:
        raise ZeroDivisionError("ratfun: inverse of the zero function")
    # numerator -> denominator factors
    num = p_const(1)
    for _, (p, e) in a.den.items():
        num = p_mul(num, p_pow(p, e))
    den = {}
    if len(a.num) == 1:
        ((m, c),) = a.num.items()
        num = p_scale(num, 1 / c)
        for i, e in m:
            if e > 0:
                p = p_atom(i)
                den[p_key(p)] = (p, e)
            else:
                num = p_mul(num, {((i, -e),): F1})
    else:
        # split off a common monomial factor so that (x - x*y) and (1 - y) share factors
        p, c = p_monic(a.num)
        num = p_scale(num, 1 / c)
        den[p_key(p)] = (p, 1)
    return _cancel(RatFun(num, den))


def _cancel(r):
    """Cheap cancellation: single-atom denominator factors against the numerator,
    and denominator factors that divide the numerator exactly are NOT searched
    (not needed for zero tests)."""
    if not r.den:
        return r
    if not r.num:
        return RatFun({})
    den = None
    num = r.num
    for k, (p, e) in r.den.items():
        if len(p) == 1:
            ((m, c),) = p.items()
            if len(m) == 1 and m[0][1] == 1 and c == 1:
                i = m[0][0]
                # min exponent of atom i over the numerator
                mn = None
                for mono in num:
                    ei = 0
                    for j, ej in mono:
                        if j == i:
                            ei = ej
                            break
                    mn = ei if mn is None else min(mn, ei)
                    if mn == 0:
                        break
                if mn:
                    k_e = min(mn, e)
                    newnum = {}
                    for mono, cc in num.items():
                        nm = tuple((j, ej - k_e) if j == i else (j, ej) for j, ej in mono)
                        nm = tuple(x for x in nm if x[1] != 0)
                        newnum[nm] = cc
                    num = newnum
                    if den is None:
                        den = dict(r.den)
                    if e - k_e == 0:
                        del den[k]
                    else:
                        den[k] = (p, e - k_e)
    if den is None:
        return r
    return RatFun(num, den)


def rf_pow(a, n):
    if n == 0:
        return RatFun.const(1)
    if n < 0:
        a = rf_inv(a)
        n = -n
    r = RatFun.const(1)
    base = a
    while n:
        if n & 1:
            r = rf_mul(r, base)
        n >>= 1
        if n:
            base = rf_mul(base, base)
    return r


# ---------------------------------------------------------------- term -> RatFun
class Normaliser:
    def __init__(self, assume=()):
        self.atoms = Atoms()
        self.memo = {}
        self.sqrt_defs = {}  # atom id -> RatFun of the radicand
        self.assume = [a for a in assume if not isinstance(a, bool)]
        self.atom_terms = {}  # atom id -> R term (for SMT side conditions)
        self._sign_cache = {}
        self.log_expansions = 0

    # ---- log(a*b/c) = log a + log b - log c, each factor's sign proved by z3 under ``assume``
    def poly_term(self, p):
        from .sym import add as r_add, mul as r_mul, power as r_pow, ZERO

        tot = ZERO
        for m, c in p.items():
            t = R.const(c)
            for i, e in m:
                t = r_mul(t, r_pow(self.atom_terms[i], e))
            tot = r_add(tot, t)
        return tot

    def poly_sign(self, p):
        """+1 / -1 if z3 proves p > 0 / p < 0 under the assumptions, else 0."""
        from .smt import check_sat
        from .sym import compare, ZERO

        k = p_key(p)
        if k in self._sign_cache:
            return self._sign_cache[k]
        sign = 0
        if len(p) == 1 and () in p:
            sign = 1 if p[()] > 0 else -1
        elif self.assume:
            t = self.poly_term(p)
            le = compare("<=", t, ZERO)
            ge = compare("<=", ZERO, t)
            if check_sat(self.assume + [le], 3000, use_cvc5=False)[0] == "unsat":
                sign = 1
            elif check_sat(self.assume + [ge], 3000, use_cvc5=False)[0] == "unsat":
                sign = -1
        self._sign_cache[k] = sign
        return sign

    def log_const(self, c):
        """RatFun for log(c), c a positive rational: sum of e_p * log(p) over the primes of c when
        numerator and denominator are small enough to factor (so log 4 = 2 log 2), else one atom."""
        c = Fraction(c)
        out = RatFun({})
        if c == 1:
            return out
        parts = None
        if max(c.numerator, c.denominator) < 10**12:
            try:
                import sympy

                parts = {}
                for pr, e in sympy.factorint(c.numerator).items():
                    parts[int(pr)] = parts.get(int(pr), 0) + int(e)
                for pr, e in sympy.factorint(c.denominator).items():
                    parts[int(pr)] = parts.get(int(pr), 0) - int(e)
                parts.pop(1, None)
            except Exception:  # pragma: no cover
                parts = None
        if parts is None:
            parts = {c: 1}
        for pr, e in sorted(parts.items()):
            if not e:
                continue
            pr = Fraction(pr)
            i = self.atoms.get(("f", "log", ("const", pr)), ("f", ("log", str(pr))))
            self.atom_terms.setdefault(i, R("f", ("log", R.const(pr))))
            out = rf_add(out, RatFun(p_scale(p_atom(i), e)))
        return out

    def logabs_single(self, t):
        """log|p| for a single polynomial argument of proved sign -> the log atom of sign*p."""
        r = self.norm(t.args[1])
        if r.den or not r.num:
            return None
        pm, c = p_monic(r.num)
        sg = self.poly_sign(pm)
        if not sg:
            return None
        out = RatFun({})
        if abs(c) != 1:
            out = rf_add(out, self.log_const(abs(c)))
        q = p_scale(pm, sg)
        i = self.atoms.get(("f", "log", ("poly", p_key(q))), ("f", ("log", self.show_poly(q, 4))))
        self.atom_terms.setdefault(i, R("f", ("log", self.poly_term(q))))
        return rf_add(out, RatFun(p_atom(i)))

    def factorise(self, p):
        """Factor a monic polynomial over Q with sympy; the result is VERIFIED by exact
        re-multiplication (so the CAS is not trusted), else the polynomial is kept whole."""
        k = ("fac", p_key(p))
        if k in self._sign_cache:
            return self._sign_cache[k]
        out = [(p, 1)]
        if 2 <= len(p) <= 60:
            try:
                import sympy

                ids = sorted({i for m in p for i, _ in m})
                syms = {i: sympy.Symbol(f"a{i}") for i in ids}
                expr = sum(sympy.Rational(c.numerator, c.denominator) * sympy.Mul(*[syms[i] ** e for i, e in m]) for m, c in p.items())
                const, facs = sympy.factor_list(expr)
                if len(facs) > 1 or (facs and facs[0][1] > 1):
                    cand = []
                    for f, e in facs:
                        poly = sympy.Poly(f, *[syms[i] for i in ids])
                        q = {}
                        for mon, c in poly.terms():
                            m = tuple((ids[j], int(pw)) for j, pw in enumerate(mon) if pw)
                            q[m] = Fraction(int(c.p), int(c.q))
                        qm, lc = p_monic(q)
                        cand.append((qm, int(e)))
                    prod = p_const(1)
                    for q, e in cand:
                        prod = p_mul(prod, p_pow(q, e))
                    lm = p_lead(p)
                    if lm in prod and p_key(p_scale(prod, p[lm] / prod[lm])) == p_key(p):
                        out = [(p_const(p[lm] / prod[lm]), 1)] + cand
            except Exception:  # pragma: no cover
                out = [(p, 1)]
        self._sign_cache[k] = out
        return out

    def log_expand(self, t):
        """RatFun for log(arg) as a sum of logs of sign-fixed irreducible-looking factors, or None."""
        r = self.norm(t.args[1])
        if not r.num:
            return None
        common = None
        for m in r.num:
            dm = dict(m)
            common = dm if common is None else {i: min(e, dm[i]) for i, e in common.items() if i in dm}
        common = {i: e for i, e in (common or {}).items() if e > 0}
        prim = {}
        for m, c in r.num.items():
            nm = tuple((i, e - common.get(i, 0)) for i, e in m)
            prim[tuple(x for x in nm if x[1] != 0)] = c
        primm, c = p_monic(prim)
        factors = [(p_atom(i), e) for i, e in common.items()]
        if not (len(primm) == 1 and () in primm):
            for f, e in self.factorise(primm):
                factors.append((f, e))
        for _, (p, e) in r.den.items():
            for f, e2 in self.factorise(p):
                factors.append((f, -e * e2))
        if t.args[0] == "log" and len(factors) <= 1 and c == 1 and (not factors or factors[0][1] == 1):
            return None  # nothing to expand
        # constant factors produced by the factorisation are folded into c
        nf_ = []
        for p, e in factors:
            if len(p) == 1 and () in p:
                c = c * p[()] ** e
            else:
                nf_.append((p, e))
        factors = nf_
        total_sign = 1 if c > 0 else -1
        pieces = []
        for p, e in factors:
            sg = self.poly_sign(p)
            if sg == 0:
                return None
            if sg < 0 and e % 2:
                total_sign = -total_sign
            pieces.append((p_scale(p, sg), e))
        if total_sign < 0 and t.args[0] != "logabs":
            return None
        out = RatFun({})
        if abs(c) != 1:
            out = rf_add(out, self.log_const(abs(c)))
        for p, e in pieces:
            i = self.atoms.get(("f", "log", ("poly", p_key(p))), ("f", ("log", self.show_poly(p, 4))))
            self.atom_terms.setdefault(i, R("f", ("log", self.poly_term(p))))
            out = rf_add(out, RatFun(p_scale(p_atom(i), e)))
        self.log_expansions += 1
        return out

    # ---- dilogarithm: canonical representative within the orbit x -> 1-x, x/(x-1), 1/x
    def _proved(self, *conds):
        from .smt import check_sat
        from .sym import Not

        for c in conds:
            if isinstance(c, bool):
                if not c:
                    return False
                continue
            if check_sat(self.assume + [Not(c)], 3000, use_cvc5=False)[0] != "unsat":
                return False
        return True

    def lowest_terms(self, a):
        """(numerator polynomial, denominator polynomial) of the term in lowest terms: sympy.cancel,
        VERIFIED by exact cross-multiplication (the CAS is not trusted); None when not available."""
        r = self.norm(a)
        if not r.den:
            return r.num, p_const(1)
        dp = r.den_poly()
        try:
            import sympy

            ids = sorted({i for m in list(r.num) + list(dp) for i, _ in m})
            syms = {i: sympy.Symbol(f"a{i}") for i in ids}

            def to_sym(p):
                return sum(sympy.Rational(c.numerator, c.denominator) * sympy.Mul(*[syms[i] ** e for i, e in m]) for m, c in p.items())

            def to_poly(e):
                poly = sympy.Poly(sympy.expand(e), *[syms[i] for i in ids])
                q = {}
                for mon, c in poly.terms():
                    m = tuple((ids[j], int(pw)) for j, pw in enumerate(mon) if pw)
                    q[m] = Fraction(int(c.p), int(c.q))
                return q

            n2, d2 = sympy.fraction(sympy.cancel(to_sym(r.num) / to_sym(dp)))
            pn, pd = to_poly(n2), to_poly(d2)
            if p_key(p_mul(pn, dp)) == p_key(p_mul(r.num, pd)) and pd:
                return pn, pd
        except Exception:  # pragma: no cover
            pass
        return None

    def li2_canon(self, arg, depth=0):
        """Li2(arg) as  sign * Li2(canonical argument) + polynomial in logs, using only identities
        whose range of validity is PROVED (z3) for the argument under the assumptions:
          Euler    Li2(1-x)     = -Li2(x) - log(x) log(1-x) + pi^2/6        0 < x < 1
          Landen   Li2(x/(x-1)) = -Li2(x) - log(1-x)^2 / 2                  x < 1
          inverse  Li2(1/x)     = -Li2(x) - pi^2/6 - log(-x)^2 / 2          x < 0
        The orbit is searched breadth-first (depth 3); the representative with the simplest normal
        form is chosen.  Returns an R term or None (then the atom is kept as it is)."""
        from .sym import add as r_add, mul as r_mul, power as r_pow, fn as r_fn, compare, ZERO, ONE

        PI2_6 = R.const(Fraction(3141592653589793, 10**15) ** 2 / 6)

        def cost(a):
            lt = self.lowest_terms(a)
            if lt is None:
                r = self.norm(a)
                return (2, len(r.num) + sum(len(p) for _, (p, _) in r.den.items()), 0, repr(r.key()))
            n, d = lt
            const_den = len(d) == 1 and () in d
            return (0 if const_den else 1, len(n) + (0 if const_den else len(d)), sum(e for m in n for _, e in m), repr((p_key(n), p_key(d))))

        def simp(a):
            lt = self.lowest_terms(a)
            if lt is None:
                return a
            n, d = lt
            if len(d) == 1 and () in d:
                return self.poly_term(p_scale(n, 1 / d[()]))
            return r_mul(self.poly_term(n), r_pow(self.poly_term(d), -1))

        best = (cost(arg), arg, ONE, ZERO)  # Li2(arg0) = sign * Li2(a) + rest
        frontier = [(arg, ONE, ZERO)]
        seen = {self.norm(arg).key()}
        for _ in range(3):
            nxt = []
            for a, sign, rest in frontier:
                one_minus = r_add(ONE, r_mul(R.const(-1), a))
                cands = []
                # Li2(a) with a = 1 - x, x = 1 - a  (Euler, needs 0 < x < 1)
                if self._proved(compare("<", ZERO, one_minus), compare("<", one_minus, ONE)):
                    x = simp(one_minus)
                    cands.append((x, r_add(r_mul(R.const(-1), r_mul(r_fn("log", x), r_fn("log", a))), PI2_6)))
                # Li2(a) with a = x/(x-1), x = a/(a-1)  (Landen, needs x < 1 <=> a < 1)
                if self._proved(compare("<", a, ONE)):
                    x = simp(r_mul(a, r_pow(r_add(a, R.const(-1)), -1)))
                    # 1 - x = 1/(1-a)
                    cands.append((x, r_mul(R.const(Fraction(-1, 2)), r_pow(r_fn("log", one_minus), 2))))
                # Li2(a) with a = 1/x, x = 1/a  (inversion, needs x < 0 <=> a < 0)
                if self._proved(compare("<", a, ZERO)):
                    x = simp(r_pow(a, -1))
                    cands.append((x, r_add(r_mul(R.const(-1), PI2_6), r_mul(R.const(Fraction(-1, 2)), r_pow(r_fn("log", r_mul(R.const(-1), a)), 2)))))
                for x, extra in cands:
                    try:
                        k = self.norm(x).key()
                    except (OutOfReach, ZeroDivisionError):
                        continue
                    if k in seen:
                        continue
                    seen.add(k)
                    # Li2(a) = -Li2(x) + extra   =>   Li2(arg0) = sign*(-Li2(x) + extra) + rest
                    item = (x, r_mul(R.const(-1), sign), r_add(rest, r_mul(sign, extra)))
                    nxt.append(item)
                    c = cost(x)
                    if c < best[0]:
                        best = (c, x, item[1], item[2])
            frontier = nxt
        if best[1] is arg:
            return None
        return r_add(r_mul(best[2], R("f", ("li2", best[1]))), best[3])

    def _li2_norm(self, t):
        from .sym import add as r_add, mul as r_mul, ONE

        arg = t.args[1] if t.args[0] == "li2" else r_add(ONE, r_mul(R.const(-1), t.args[1]))
        if arg.is_const:
            return None
        self._in_li2 = True
        try:
            try:
                c = self.li2_canon(arg)
            except (OutOfReach, ZeroDivisionError):
                c = None
        finally:
            self._in_li2 = False
        if c is None:
            if t.args[0] == "spence":  # same function, one atom family
                return RatFun(p_atom(self.atom_for(R("f", ("li2", arg)))))
            return None
        # the canonical term contains li2(canonical arg): norm it without re-canonicalising that atom
        self._in_li2 = True
        try:
            return self.norm(c)
        finally:
            self._in_li2 = False

    def atom_for(self, t):
        if t.op == "v":
            i = self.atoms.get(("v", t.args[0]), ("v", t.args[0]))
        elif t.op == "f":
            if t.args[0] == "log":
                # canonical key for a single sign-fixed polynomial argument: log(1-z) == log(-(z-1))
                r = self.norm(t.args[1])
                if not r.den and len(r.num) >= 1:
                    pm, c = p_monic(r.num)
                    if abs(c) == 1:
                        sg = self.poly_sign(pm) if len(pm) > 1 else (1 if c > 0 else 0)
                        if sg and (sg > 0) == (c > 0):
                            i = self.atoms.get(("f", "log", ("poly", p_key(p_scale(pm, sg)))), ("f", ("log", repr(t.args[1]))))
                            self.atom_terms.setdefault(i, t)
                            return i
            keys = tuple(self.norm(a).key() for a in t.args[1:])
            i = self.atoms.get(("f", t.args[0], keys), ("f", (t.args[0], ",".join(map(repr, t.args[1:])))))
            if t.args[0] == "sqrt" and i not in self.sqrt_defs:
                self.sqrt_defs[i] = self.norm(t.args[1])
        elif t.op == "u":
            keys = tuple(self.norm(a).key() if isinstance(a, R) else ("lit", a) for a in t.args[1:])
            i = self.atoms.get(("u", t.args[0], keys), ("u", repr(t)))
        else:
            raise OutOfReach(f"no atom for {t.op}")
        self.atom_terms.setdefault(i, t)
        return i

    def norm(self, t):
        r = self.memo.get(t._id)
        if r is not None:
            return r
        op = t.op
        if op == "c":
            r = RatFun.const(t.value)
        elif op == "f" and t.args[0] in ("log", "logabs") and self.assume and (r := self.log_expand(t)) is not None:
            pass
        elif op == "f" and t.args[0] == "logabs" and self.assume and (r := self.logabs_single(t)) is not None:
            pass
        elif op == "f" and t.args[0] in ("li2", "spence") and self.assume and not getattr(self, "_in_li2", False) and (r := self._li2_norm(t)) is not None:
            pass
        elif op in ("v", "f", "u"):
            r = RatFun(p_atom(self.atom_for(t)))
        elif op == "+":
            # group by identical denominators first to keep things small
            r = RatFun({})
            parts = [self.norm(a) for a in t.args]
            groups = {}
            for p in parts:
                k = frozenset((kk, e) for kk, (_, e) in p.den.items())
                if k in groups:
                    groups[k] = RatFun(p_add(groups[k].num, p.num), p.den)
                else:
                    groups[k] = p
            for p in groups.values():
                r = rf_add(r, p)
        elif op == "*":
            r = RatFun.const(1)
            for a in t.args:
                r = rf_mul(r, self.norm(a))
        elif op == "^":
            r = rf_pow(self.norm(t.args[0]), t.args[1])
        else:
            raise OutOfReach(f"cannot normalise {op}")
        if self.sqrt_defs:
            r = self.reduce_sqrt(r)
        self.memo[t._id] = r
        return r

    def reduce_sqrt(self, r):
        """Apply sqrt(u)^2 = u in the numerator (denominator factors are left alone)."""
        for s, u in list(self.sqrt_defs.items()):
            need = any(e >= 2 for m in r.num for (i, e) in m if i == s)
            if not need:
                continue
            acc = RatFun({}, {})
            buckets = {}
            for m, c in r.num.items():
                es = 0
                rest = []
                for i, e in m:
                    if i == s:
                        es = e
                    else:
                        rest.append((i, e))
                k, rem = divmod(es, 2)
                nm = tuple(rest)
                if rem:
                    nm = tuple(sorted(rest + [(s, 1)]))
                buckets.setdefault(k, {})
                buckets[k][nm] = buckets[k].get(nm, F0) + c
            for k, poly in buckets.items():
                poly = {m: c for m, c in poly.items() if c != 0}
                acc = rf_add(acc, rf_mul(RatFun(poly), rf_pow(u, k)))
            r = rf_mul(acc, RatFun(p_const(1), r.den))
        return r

    # ------------------------------------------------------------------
    def identity(self, lhs, rhs, tol=0):
        """Decide lhs == rhs as elements of Q(atoms).

        Returns (status, info); status in {"proved", "nonzero"}.  With tol > 0 a
        residual whose largest coefficient is <= tol * (largest coefficient of
        either side over the same denominator) is accepted.
        """
        a = self.norm(lhs)
        b = self.norm(rhs)
        d = rf_add(a, rf_neg(b))
        if self.sqrt_defs:
            d = self.reduce_sqrt(d)
        if d.is_zero():
            return "proved", {"residual": 0}
        info = {"residual_terms": len(d.num)}
        # relative size over the common denominator
        lcm = _den_lcm(a.den, b.den)
        na = p_mul(a.num, _den_quot(lcm, a.den)) if a.num else {}
        nb = p_mul(b.num, _den_quot(lcm, b.den)) if b.num else {}
        nd = p_add(na, p_scale(nb, -1))
        scale = max(p_maxcoef(na), p_maxcoef(nb))
        res = p_maxcoef(nd)
        rel = float(res / scale) if scale != 0 else float("inf")
        info["rel_residual"] = rel
        info["residual_sample"] = self.show_poly(nd, 4)
        if tol and rel <= tol:
            return "proved", info
        return "nonzero", info

    def show_poly(self, p, limit=6):
        out = []
        for m, c in sorted(p.items(), key=lambda kv: -abs(kv[1]))[:limit]:
            mono = "*".join(f"{self.atoms.name(i)}^{e}" if e != 1 else self.atoms.name(i) for i, e in m) or "1"
            out.append(f"{float(c):.6g}*{mono}")
        return " + ".join(out) + (" + …" if len(p) > limit else "")

    def degree_in(self, t, pred):
        """max total degree of the numerator of norm(t) in atoms selected by pred(info)."""
        r = self.norm(t)
        sel = {i for i, inf in enumerate(self.atoms.info) if pred(inf)}
        deg = 0
        for m in r.num:
            deg = max(deg, sum(e for i, e in m if i in sel))
        den_has = any(i in sel for _, (p, _) in r.den.items() for m in p for i, _ in m)
        return deg, den_has


def identity(lhs, rhs, tol=0):
    n = Normaliser()
    return n.identity(R.lift(lhs), R.lift(rhs), tol)
