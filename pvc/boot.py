"""Process bootstrap: import the REAL yadism from /repo/src with the JIT disabled.

Environment shims applied here (listed in every evidence file):
* NUMBA_DISABLE_JIT=1  -- ``@nb.njit`` returns the plain Python function
* adani.HighScaleSplitLogs -- adani 1.1.0 in this image rejects the 4th positional
  string used by yadism at class-definition time (asy/f2_nc.py, asy/fl_nc.py), which
  makes those modules fail at import.  The constructor is wrapped so that import
  succeeds; the methods LL/NLL/N2LL/N3LL are uninterpreted (assumption A-ext).
"""
import os
import sys

os.environ["NUMBA_DISABLE_JIT"] = "1"
os.environ.setdefault("YADISM_VERIF", "1")

REPO = os.environ.get("VERIF_REPO", "/repo")
SRC = os.path.join(REPO, "src")

SHIMS = [
    "NUMBA_DISABLE_JIT=1 (njit kernels run as plain Python; compiled artefact addressed under C18)",
    "adani.HighScaleSplitLogs constructor wrapped (environment incompatibility; methods uninterpreted)",
]


class _HS:
    """Stand-in for adani.HighScaleSplitLogs: uninterpreted values."""

    def __init__(self, *args):
        self.args = args

    def _u(self, which, z, nf):
        from .sym import R, uf

        if isinstance(z, R):
            return uf(f"adani.{which}[{','.join(map(str, self.args))}]", z, int(nf))
        # deterministic finite float stand-in for native runs
        import math

        return math.sin(3.0 * float(z) + len(which)) + 0.1 * float(nf)

    def LL(self, z, nf):
        return self._u("LL", z, nf)

    def NLL(self, z, nf):
        return self._u("NLL", z, nf)

    def N2LL(self, z, nf):
        return self._u("N2LL", z, nf)

    def N3LL(self, z, nf):
        class _V:
            def __init__(s, v):
                s.v = v

            def GetCentral(s):
                return s.v

            def ToVect(s):
                return [s.v, s.v, s.v]

        return _V(self._u("N3LL", z, nf))


def boot():
    if SRC not in sys.path:
        sys.path.insert(0, SRC)
    import adani

    adani.HighScaleSplitLogs = _HS
    import yadism

    import logging

    import yadism.log

    yadism.log.silent_mode = True  # Runner.__init__ then logs into an in-memory console
    logging.disable(logging.CRITICAL)
    path = os.path.realpath(yadism.__file__)
    if not path.startswith(os.path.realpath(SRC) + os.sep):
        raise RuntimeError(f"yadism imported from {path}, expected under {SRC}")
    return yadism
