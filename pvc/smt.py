"""SMT back ends: z3 (python API) first, cvc5 second opinion on unknown.

Transcendental applications and uninterpreted applications become fresh real
constants (one per structurally distinct application) with a few sound axioms:
  s = sqrt(u): s >= 0 and s*s = u          l = log(u): sign(l) = sign(u-1)
  e = exp(u):  e > 0
"""
from __future__ import annotations

import time
from fractions import Fraction

import z3

from .sym import R, B, OutOfReach

DEFAULT_TIMEOUT_MS = 20000
STATS = {"z3_calls": 0, "z3_s": 0.0, "cvc5_calls": 0, "cvc5_s": 0.0}


INT_VARS = set()


class Z3Enc:
    def __init__(self):
        self.memo = {}
        self.bmemo = {}
        self.atoms = {}
        self.axioms = []
        self.names = {}

    def var(self, name):
        v = self.names.get(name)
        if v is None:
            # integer-valued symbols (declared by a contract in INT_VARS) are integer constants seen as reals
            v = z3.ToReal(z3.Int(name)) if name in INT_VARS else z3.Real(name)
            self.names[name] = v
        return v

    def term(self, t):
        r = self.memo.get(t._id)
        if r is not None:
            return r
        op = t.op
        if op == "c":
            v = t.value
            r = z3.RealVal(str(v.numerator)) / z3.RealVal(str(v.denominator)) if v.denominator != 1 else z3.RealVal(str(v.numerator))
        elif op == "v":
            r = self.var(t.args[0])
        elif op == "+":
            r = z3.Sum([self.term(a) for a in t.args])
        elif op == "*":
            r = z3.Product([self.term(a) for a in t.args])
        elif op == "^":
            b = self.term(t.args[0])
            n = t.args[1]
            r = z3.Product([b] * abs(n)) if abs(n) > 1 else b
            if n < 0:
                r = 1 / r
        elif op == "f":
            name = t.args[0]
            r = z3.Real(f"@{name}_{t._id}")
            u = self.term(t.args[1])
            if name == "sqrt":
                self.axioms += [r >= 0, r * r == u]
            elif name == "log":
                self.axioms += [z3.Implies(u > 1, r > 0), z3.Implies(u < 1, r < 0), z3.Implies(u == 1, r == 0)]
            elif name == "logabs":
                self.axioms += [z3.Implies(z3.Or(u > 1, u < -1), r > 0), z3.Implies(z3.And(u < 1, u > -1), r < 0)]
            elif name == "exp":
                self.axioms += [r > 0, z3.Implies(u > 0, r > 1), z3.Implies(u < 0, r < 1)]
        elif op == "u":
            # congruence is lost for symbolic arguments except structural identity; sound (weaker)
            r = z3.Real(f"@{t.args[0]}_{t._id}")
        else:
            raise OutOfReach(f"z3: {op}")
        self.memo[t._id] = r
        return r

    def _log_anchor(self, lt, c):
        """sound monotonicity facts relating l = log(u) to the constant c it is compared with:
        u > E_hi => l > c and u < E_lo => l < c, with rationals E_lo < exp(c) < E_hi (mpmath, 40
        digits, rounded outwards by 1e-30 relative)."""
        key = ("anchor", lt._id, c)
        if key in self.atoms:
            return
        self.atoms[key] = True
        try:
            import mpmath

            with mpmath.workdps(40):
                e = mpmath.exp(mpmath.mpf(c.numerator) / mpmath.mpf(c.denominator))
                lo = Fraction(str(mpmath.nstr(e * (1 - mpmath.mpf(10) ** -30), 38)))
                hi = Fraction(str(mpmath.nstr(e * (1 + mpmath.mpf(10) ** -30), 38)))
        except Exception:  # pragma: no cover
            return
        l = self.term(lt)
        u = self.term(lt.args[1])
        cz = z3.RealVal(str(c.numerator)) / z3.RealVal(str(c.denominator))
        zlo = z3.RealVal(str(lo.numerator)) / z3.RealVal(str(lo.denominator))
        zhi = z3.RealVal(str(hi.numerator)) / z3.RealVal(str(hi.denominator))
        self.axioms += [z3.Implies(u > zhi, l > cz), z3.Implies(z3.And(u > 0, u < zlo), l < cz)]

    def cond(self, b):
        if isinstance(b, bool) or type(b).__name__ == "bool_":
            return z3.BoolVal(bool(b))
        r = self.bmemo.get(b._id)
        if r is not None:
            return r
        op = b.op
        if op in ("<", "<=", "=="):
            x, y = self.term(b.args[0]), self.term(b.args[1])
            for lt, ct in ((b.args[0], b.args[1]), (b.args[1], b.args[0])):
                if lt.op == "f" and lt.args[0] == "log" and ct.is_const:
                    self._log_anchor(lt, ct.value)
            r = {"<": x < y, "<=": x <= y, "==": x == y}[op]
        elif op == "not":
            r = z3.Not(self.cond(b.args[0]))
        elif op == "and":
            r = z3.And([self.cond(a) for a in b.args])
        elif op == "or":
            r = z3.Or([self.cond(a) for a in b.args])
        else:
            raise OutOfReach(f"z3: {op}")
        self.bmemo[b._id] = r
        return r


def _model_to_dict(m):
    out = {}
    for dcl in m.decls():
        v = m[dcl]
        try:
            if z3.is_rational_value(v):
                out[dcl.name()] = Fraction(v.numerator_as_long(), v.denominator_as_long())
            elif z3.is_algebraic_value(v):
                out[dcl.name()] = Fraction(v.approx(20).as_fraction())
            else:
                out[dcl.name()] = str(v)
        except Exception:  # pragma: no cover
            out[dcl.name()] = str(v)
    return out


def check_sat(conds, timeout_ms=DEFAULT_TIMEOUT_MS, want_model=False, use_cvc5=True):
    """Satisfiability of the conjunction of symbolic conditions.

    Returns (status, model) with status in {"sat","unsat","unknown"}.
    """
    enc = Z3Enc()
    fs = [enc.cond(c) for c in conds]
    s = z3.Solver()
    s.set("timeout", int(timeout_ms))
    for f in fs:
        s.add(f)
    for a in enc.axioms:
        s.add(a)
    t0 = time.time()
    r = s.check()
    STATS["z3_calls"] += 1
    STATS["z3_s"] += time.time() - t0
    if r == z3.sat:
        return "sat", (_model_to_dict(s.model()) if want_model else None)
    if r == z3.unsat:
        return "unsat", None
    if use_cvc5:
        st = _cvc5_check(s.to_smt2(), timeout_ms)
        if st in ("sat", "unsat"):
            return st, None
    return "unknown", None


def _cvc5_check(smt2, timeout_ms):
    import subprocess, tempfile, os

    t0 = time.time()
    try:
        with tempfile.NamedTemporaryFile("w", suffix=".smt2", delete=False) as f:
            f.write("(set-logic QF_NRA)\n" + smt2)
            path = f.name
        try:
            p = subprocess.run(
                ["/usr/bin/cvc5", "--lang", "smt2", f"--tlimit={int(timeout_ms)}", path],
                capture_output=True,
                text=True,
                timeout=timeout_ms / 1000 + 5,
            )
            out = p.stdout.strip().splitlines()
            st = out[0].strip() if out else "unknown"
        finally:
            os.unlink(path)
    except Exception:
        st = "unknown"
    STATS["cvc5_calls"] += 1
    STATS["cvc5_s"] += time.time() - t0
    return st if st in ("sat", "unsat") else "unknown"


def prove(pre, goal, timeout_ms=DEFAULT_TIMEOUT_MS):
    """Validity of (and pre) => goal.  Returns (status, model|None, backend):
    status in {"proved","refuted","undecided"}."""
    from .sym import Not

    if isinstance(goal, bool) or type(goal).__name__ == "bool_":
        if goal:
            return "proved", None, "const"
        st, model = check_sat(list(pre), timeout_ms, want_model=True)
        if st == "sat":
            return "refuted", model, "z3"
        if st == "unsat":
            return "proved", None, "z3"
        return "undecided", None, "z3"
    before = STATS["cvc5_calls"]
    st, model = check_sat(list(pre) + [Not(goal)], timeout_ms, want_model=True)
    backend = "cvc5" if STATS["cvc5_calls"] > before and st != "unknown" else "z3"
    if st == "unsat":
        return "proved", None, backend
    if st == "sat":
        return "refuted", model, backend
    return "undecided", None, backend
