"""Mechanical one-sided limit eps -> 0+ of IR terms (lemma L-lim, DESIGN 9.6).

``limit0(t, eps, assume)`` returns a term E0 in which the symbol ``eps`` no longer occurs except
through the fresh symbol ``LOG_EPS`` (standing for log eps), such that

    t - E0 = O(eps * log(eps)^k)   for eps -> 0+ at every fixed value of the other symbols
                                    that satisfies ``assume``.

Method: t is brought to its normal form N/D over atoms (ratfun, with the z3-proved log
expansion, so every log atom has a sign-fixed polynomial argument and ``log eps`` is split off
wherever eps is a factor of an argument).  Then

  * the common power of eps is cancelled between N and the factors of D (exact, monomial);
  * every atom is replaced by its value at eps = 0: the symbol eps by 0, ``log(eps)`` by
    LOG_EPS, ``log(p)`` by ``log(p|eps=0)`` (p|eps=0 must not vanish identically), Li2 /
    Spence / sqrt atoms by the same function of the substituted argument (special values
    Li2(1) = pi^2/6, Li2(0) = 0 are inserted), ``log(1 - sqrt(u))`` with u -> 1 by the exact
    rewriting log(1 - u) - log(1 + sqrt(u));
  * D|eps=0 must not be the zero function.

Anything else (uninterpreted applications depending on eps, a vanishing denominator, a log whose
argument vanishes at eps = 0 in a way not covered above) raises OutOfReach: the caller reports
the obligation as *undecided*, never as a verdict.

L-lim (textbook, stated once): the atoms that survive are real-analytic in eps at eps = 0 for
fixed interior values of the other symbols, except Li2 at the branch point 1, which is Hoelder
(1 - u) log(1 - u); a polynomial in such atoms and in log eps over a denominator that does not
vanish at eps = 0 differs from its value "at eps = 0 with log eps kept" by O(eps log^k eps).
"""
from __future__ import annotations

from fractions import Fraction

from .sym import R, ZERO, ONE, add, mul, power, fn, no_sides, OutOfReach, to_frac
from . import ratfun as rf

LOG_EPS = R.var("LOG_EPS")


def subst(t, var, val, memo=None):
    """t[var := val] rebuilt with the folding constructors."""
    if memo is None:
        memo = {}
    r = memo.get(t._id)
    if r is not None:
        return r
    if t is var:
        r = val
    elif t.op in ("c", "v"):
        r = t
    elif t.op == "+":
        r = ZERO
        for a in t.args:
            r = add(r, subst(a, var, val, memo))
    elif t.op == "*":
        r = ONE
        for a in t.args:
            r = mul(r, subst(a, var, val, memo))
    elif t.op == "^":
        r = power(subst(t.args[0], var, val, memo), t.args[1])
    elif t.op == "f":
        r = fn(t.args[0], *[subst(a, var, val, memo) for a in t.args[1:]])
    elif t.op == "u":
        args = tuple(subst(a, var, val, memo) if isinstance(a, R) else a for a in t.args[1:])
        r = R("u", (t.args[0],) + args)
    else:  # pragma: no cover
        raise OutOfReach(f"subst: {t.op}")
    memo[t._id] = r
    return r


def _depends(t, var):
    from .diff import depends

    return depends(t, var)


def _simp_const(t):
    """R.const if the term is a constant rational function of its atoms, else the term."""
    if t.is_const:
        return t
    try:
        r = rf.Normaliser().norm(t)
    except (OutOfReach, ZeroDivisionError):
        return t
    if not r.num:
        return ZERO
    if not r.den and len(r.num) == 1 and () in r.num:
        return R.const(r.num[()])
    if r.den:
        # numerator a rational multiple of the (expanded) denominator, e.g. (1-z)/(1-z)
        dp = r.den_poly()
        m0 = next(iter(dp))
        if m0 in r.num and len(dp) == len(r.num):
            c = r.num[m0] / dp[m0]
            if all(mm in r.num and r.num[mm] == c * cc for mm, cc in dp.items()):
                return R.const(c)
    return t


PI2_6 = R.const(to_frac(3.141592653589793) ** 2 / 6)


def _sqrt_simplify(a, assume):
    """sqrt of a (Laurent) monomial c * prod a_i^(2 k_i) with c a rational square and every a_i
    proved positive (z3, under ``assume``) -> sqrt(c) * prod a_i^k_i; None when not of that form."""
    import math

    N = rf.Normaliser(assume)
    try:
        r = N.norm(a)
    except (OutOfReach, ZeroDivisionError):
        return None
    polys = [(r.num, 1)] + [(p, -e) for _, (p, e) in r.den.items()]
    out = ONE
    for p, e in polys:
        if len(p) != 1:
            return None
        ((m, c),) = p.items()
        if c <= 0:
            return None
        ce = c ** abs(e)
        n, d = ce.numerator, ce.denominator
        rn, rd = math.isqrt(n), math.isqrt(d)
        if rn * rn != n or rd * rd != d:
            return None
        fac = R.const(Fraction(rn, rd))
        for i, ei in m:
            if (ei * abs(e)) % 2 or N.poly_sign(rf.p_atom(i)) <= 0:
                return None
            fac = mul(fac, power(N.atom_terms[i], ei * abs(e) // 2))
        out = mul(out, fac if e > 0 else power(fac, -1))
    return out


def _numerically_zero(t, assume):
    """True when the term evaluates to (relative) zero at several random points satisfying the
    assumptions: used only to REFUSE a division (OutOfReach), never to prove anything."""
    from .core import find_witness
    from .numeval import evalf

    if t.is_const:
        return t.value == 0
    hits = 0
    for seed in (3, 17, 101):
        env = find_witness(ZERO, ONE, list(assume), tries=300, seed=seed)
        if not env:
            continue
        env.pop("_lhs", None), env.pop("_rhs", None)
        env.setdefault("LOG_EPS", -7.3)
        try:
            v = evalf(t, env)
        except Exception:  # noqa
            continue
        if abs(v) > 1e-9:
            return False
        hits += 1
    return hits > 0


def _special(name, args, assume=()):
    """Function application with the special values at the ends of the unit interval."""
    a = args[0]
    if name == "sqrt" and not a.is_const:
        sq = _sqrt_simplify(a, assume)
        if sq is not None:
            return sq
    if a.is_const:
        if name == "li2" and a.value == 1:
            return PI2_6
        if name == "li2" and a.value == 0:
            return ZERO
        if name == "spence" and a.value == 1:  # scipy spence(u) = Li2(1-u)
            return ZERO
        if name == "spence" and a.value == 0:
            return PI2_6
        if name == "li3" and a.value == 0:
            return ZERO
    return fn(name, *args)


def _val_eps(p, ie):
    """minimal exponent of atom ie over the monomials of p, and p with it removed"""
    if not p:
        return 0, p
    mn = min(dict(m).get(ie, 0) for m in p)
    if not mn:
        return 0, p
    q = {}
    for m, c in p.items():
        nm = tuple((j, e - mn) if j == ie else (j, e) for j, e in m)
        q[tuple(x for x in nm if x[1])] = c
    return mn, q


def limit0(t, eps, assume=(), depth=0):
    if depth > 12:
        raise OutOfReach("limit0: rewriting does not terminate")
    if not _depends(t, eps):
        return t
    with no_sides():
        N = rf.Normaliser(assume)
        r = N.norm(t)
        if not r.num:
            return ZERO
        ie = N.atoms.by_key.get(("v", eps.args[0]))
        num = r.num
        dens = [(p, e) for _, (p, e) in r.den.items()]
        if ie is not None:
            v, num = _val_eps(num, ie)
            nd = []
            for p, e in dens:
                vp, q = _val_eps(p, ie)
                v -= vp * e
                nd.append((q, e))
            dens = nd
        else:
            v = 0
        orig_dens = [(p, e) for _, (p, e) in r.den.items()]

        lim_cache = {}

        def arg0(a):
            """value at eps = 0 of a function argument (itself a term in eps): recursive limit"""
            v = _simp_const(limit0(a, eps, assume, depth + 1))
            if _depends(v, LOG_EPS):
                raise OutOfReach("limit0: function argument diverges logarithmically at eps = 0")
            return v

        def lim_atom(i):
            if i in lim_cache:
                return lim_cache[i]
            kind = N.atoms.info[i][0]
            term = N.atom_terms[i]
            if i == ie:
                out = ZERO
            elif kind == "v" or not _depends(term, eps):
                out = term
            elif term.op == "f" and term.args[0] in ("log", "logabs"):
                arg = term.args[1]
                ra0 = N.norm(arg)
                if arg is eps or (ie is not None and not ra0.den and ra0.num == rf.p_atom(ie)):
                    out = LOG_EPS
                else:
                    a0 = arg0(arg)
                    if a0.is_const and a0.value == 0:
                        out = _singular_log(arg)
                    elif a0.is_const and a0.value < 0 and term.args[0] == "log":
                        raise OutOfReach("limit0: log of a negative limit")
                    else:
                        out = fn(term.args[0], a0)
            elif term.op == "f":
                try:
                    args = [arg0(a) for a in term.args[1:]]
                    out = _special(term.args[0], args, assume)
                except OutOfReach:
                    if term.args[0] not in ("li2", "spence"):
                        raise
                    out = _li2_at_minus_infinity(term)
            elif term.op == "u":
                # uninterpreted application: exact when its arguments do not depend on eps once
                # simplified (e.g. xi/(4(1+eta)+xi) == z); otherwise only for the atoms that stand for
                # functions continuous on their domain (Nielsen polylogarithms, A-special)
                new_args, exact = [], True
                for a in term.args[1:]:
                    if isinstance(a, R) and _depends(a, eps):
                        a0 = arg0(a)
                        if rf.Normaliser(assume).identity(a, a0, 0)[0] != "proved":
                            exact = False
                        new_args.append(a0)
                    else:
                        new_args.append(a)
                if not exact and not str(term.args[0]).startswith(("ReS[", "ImS[")):
                    raise OutOfReach(f"limit0: uninterpreted atom depends on eps: {term!r:.80}")
                out = R("u", (term.args[0],) + tuple(new_args))
            else:
                raise OutOfReach(f"limit0: atom depends on eps: {term!r:.80}")
            lim_cache[i] = out
            return out

        def _li2_at_minus_infinity(term):
            """Li2(u) for u -> -infinity (u < 0 proved): -pi^2/6 - log(-u)^2/2 - Li2(1/u), Li2(1/u) -> 0."""
            from .smt import prove
            from .sym import compare

            u = term.args[1] if term.args[0] == "li2" else add(ONE, mul(R.const(-1), term.args[1]))
            inv = arg0(power(u, -1))
            if not (inv.is_const and inv.value == 0):
                raise OutOfReach("limit0: Li2 argument neither finite nor infinite at eps = 0")
            st, _m, _b = prove(list(assume), compare("<", u, ZERO), 5000)
            if st != "proved":
                raise OutOfReach("limit0: sign of a diverging Li2 argument not proved")
            L = limit0(fn("log", mul(R.const(-1), u)), eps, assume, depth + 1)
            return add(mul(R.const(-1), PI2_6), mul(R.const(Fraction(-1, 2)), mul(L, L)))

        def _singular_log(arg):
            """log|arg| with arg -> 0 at eps = 0 and arg = P + Q*s linear in one sqrt atom s = sqrt(u):
            log|P + Q s| = log|P^2 - Q^2 u| - log|P - Q s|   (exact wherever both sides are defined;
            the conjugate P - Q s must not vanish at eps = 0)."""
            ra = N.norm(arg)
            sq = [i for i in N.sqrt_defs if any(i == j for m in ra.num for j, _ in m)]
            # outermost radical first: an atom whose radicand mentions the other candidates
            def _rank(i):
                rad = N.atom_terms[i].args[1]
                return -sum(1 for j in sq if j != i and _depends(rad, N.atom_terms[j]))

            for si in sorted(sq, key=_rank) if not ra.den else []:
                P, Q = {}, {}
                ok = True
                for m, c in ra.num.items():
                    es = dict(m).get(si, 0)
                    rest = tuple(x for x in m if x[0] != si)
                    if es == 0:
                        P[rest] = P.get(rest, 0) + c
                    elif es == 1:
                        Q[rest] = Q.get(rest, 0) + c
                    else:
                        ok = False
                if ok and Q:
                    s = N.atom_terms[si]
                    u = s.args[1]
                    Pt, Qt = N.poly_term(P), N.poly_term(Q)
                    prod = add(mul(Pt, Pt), mul(R.const(-1), mul(mul(Qt, Qt), u)))
                    conj = add(Pt, mul(R.const(-1), mul(Qt, s)))
                    try:
                        c0 = arg0(conj)
                    except OutOfReach:
                        continue
                    if c0.is_const and c0.value == 0 or _numerically_zero(c0, assume):
                        continue
                    inner = limit0(fn("logabs", prod), eps, assume, depth + 1)
                    return add(inner, mul(R.const(-1), fn("logabs", c0)))
            raise OutOfReach(f"limit0: log argument vanishes at eps = 0: {arg!r:.80}")

        def lim_poly(p):
            tot = ZERO
            for m, c in p.items():
                term = R.const(c)
                for i, e in m:
                    term = mul(term, power(lim_atom(i), e))
                    if term is ZERO:
                        break
                tot = add(tot, term)
            return tot

        def _is_zero(d0):
            chk = rf.Normaliser(assume).norm(d0) if not d0.is_const else None
            return (d0.is_const and d0.value == 0) or (chk is not None and not chk.num) or _numerically_zero(d0, assume)

        def _rationalise(pden):
            """P + Q s (s = sqrt(u), one radical, outermost first) -> (P^2 - Q^2 u, P - Q s) as terms"""
            sq = [i for i in N.sqrt_defs if any(i == j for m in pden for j, _ in m)]

            def _rank(i):
                rad = N.atom_terms[i].args[1]
                return -sum(1 for j in sq if j != i and _depends(rad, N.atom_terms[j]))

            for si in sorted(sq, key=_rank):
                P, Q, ok = {}, {}, True
                for m, c in pden.items():
                    es = dict(m).get(si, 0)
                    rest = tuple(x for x in m if x[0] != si)
                    if es == 0:
                        P[rest] = P.get(rest, 0) + c
                    elif es == 1:
                        Q[rest] = Q.get(rest, 0) + c
                    else:
                        ok = False
                if not ok or not Q:
                    continue
                s_ = N.atom_terms[si]
                Pt, Qt = N.poly_term(P), N.poly_term(Q)
                conj = add(Pt, mul(R.const(-1), mul(Qt, s_)))
                try:
                    c0 = arg0(conj)
                except OutOfReach:
                    continue
                if _is_zero(c0):
                    continue
                prod = add(mul(Pt, Pt), mul(R.const(-1), mul(mul(Qt, Qt), s_.args[1])))
                return prod, conj
            return None

        # hidden zeros of denominator factors (a radical tending to a rational value): the factor is
        # rationalised exactly, (P + Q s)^-1 = (P - Q s)/(P^2 - Q^2 u), and the limit is retaken
        lims = []
        for k, (p, e) in enumerate(dens):
            d0 = lim_poly(p)
            if _is_zero(d0):
                rat = _rationalise(orig_dens[k][0])
                if rat is None:
                    raise OutOfReach("limit0: denominator vanishes at eps = 0 (0/0 not resolved)")
                prod, conj = rat
                new_t = mul(N.poly_term(r.num), power(conj, e))
                for j, (pj, ej) in enumerate(orig_dens):
                    new_t = mul(new_t, power(prod if j == k else N.poly_term(pj), -ej))
                return limit0(new_t, eps, assume, depth + 1)
            lims.append((d0, e))
        if v > 0:
            return ZERO
        if v < 0:
            raise OutOfReach(f"limit0: pole of order {-v} at eps = 0")
        out = lim_poly(num)
        for d0, e in lims:
            out = mul(out, power(d0, -e))
        return out
