"""First moments int_0^1 dz f(z) of kernels that are polynomials in z, ln z, ln(1-z), possibly
over one factor (1-z), by exact term-wise reduction of the *normal form of the real kernel* to a
table of definite integrals  J(a,b,c,k) = int_0^1 z^a ln^b(z) ln^c(1-z) / (1-z)^k dz.

The table entries are computed with mpmath's tanh-sinh quadrature at 40 digits (trusted
numerics, cross-validated against closed forms in zeta values); the reduction itself is exact
rational arithmetic.  (DESIGN C04: "trusted CAS computation".)
"""
from __future__ import annotations

from fractions import Fraction

import mpmath as mp

from .ratfun import Normaliser, p_key, p_scale, p_monic
from .sym import R, OutOfReach

mp.mp.dps = 40
_TABLE = {}


def J(a, b, c, k=0):
    key = (a, b, c, k)
    if key not in _TABLE:
        if k == 0 and c == 0:
            # int z^a ln^b z = (-1)^b b!/(a+1)^(b+1)
            _TABLE[key] = mp.mpf((-1) ** b) * mp.factorial(b) / mp.mpf(a + 1) ** (b + 1)
        elif k == 1 and c == 0 and a == 0 and b >= 1:
            _TABLE[key] = mp.mpf((-1) ** b) * mp.factorial(b) * mp.zeta(b + 1)
        else:
            f = lambda z: z**a * mp.log(z) ** b * mp.log(1 - z) ** c / (1 - z) ** k
            _TABLE[key] = mp.quad(f, [0, mp.mpf(1) / 2, 1])
    return _TABLE[key]


class NotIntegrable(Exception):
    pass


def first_moment(term, zvar, assume):
    """(value, gross) with gross = sum |coefficient * table entry|."""
    n = Normaliser(assume=assume)
    r = n.norm(R.lift(term))
    zi = n.atoms.by_key.get(("v", zvar.args[0]))
    # identify the log atoms
    l0 = l1 = None
    for i, (kind, payload) in enumerate(n.atoms.info):
        if kind != "f":
            continue
        key = [k for k, v in n.atoms.by_key.items() if v == i][0]
        if key[0] == "f" and key[1] == "log" and key[2][0] == "poly":
            poly = dict(key[2][1])
            if zi is not None and poly == {((zi, 1),): Fraction(1)}:
                l0 = i
            elif zi is not None and poly == {((zi, 1),): Fraction(-1), (): Fraction(1)}:
                l1 = i
    allowed = {zi, l0, l1} - {None}
    # denominator: only (z - 1)^k (monic form of 1-z)
    k = 0
    sign = 1
    for _, (p, e) in r.den.items():
        if zi is not None and p == {((zi, 1),): Fraction(1), (): Fraction(-1)}:
            k += e
            sign *= (-1) ** e  # 1/(z-1)^e = (-1)^e/(1-z)^e
        else:
            raise NotIntegrable(f"unsupported denominator factor {n.show_poly(p)}")
    # numerator as {(b, c): {a: coeff}}  (polynomials in z with coefficients tagged by log powers)
    groups = {}
    for mono, coeff in r.num.items():
        a = b = c = 0
        for i, e in mono:
            if i not in allowed:
                raise NotIntegrable(f"unsupported atom {n.atoms.name(i)}")
            if i == zi:
                a = e
            elif i == l0:
                b = e
            elif i == l1:
                c = e
        groups.setdefault((b, c), {})
        groups[(b, c)][a] = groups[(b, c)].get(a, Fraction(0)) + coeff * sign
    # divide by (1-z) k times: n(z) = (1-z) q(z) + n(1)
    pieces = []  # (a, b, c, kk, coeff)
    for (b, c), poly in groups.items():
        cur = dict(poly)
        kk = k
        while kk > 0:
            deg = max(cur) if cur else 0
            # synthetic division by (1 - z):  n(z) = (1-z) q(z) + n(1), q_j = sum_{i>j} n_i ... via n(z)-n(1) = -(1-z) * sum ...
            n1 = sum(cur.values(), Fraction(0))
            # (n(z) - n(1)) / (1 - z) = - sum_i n_i (z^i - 1)/(z - 1) = - sum_i n_i (1 + z + ... + z^(i-1))
            q = {}
            for i, ni in cur.items():
                for j in range(i):
                    q[j] = q.get(j, Fraction(0)) - ni
            if n1 != 0:
                pieces.append((0, b, c, kk, n1))
            cur = {j: v for j, v in q.items() if v != 0}
            kk -= 1
        for a, co in cur.items():
            pieces.append((a, b, c, 0, co))
    total = mp.mpf(0)
    gross = mp.mpf(0)
    for a, b, c, kk, co in pieces:
        if kk >= 1 and b < kk:
            raise NotIntegrable(f"non-integrable term ln^{b}(z) ln^{c}(1-z)/(1-z)^{kk} with coefficient {float(co):.6g}")
        val = J(a, b, c, kk) * mp.mpf(co.numerator) / co.denominator
        total += val
        gross += abs(val)
    return total, gross


def value_at_zero(term, zvar, assume):
    """loc(0+): z -> 0, ln(1-z) -> 0; ln z must not occur."""
    n = Normaliser(assume=assume)
    r = n.norm(R.lift(term))
    if r.den:
        raise NotIntegrable("denominator in the local part")
    zi = n.atoms.by_key.get(("v", zvar.args[0]))
    total = mp.mpf(0)
    for mono, coeff in r.num.items():
        if not mono:
            total += mp.mpf(coeff.numerator) / coeff.denominator
            continue
        for i, e in mono:
            kind, payload = n.atoms.info[i]
            if i == zi:
                continue  # z^e -> 0
            key = [k for k, v in n.atoms.by_key.items() if v == i][0]
            if key[0] == "f" and key[1] == "log" and key[2][0] == "poly" and zi is not None and dict(key[2][1]) == {((zi, 1),): Fraction(-1), (): Fraction(1)}:
                continue  # ln(1-z)^e -> 0
            raise NotIntegrable(f"local part contains {n.atoms.name(i)}")
    return total


def value_at_zero_general(term, zvar):
    """loc(0+) by evaluating the term at z = 10^-35 with 40-digit arithmetic (local parts are
    continuous at 0: polynomials in z, ln(1-z), Li2(z), Li2(1-z))."""
    from .numeval import evalf

    return evalf(R.lift(term), {zvar.args[0]: mp.mpf(10) ** -35}, mp=True)


def mellin_moment(rsl_parts, zvar, N, assume):
    """N-th Mellin moment of a distribution given by (reg, sing, loc) terms:
    int z^(N-1) reg + int (z^(N-1) - 1) sing + loc(0+)."""
    from .sym import power

    tot = mp.mpf(0)
    zN = power(zvar, N - 1) if N > 1 else R.const(1)
    if rsl_parts.get("reg") is not None:
        tot += first_moment(R.lift(rsl_parts["reg"]) * zN, zvar, assume)[0]
    if rsl_parts.get("sing") is not None and N > 1:
        tot += first_moment(R.lift(rsl_parts["sing"]) * (zN - 1), zvar, assume)[0]
    if rsl_parts.get("loc") is not None:
        tot += value_at_zero_general(rsl_parts["loc"], zvar)
    return tot
