"""Numeric evaluation of IR terms (for CPython cross-checks and replay)."""
from __future__ import annotations

import math
from fractions import Fraction

import mpmath

from .sym import R, B


def li2(x):
    return float(mpmath.polylog(2, x).real)


FUNCS = {
    "log": math.log,
    "exp": math.exp,
    "sqrt": math.sqrt,
    "li2": li2,
    "atan": math.atan,
    "atanh": math.atanh,
    "spence": lambda u: li2(1 - u),
    "li3": lambda x: float(mpmath.polylog(3, x).real),
    "logabs": lambda x: math.log(abs(x)),
}

MP_FUNCS = {
    "log": mpmath.log,
    "exp": mpmath.exp,
    "sqrt": mpmath.sqrt,
    "li2": lambda x: mpmath.polylog(2, x),
    "atan": mpmath.atan,
    "atanh": mpmath.atanh,
    "spence": lambda u: mpmath.polylog(2, 1 - u),
    "li3": lambda x: mpmath.polylog(3, x).real,
    "logabs": lambda x: mpmath.log(abs(x)),
}


def evalf(t, env, ufs=None, mp=False, memo=None):
    """env: var name -> number; ufs: name -> callable(*args) for uninterpreted applications."""
    if memo is None:
        memo = {}
    r = memo.get(t._id)
    if r is not None:
        return r
    op = t.op
    if op == "c":
        v = t.value
        r = mpmath.mpf(v.numerator) / v.denominator if mp else v.numerator / v.denominator
    elif op == "v":
        r = env[t.args[0]]
        if mp:
            r = mpmath.mpf(r) if not isinstance(r, Fraction) else mpmath.mpf(r.numerator) / r.denominator
        else:
            r = float(r)
    elif op == "+":
        r = sum(evalf(a, env, ufs, mp, memo) for a in t.args)
    elif op == "*":
        r = 1
        for a in t.args:
            r = r * evalf(a, env, ufs, mp, memo)
    elif op == "^":
        r = evalf(t.args[0], env, ufs, mp, memo) ** t.args[1]
    elif op == "f":
        f = (MP_FUNCS if mp else FUNCS)[t.args[0]]
        r = f(*[evalf(a, env, ufs, mp, memo) for a in t.args[1:]])
    elif op == "u":
        name = t.args[0]
        args = [evalf(a, env, ufs, mp, memo) if isinstance(a, R) else a for a in t.args[1:]]
        key = repr(t)
        if ufs is not None and name in ufs:
            r = ufs[name](*args)
        elif key in env:
            r = env[key]
        else:
            raise KeyError(f"no value for uninterpreted {key}")
    else:
        raise ValueError(op)
    memo[t._id] = r
    return r


def evalb(b, env, ufs=None):
    if isinstance(b, bool):
        return b
    op = b.op
    if op in ("<", "<=", "=="):
        x, y = evalf(b.args[0], env, ufs), evalf(b.args[1], env, ufs)
        return {"<": x < y, "<=": x <= y, "==": x == y}[op]
    if op == "not":
        return not evalb(b.args[0], env, ufs)
    if op == "and":
        return all(evalb(a, env, ufs) for a in b.args)
    if op == "or":
        return any(evalb(a, env, ufs) for a in b.args)
    raise ValueError(op)
