"""Driver: ./check <id> [--tier quick|thorough] [--replay file]"""
import argparse
import importlib
import json
import os
import sys
import traceback

from . import boot


def main():
    ap = argparse.ArgumentParser()
    ap.add_argument("pid")
    ap.add_argument("--tier", default=os.environ.get("VERIF_TIER", "quick"), choices=["quick", "thorough"])
    ap.add_argument("--replay", default=None)
    ap.add_argument("--only", default=None, help="substring filter on contract sections (debugging)")
    a = ap.parse_args()
    seed = int(os.environ.get("VERIF_SEED", "0") or 0)
    pid = a.pid.upper()
    try:
        boot.boot()
        from .core import Report, finish

        mod = importlib.import_module(f"contracts.{pid.lower()}")
        if a.replay:
            d = json.load(open(a.replay))
            print(json.dumps({k: d.get(k) for k in ("property", "obligation", "verifier_output", "failing_input")}, indent=1))
            rep = Report(pid, a.tier, seed)
            rep.replay_target = d["obligation"]
            rep.replay_env = d.get("failing_input") or {}
            if "only" in mod.run.__code__.co_varnames:
                mod.run(rep, a.tier, seed, only=a.only)
            else:
                mod.run(rep, a.tier, seed)
            if not rep.replay_seen:
                print("obligation is not replayable natively (structural obligation or no failing input): see verifier_output above")
            return 1
        rep = Report(pid, a.tier, seed)
        rep.stub(*boot.SHIMS)
        rep.assume(
            "A-real: machine arithmetic treated as mathematical (floats rationalised exactly)",
            "A-py: CPython executes the real function objects; path enumeration complete because every non-bool concretisation raises",
            "pvc engine (this verifier) trusted modulo its canary / cross-check self-tests",
        )
        mod.run(rep, a.tier, seed, only=a.only) if "only" in mod.run.__code__.co_varnames else mod.run(rep, a.tier, seed)
        return finish(rep, getattr(mod, "LEVEL", "proof"))
    except SystemExit:
        raise
    except Exception:
        traceback.print_exc()
        print(f"[{pid}] engine crash (exit 3) -- not a verdict about the property")
        return 3


def generic_replay(path):
    """Re-run the native reproducer stored in a replay file."""
    d = json.load(open(path))
    print(json.dumps({k: d[k] for k in ("property", "obligation", "verifier_output")}, indent=1))
    code = d.get("replay", {}).get("python")
    if not code:
        print("no native reproducer recorded (no-failing-input-found)")
        return 1
    print("--- reproducer ---")
    print(code)
    print("--- output ---")
    g = {}
    try:
        exec(code, g)
    except Exception:
        traceback.print_exc()
    return 1


if __name__ == "__main__":
    sys.exit(main())
