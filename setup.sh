#!/bin/bash
# Build /verif/.venv offline: a python 3.12 venv of /venv's interpreter with the
# solver wheels from /opt/veriftools/wheels plus a .pth that exposes /venv's
# site-packages (numpy, scipy, numba, eko, yadism editable install, ...).
set -euo pipefail
cd "$(dirname "$0")"
export PIP_NO_INDEX=1 PIP_DISABLE_PIP_VERSION_CHECK=1
if [ ! -x .venv/bin/python ] || ! .venv/bin/python -c "import z3, cvc5, sympy, mpmath, jsonschema, numpy, yadism" 2>/dev/null; then
  rm -rf .venv
  /venv/bin/python -m venv .venv
  .venv/bin/python -m pip install --quiet --no-index --find-links /opt/veriftools/wheels \
      z3-solver cvc5 sympy mpmath jsonschema
  SP=$(.venv/bin/python -c "import sysconfig; print(sysconfig.get_paths()['purelib'])")
  echo "import site; site.addsitedir('/venv/lib/python3.12/site-packages')" > "$SP/zz_venv_overlay.pth"
fi
.venv/bin/python - <<'EOF'
import z3, cvc5, sympy, mpmath, jsonschema, numpy, scipy
import os
os.environ["NUMBA_DISABLE_JIT"] = "1"
print("setup ok: z3", z3.get_version_string(), "sympy", sympy.__version__, "numpy", numpy.__version__)
EOF
mkdir -p evidence replays
